"""C12 — implementation side: misbehaving harness plugins of every plugin kind, run on the real strax.

A *cell* is a dict
  kind    : source | ordinary | multi | down | loop | cut | overlap
  vk      : violation kind (VK) or 'good'
  dv      : dtype variant 0 extra, 1 missing, 2 renamed, 3 retyped, 4 reordered
  which   : multi-output: offending output 0 = 'tt' (the requested target), 1 = 'uu'
  ov      : other variant (rows_*: 0 bare array / 1 self.chunk; non_*: which non-thing)
  pos     : index (0-based) of the offending source chunk / invocation in the run
  n, r    : number of source chunks, rows per source chunk
  rechunk : rechunk_on_save of the plugin under test
  api     : get_array | make
  proc    : single_thread | threaded_mailbox
The behaviour of these plugins is mirrored, definition by definition, in coq/Model/C12Harness.v
(make_item, user_payload, src_rows); keep both in step.

Source stream: chunk i covers [100 i, 100 (i+1)); row j starts at 100 i + 100 (j+1) // (r+1),
lasts 5 ns, id = 10 i + j.
"""
import os
import shutil
import warnings

import numpy as np
import strax
from immutabledict import immutabledict

RUN = "0"
SPAN = 100

KINDS = ["source", "ordinary", "multi", "down", "loop", "cut", "overlap"]
VK = ["good", "dtype_bare", "dtype_chunk", "dtype_chunk_raw", "rows_early", "rows_late", "label", "gap", "overlap",
      "non_dict", "missing_key", "non_generator", "non_chunk", "unknown_field", "cut_shape", "non_array"]
DTYPE_VARS = ["extra", "missing", "renamed", "retyped", "reordered"]

# ---------------------------------------------------------------------------------------------
# dtypes.  A dtype is abstractly a list of (field name id, type id); titles are not part of it.
# ---------------------------------------------------------------------------------------------
F_TIME, F_ENDTIME, F_ID, F_VAL, F_JUNK, F_VAL2, F_CUT, F_LENGTH, F_DT = 1, 2, 3, 4, 5, 6, 7, 8, 9
T_BOOL, T_I16, T_I32, T_I64 = 0, 1, 2, 3
FNAME = {F_TIME: "time", F_ENDTIME: "endtime", F_ID: "id", F_VAL: "val", F_JUNK: "junk", F_VAL2: "val2",
         F_CUT: "the_cut", F_LENGTH: "length", F_DT: "dt"}
TNAME = {T_I64: np.int64, T_I32: np.int32, T_I16: np.int16, T_BOOL: np.bool_}
TITLES = {F_TIME: "Start time since unix epoch [ns]", F_ENDTIME: "Exclusive end time since unix epoch [ns]",
          F_CUT: "c"}

ADT_SRC = [(F_TIME, T_I64), (F_ENDTIME, T_I64), (F_ID, T_I64)]
ADT_T = [(F_TIME, T_I64), (F_ENDTIME, T_I64), (F_ID, T_I64), (F_VAL, T_I32)]
ADT_U = [(F_TIME, T_I64), (F_ENDTIME, T_I64), (F_VAL2, T_I16)]
ADT_CUT = [(F_TIME, T_I64), (F_ENDTIME, T_I64), (F_CUT, T_BOOL)]

L_SRC, L_T, L_U, L_OTHER = 1, 2, 3, 9
LNAME = {L_SRC: "src", L_T: "tt", L_U: "uu", L_OTHER: "other"}


def np_dtype(adt, titles=True):
    out = []
    for f, t in adt:
        name = FNAME[f]
        if titles and f in TITLES:
            name = (TITLES[f], name)
        out.append((name, TNAME[t]))
    return np.dtype(out)


def wrong_dtype(adt, dv):
    adt = list(adt)
    if dv == 0:
        return adt + [(F_JUNK, T_I16)]
    if dv == 1:
        return adt[:-1]
    if dv == 2:
        return adt[:-1] + [(F_JUNK, adt[-1][1])]
    if dv == 3:
        return adt[:-1] + [(adt[-1][0], T_I32 if adt[-1][1] == T_I64 else T_I64)]
    return adt[:-2] + [adt[-1], adt[-2]]


def fill(adt, rows, titles=True):
    """rows: list of (t, e, id).  Other columns are zero."""
    a = np.zeros(len(rows), dtype=np_dtype(adt, titles))
    names = a.dtype.names
    for i, (t, e, rid) in enumerate(rows):
        a[i]["time"] = t
        if "endtime" in names:
            a[i]["endtime"] = e
        if "id" in names:
            a[i]["id"] = rid
    return a


def src_rows(i, r):
    return [(SPAN * i + (SPAN * (j + 1)) // (r + 1), SPAN * i + (SPAN * (j + 1)) // (r + 1) + 5, 10 * i + j)
            for j in range(r)]


def rows_of_array(a):
    ids = a["id"] if "id" in a.dtype.names else np.zeros(len(a), int)
    return [(int(a["time"][i]), int(a["endtime"][i]), int(ids[i])) for i in range(len(a))]


# ---------------------------------------------------------------------------------------------
# Applicability of a violation kind to a plugin kind, and the variants of a cell
# ---------------------------------------------------------------------------------------------
APPLICABLE = {
    "source": ["dtype_bare", "dtype_chunk", "dtype_chunk_raw", "rows_early", "rows_late", "label", "gap", "overlap"],
    "ordinary": ["dtype_bare", "dtype_chunk", "dtype_chunk_raw", "rows_early", "rows_late", "label", "gap",
                 "overlap", "unknown_field", "non_array"],
    "multi": ["dtype_bare", "dtype_chunk", "dtype_chunk_raw", "rows_early", "rows_late", "label", "gap",
              "overlap", "non_dict", "missing_key"],
    "down": ["dtype_bare", "dtype_chunk", "dtype_chunk_raw", "rows_early", "rows_late", "label", "gap",
             "overlap", "non_generator", "non_chunk"],
    "loop": ["rows_early", "rows_late", "non_dict", "unknown_field"],
    "cut": ["cut_shape"],
    "overlap": ["dtype_bare", "dtype_chunk", "dtype_chunk_raw", "rows_early", "rows_late", "label",
                "unknown_field", "non_array"],
}


def applicable(kind, vk):
    return vk == "good" or vk in APPLICABLE[kind]


def variants(kind, vk):
    """list of (dv, which, ov)"""
    dvs = range(5) if vk in ("dtype_bare", "dtype_chunk", "dtype_chunk_raw") else [0]
    if vk in ("rows_early", "rows_late"):
        ovs = [1] if kind in ("source", "down") else ([0] if kind == "loop" else [0, 1])
    elif vk == "non_dict":
        ovs = [0, 1] if kind == "multi" else [0]
    elif vk in ("non_generator", "non_chunk", "non_array"):
        ovs = [0, 1]
    else:
        ovs = [0]
    whichs = [0]
    if kind == "multi" and vk not in ("good", "non_dict", "missing_key"):
        # gaps / overlaps concern the requested target only (the statement of C12)
        whichs = [0] if vk in ("gap", "overlap") else [0, 1]
    return [(dv, w, ov) for dv in dvs for w in whichs for ov in ovs]


def offending_type(cell):
    if cell["kind"] == "source":
        return "src"
    if cell["kind"] == "multi" and cell["vk"] not in ("non_dict", "missing_key") and cell["which"] == 1:
        return "uu"
    return "tt"


def enc_cell(cell):
    return "cell %d %d %d %d %d %d %d %d %d %d" % (
        KINDS.index(cell["kind"]), VK.index(cell["vk"]), cell["dv"], cell["which"], cell["ov"], cell["pos"],
        cell["n"], cell["r"], 1 if cell["rechunk"] else 0, 1 if cell["api"] == "get_array" else 0)


# ---------------------------------------------------------------------------------------------
# Plugin classes
# ---------------------------------------------------------------------------------------------

def make_item(plugin, label, adt_decl, s, e, rows, vk, dv, ov):
    """Mirror of C12Harness.make_item, realised as real numpy / strax objects."""
    lname = LNAME[label]
    dt = wrong_dtype(adt_decl, dv) if vk in ("dtype_bare", "dtype_chunk", "dtype_chunk_raw") else adt_decl
    if vk == "rows_early":
        rows = [(s - 1, s + 1, 999)] + list(rows)
    if vk == "rows_late":
        rows = list(rows) + [(e - 2, e + 1, 999)]
    if vk == "gap":
        s, e = s + 1, e - 1
    if vk == "overlap":
        s, e = max(s - 1, 0), e + 1
    lname2 = lname
    if vk == "label":
        lname2 = ("uu" if lname == "tt" else "tt") if plugin.multi_output else "other"
    data = fill(dt, rows)
    bare = vk == "dtype_bare" or (vk in ("rows_early", "rows_late") and ov == 0)
    if bare:
        return data
    raw = dict(start=s, end=e, run_id=plugin._run_id, data_kind=plugin.data_kind_for(lname), data_type=lname2,
               data=data, target_size_mb=plugin.chunk_target_size_mb)
    if vk == "dtype_chunk_raw":
        return strax.Chunk(dtype=data.dtype, **raw)
    if vk == "label":
        return strax.Chunk(dtype=plugin.dtype_for(lname), **raw)
    return plugin.chunk(start=s, end=e, data=data, data_type=lname)


def make_source(cell, misbehaves):
    n, r = cell["n"], cell["r"]

    class Src(strax.Plugin):
        depends_on = tuple()
        provides = "src"
        data_kind = "src"
        dtype = np_dtype(ADT_SRC)
        rechunk_on_save = cell["rechunk"] if misbehaves else False
        __version__ = "0"

        def is_ready(self, chunk_i):
            return chunk_i < n

        def source_finished(self):
            return True

        def compute(self, chunk_i):
            rows = src_rows(chunk_i, r)
            s, e = SPAN * chunk_i, SPAN * (chunk_i + 1)
            vk = cell["vk"] if (misbehaves and chunk_i == cell["pos"]) else "good"
            return make_item(self, L_SRC, ADT_SRC, s, e, rows, vk, cell["dv"], 1)

    return Src


def make_under_test(cell):
    kind, pos = cell["kind"], cell["pos"]
    dv, which, ov = cell["dv"], cell["which"], cell["ov"]
    rechunk = cell["rechunk"]

    def vk_of(off):
        return cell["vk"] if off else "good"

    if kind in ("ordinary", "overlap"):
        base = strax.Plugin if kind == "ordinary" else strax.OverlapWindowPlugin

        class T(base):
            depends_on = ("src",)
            provides = "tt"
            data_kind = "tt"
            dtype = np_dtype(ADT_T)
            rechunk_on_save = rechunk
            __version__ = "0"

            def setup(self):
                self.n_calls = 0

            def get_window_size(self):
                return 10

            def compute(self, src, start, end):
                vk = vk_of(self.n_calls == pos)
                self.n_calls += 1
                rows = rows_of_array(src)
                if vk == "unknown_field":
                    return dict(time=src["time"], endtime=src["endtime"], junk=np.zeros(len(src)))
                if vk == "non_array":
                    return None if ov == 0 else (1, 2)
                if vk == "good":
                    return fill(ADT_T, rows)
                return make_item(self, L_T, ADT_T, start, end, rows, vk, dv, ov)
        return T

    if kind == "multi":
        class T(strax.Plugin):
            depends_on = ("src",)
            provides = ("tt", "uu")
            data_kind = immutabledict(tt="tt", uu="uu")
            dtype = dict(tt=np_dtype(ADT_T), uu=np_dtype(ADT_U))
            rechunk_on_save = rechunk
            save_when = immutabledict(tt=strax.SaveWhen.ALWAYS, uu=strax.SaveWhen.ALWAYS)
            __version__ = "0"

            def compute(self, src, start, end, chunk_i):
                vk = vk_of(chunk_i == pos)
                rows = rows_of_array(src)
                good = dict(tt=fill(ADT_T, rows), uu=fill(ADT_U, rows))
                if vk == "good":
                    return good
                if vk == "non_dict":
                    return good["tt"] if ov == 0 else (good["tt"], good["uu"])
                if vk == "missing_key":
                    return dict(tt=good["tt"])
                if which == 0:
                    good["tt"] = make_item(self, L_T, ADT_T, start, end, rows, vk, dv, ov)
                else:
                    good["uu"] = make_item(self, L_U, ADT_U, start, end, rows, vk, dv, ov)
                return good
        return T

    if kind == "down":
        class T(strax.DownChunkingPlugin):
            depends_on = ("src",)
            provides = "tt"
            data_kind = "tt"
            dtype = np_dtype(ADT_T)
            rechunk_on_save = rechunk
            __version__ = "0"

            def compute(self, src, start, end, chunk_i):
                vk = vk_of(chunk_i == pos)
                rows = rows_of_array(src)
                if vk == "non_generator":
                    if ov == 0:
                        return make_item(self, L_T, ADT_T, start, end, rows, "good", 0, 1)
                    return [1, 2]
                return self._gen(vk, start, end, rows)

            def _gen(self, vk, start, end, rows):
                mid = (start + end) // 2
                r1 = [q for q in rows if q[1] <= mid]
                r2 = [q for q in rows if not q[1] <= mid]
                yield make_item(self, L_T, ADT_T, start, mid, r1, "good", 0, 1)
                # the second sub-chunk of the offending input chunk misbehaves
                if vk == "non_chunk":
                    yield fill(ADT_T, r2) if ov == 0 else None
                    return
                yield make_item(self, L_T, ADT_T, mid, end, r2, vk, dv, 1)
        return T

    if kind == "loop":
        class T(strax.LoopPlugin):
            depends_on = ("src",)
            provides = "tt"
            data_kind = "tt"
            dtype = np_dtype(ADT_T)
            rechunk_on_save = rechunk
            __version__ = "0"

            def compute_loop(self, src):
                i, j = int(src["id"]) // 10, int(src["id"]) % 10
                vk = vk_of(i == pos)
                out = dict(time=src["time"], endtime=src["endtime"], id=src["id"], val=0)
                if vk == "non_dict":
                    return (1, 2)
                if vk == "unknown_field":
                    out["junk"] = 1
                if vk == "rows_early" and j == 0:
                    out["time"] = SPAN * i - 1
                if vk == "rows_late" and j == cell["r"] - 1:
                    out["endtime"] = SPAN * (i + 1) + 1
                return out
        return T

    if kind == "cut":
        class T(strax.CutPlugin):
            depends_on = ("src",)
            provides = "tt"
            cut_name = "the_cut"
            cut_description = "c"
            rechunk_on_save = rechunk
            __version__ = "0"

            def cut_by(self, src):
                off = len(src) and int(src["id"][0]) // 10 == pos
                if vk_of(off) == "cut_shape":
                    return np.ones(len(src) + 2, dtype=bool)
                return np.ones(len(src), dtype=bool)
        return T
    raise ValueError(kind)


# ---------------------------------------------------------------------------------------------
# Running one cell
# ---------------------------------------------------------------------------------------------
ERRMAP = [
    # (substring of message, exception class name, model error code)
    ("negative start time", "ValueError", 1), ("negative length", "ValueError", 2),
    ("starts early", "ValueError", 3), ("ends late", "ValueError", 4),
    ("should be [", "ValueError", 5),                                   # Chunk.__init__ dtype comparison
    ("did not deliver data type", "PluginGaveWrongOutput", 40),
    ("must return full strax Chunks", "ValueError", 41),
    ("is multi-output and should provide a dict output", "ValueError", 42),
    ("returned a Chunk with data_type", "ValueError", 43),
    ("Ran into single key results dict", "ValueError", 44),
    ("should return a generator", "ValueError", 45),
    ("should yield (dict of) strax.Chunk", "ValueError", 46),
    ("provide a generator of dict output", "ValueError", 47),
    ("Please provide result in compute loop as dict", "AttributeError", 48),
    ("no field of name", "ValueError", 49),
    ("could not broadcast", "ValueError", 50),
    ("Data is not continuous", "ValueError", 60),
    ("overlapping or out-of-order", "ValueError", 23),
    ("different data types", "ValueError", 21),
    ("Missing time and endtime information", "ValueError", 80),
]


def err_code(e):
    if isinstance(e, KeyError):
        return 51
    msg = str(e)
    cls = type(e).__name__
    if cls == "DTypePromotionError":
        return 70
    for sub, c, code in ERRMAP:
        if sub in msg and c == cls:
            return code
    if cls in ("TypeError", "AttributeError"):
        return 52
    return "%s:%s" % (cls, msg[:120])


def target_of(cell):
    return "src" if cell["kind"] == "source" else "tt"


def declared_adt(cell, d):
    if d == "src":
        return ADT_SRC
    if d == "uu":
        return ADT_U
    return ADT_CUT if cell["kind"] == "cut" else ADT_T


def declared_np(cell, d):
    return np_dtype(declared_adt(cell, d), titles=False)


def make_context(cell, path):
    st = strax.Context(storage=[strax.DataDirectory(path)], register=[], config={},
                       timeout=cell.get("timeout", 60), allow_lazy=cell.get("lazy", True), allow_multiprocess=False)
    if cell["kind"] == "source":
        st.register(make_source(cell, True))
    else:
        st.register(make_source(cell, False))
        st.register(make_under_test(cell))
    return st


def provided(cell):
    if cell["kind"] == "source":
        return ["src"]
    return ["src", "tt", "uu"] if cell["kind"] == "multi" else ["src", "tt"]


def run_cell(cell, path):
    """Run the real strax on one cell in a fresh storage directory `path`; returns an observation."""
    if os.path.exists(path):
        shutil.rmtree(path)
    os.makedirs(path)
    tgt = target_of(cell)
    obs = {}
    with warnings.catch_warnings():
        warnings.simplefilter("ignore")
        st = make_context(cell, path)
        kw = dict(processor=cell["proc"], progress_bar=False)
        if cell.get("max_workers"):
            kw["max_workers"] = cell["max_workers"]
        try:
            if cell["api"] == "get_array":
                a = st.get_array(RUN, tgt, **kw)
                obs["result"] = "ok"
                obs["code"] = 0
                obs["out_dtype_ok"] = bool(strax.remove_titles_from_dtype(a.dtype) == declared_np(cell, tgt))
                obs["out_n"] = len(a)
            else:
                st.make(RUN, tgt, **kw)
                obs["result"] = "ok"
                obs["code"] = 0
        except Exception as e:  # noqa
            obs["result"] = "err"
            obs["code"] = err_code(e)
            obs["exc"] = "%s: %s" % (type(e).__name__, str(e)[:160])
        # ---- afterwards: a fresh context on the same storage directory
        st2 = make_context(cell, path)
        stored = {}
        for d in provided(cell):
            info = {"is_stored": bool(st2.is_stored(RUN, d))}
            if info["is_stored"]:
                try:
                    # load only (never recompute)
                    st3 = make_context(cell, path)
                    st3.set_context_config(dict(forbid_creation_of=("src", "tt", "uu")))
                    chunks = list(st3.get_iter(RUN, d, progress_bar=False, processor="single_thread"))
                    info["loads"] = True
                    info["chunks"] = [(c.start, c.end, len(c)) for c in chunks]
                    info["dtype_ok"] = all(strax.remove_titles_from_dtype(c.data.dtype) == declared_np(cell, d)
                                           for c in chunks)
                    info["label_ok"] = all(c.data_type == d for c in chunks)
                    info["rows_inside"] = all(
                        (len(c) == 0) or (c.data["time"].min() >= c.start and strax.endtime(c.data).max() <= c.end)
                        for c in chunks)
                    info["contiguous"] = all(a.end == b.start for a, b in zip(chunks[:-1], chunks[1:]))
                    info["n"] = sum(len(c) for c in chunks)
                except Exception as e:  # noqa
                    info["loads"] = False
                    info["load_exc"] = "%s: %s" % (type(e).__name__, str(e)[:160])
            stored[d] = info
        obs["stored"] = stored
    shutil.rmtree(path, ignore_errors=True)
    return obs
