"""C05 — a mailbox delivers every message exactly once, in order, to every subscriber.

The real strax.Mailbox runs under the controlled scheduler (harness/sched); the same schedule is fed
to the extracted Coq LTS (coq/Model/Mailbox.v) and the abstract observations are compared after every
step.  Independently of the model, the property's own predicates are evaluated on every implementation
run (delivered prefixes, capacity bound, no deadlock, complete delivery at the end).
"""
import json
import os
import sys
import threading
from functools import partial

import strax
import strax.mailbox

from harness import lib
from harness.sched import explore_dfs, random_walks, run_schedule
from harness.sched.core import pool_threads, shutdown_pool

MODEL_PROPS = ["C05"]
LEVEL = "proof"

BIG_TIMEOUT = 10 ** 9      # real timeouts never fire; deadlocks are detected by the scheduler

CODE = {"runnable": 0, "blocked": 1, "done": 2, "dead": 3, "new": 2}


# ------------------------------------------------------------------------------------------
# cases
# ------------------------------------------------------------------------------------------
# case = {"cap": int | None, "lazy": bool, "drives": [bool], "items": [[num|-1, kind, k, v]],
#         "killer": -1 | 0 | 1, "nfut": int}
# kind 0: plain message with value v; kind 1: future number k whose result will be v.

def mk_case(cap, lazy, drives, n_msgs, futures=(), numbers=None, killer=-1):
    items = []
    nfut = 0
    for j in range(n_msgs):
        num = -1 if numbers is None else numbers[j]
        if j in futures:
            items.append([num, 1, nfut, 100 + j])
            nfut += 1
        else:
            items.append([num, 0, 0, 100 + j])
    return {"cap": cap, "lazy": bool(lazy), "drives": [bool(d) for d in drives], "items": items,
            "killer": killer, "nfut": nfut}


def case_line(case, schedule, cmd="run"):
    toks = [cmd, -1 if case["cap"] is None else case["cap"], int(case["lazy"]), len(case["drives"])]
    toks += [int(d) for d in case["drives"]]
    toks.append(len(case["items"]))
    for it in case["items"]:
        toks += list(it)
    toks += [case["killer"], case["nfut"], len(schedule)] + list(schedule)
    return " ".join(str(t) for t in toks)


def expected_values(case):
    """The sent messages ordered by number, futures replaced by their results."""
    items = case["items"]
    nums = [it[0] if it[0] >= 0 else j for j, it in enumerate(items)]
    return [v for _, v in sorted(zip(nums, [it[3] for it in items]))]


def room_ok(case):
    """Explicit numbering: before every send the number of already-sent messages above the lowest
    unsent number must be below the capacity (implied by `capacity > largest displacement`)."""
    if case["cap"] is None:
        return True
    nums = [it[0] if it[0] >= 0 else j for j, it in enumerate(case["items"])]
    sent = set()
    for k in nums + [len(nums)]:
        u = 0
        while u in sent:
            u += 1
        if len([x for x in sent if x > u]) >= case["cap"]:
            return False
        sent.add(k)
    return True


# ------------------------------------------------------------------------------------------
# the real mailbox under the controlled scheduler
# ------------------------------------------------------------------------------------------

def _send_from_numbered(mb, iterable):
    """Mailbox._send_from with explicit message numbers (strax has no sender that numbers explicitly;
    this mirrors _send_from statement by statement and calls the real send/close/kill_from_exception)."""
    try:
        i = 0
        while True:
            if mb.lazy:
                with mb._lock:
                    if not mb._can_fetch():
                        if not mb._fetch_new_condition.wait_for(mb._can_fetch, timeout=mb.timeout):
                            raise strax.MailboxReadTimeout("no driving subscriber")
            try:
                num, x = next(iterable)
            except StopIteration:
                break
            try:
                mb.send(x, msg_number=num)
            except Exception as e:
                iterable.throw(e)
                raise
            i += 1
    except Exception as e:
        mb.kill_from_exception(e)
    else:
        mb.close()


class MailboxSystem:
    """One strax.Mailbox with a sender, S subscribers, an optional killer and future workers.
    Thread ids: 0 sender, 1..S subscribers, S+1 killer, S+2+k worker of future k."""

    def __init__(self, sched, case, warmup=True):
        self.sched = sched
        self.case = case
        sched.patch(strax.mailbox)
        S = len(case["drives"])
        self.S = S
        mb = strax.Mailbox(name="mb", timeout=BIG_TIMEOUT, lazy=case["lazy"],
                           max_messages=case["cap"] if case["cap"] is not None else float("inf"))
        # ThreadedMailboxProcessor overrides max_messages after construction, also in lazy mode
        mb.max_messages = case["cap"] if case["cap"] is not None else float("inf")
        mb.log.disabled = True
        self.mb = mb
        self.futs = [sched.futures.Future() for _ in range(case["nfut"])]
        explicit = any(it[0] >= 0 for it in case["items"])

        def payload(it):
            return self.futs[it[2]] if it[1] == 1 else it[3]

        if explicit:
            def source():
                for it in case["items"]:
                    yield it[0], payload(it)
            t = sched.threading.Thread(target=_send_from_numbered, args=(mb, source()), name="source:mb")
            mb._threads.append(t)
        else:
            def source():
                for it in case["items"]:
                    yield payload(it)
            mb.add_sender(source())
        self.logs = [[] for _ in range(S)]

        def subscriber(src, i):
            log = self.logs[i]
            for x in src:
                log.append(x)

        for i in range(S):
            mb.add_reader(partial(subscriber, i=i), can_drive=case["drives"][i])
        others = []
        kt = sched.threading.Thread(target=lambda: mb.kill(upstream=bool(case["killer"])), name="killer")
        if case["killer"] >= 0:
            others.append(kt)
        res = {it[2]: it[3] for it in case["items"] if it[1] == 1}
        self.workers = []
        for k in range(case["nfut"]):
            w = sched.threading.Thread(target=partial(self.futs[k].set_result, res[k]), name="worker%d" % k)
            self.workers.append(w)
        mb.start()
        for t in others:
            t.start()
        for w in self.workers:
            w.start()
        self.ntid = S + 2 + case["nfut"]
        assert len(sched.threads) == self.ntid
        if warmup:
            # run every mailbox thread up to its first lock acquisition (thread-local code only)
            todo = iter(list(range(S + 1)) + ([S + 1] if case["killer"] >= 0 else []))
            sched.run_driver(lambda s: next(todo, None))
            del sched.schedule[:]

    def observe(self):
        s, mb = self.sched, self.mb
        o = [CODE[s.status(0)]]
        for i in range(self.S):
            log = self.logs[i]
            o.append(CODE[s.status(1 + i)])
            o.append(len(log))
            o.extend(log)
        o.append(CODE[s.status(self.S + 1)])
        for k in range(len(self.workers)):
            o.append(CODE[s.status(self.S + 2 + k)])
        o += [len(mb._mailbox), int(mb.closed), int(mb.killed), int(mb.force_killed)]
        return " ".join(map(str, o))

    def detail(self):
        mb = self.mb
        o = [mb._n_sent] + sorted(n for n, _ in mb._mailbox) + [-1]
        o += [x + 1 for x in mb._subscribers_have_read] + [-1]
        o += [-1 if x is None else x for x in mb._subscriber_waiting_for]
        return " ".join(map(str, o))

    def final_info(self):
        s = self.sched
        return {"status": [s.status(t) for t in range(self.ntid)],
                "exc": [type(t.exc).__name__ if t.exc is not None else None for t in s.threads],
                "logs": [list(l) for l in self.logs],
                "closed": self.mb.closed, "killed": self.mb.killed}


class DividerSystem:
    """strax.divide_outputs feeding several mailboxes (implementation only; not modelled in Coq).
    case = {"type": "divider", "lazy": bool, "cap": int|None, "subs": [[can_drive,...] per mailbox],
            "n": number of dicts produced, "flow_freely": [mailbox indices]}
    Thread ids: 0 the divider, then the subscribers mailbox by mailbox."""

    def __init__(self, sched, case):
        self.sched, self.case = sched, case
        sched.patch(strax.mailbox)
        names = ["d%d" % j for j in range(len(case["subs"]))]
        self.names = names
        self.mbs = {}
        for d in names:
            mb = strax.Mailbox(name=d, timeout=BIG_TIMEOUT, lazy=case["lazy"])
            mb.max_messages = case["cap"] if case["cap"] is not None else float("inf")
            mb.log.disabled = True
            self.mbs[d] = mb

        def source():
            for i in range(case["n"]):
                yield {d: 100 * j + i for j, d in enumerate(names)}

        self.div = sched.threading.Thread(
            target=strax.divide_outputs, args=(source(),),
            kwargs=dict(mailboxes=self.mbs, lazy=case["lazy"],
                        flow_freely=tuple(names[j] for j in case["flow_freely"]), outputs=tuple(names)),
            name="divide_outputs")
        self.logs = []
        self.owner = []

        def subscriber(src, log):
            for x in src:
                log.append(x)

        for j, d in enumerate(names):
            for can_drive in case["subs"][j]:
                log = []
                self.logs.append(log)
                self.owner.append(j)
                self.mbs[d].add_reader(partial(subscriber, log=log), can_drive=bool(can_drive))
        self.div.start()
        for d in names:
            self.mbs[d].start()
        self.ntid = len(sched.threads)
        todo = iter(range(self.ntid))
        sched.run_driver(lambda s: next(todo, None))       # every thread up to its first yield point
        del sched.schedule[:]

    def observe(self):
        s = self.sched
        o = [CODE[s.status(0)]]
        t = 1
        q = 0
        for j, d in enumerate(self.names):
            for _ in self.case["subs"][j]:
                log = self.logs[q]
                o.append(CODE[s.status(t)])
                o.append(len(log))
                o.extend(log)
                t += 1
                q += 1
            o.append(len(self.mbs[d]._mailbox))
            o.append(int(self.mbs[d].closed))
        return " ".join(map(str, o))

    def final_info(self):
        s = self.sched
        return {"status": [s.status(t) for t in range(self.ntid)],
                "exc": [type(t.exc).__name__ if t.exc is not None else None for t in s.threads],
                "logs": [list(l) for l in self.logs],
                "closed": [self.mbs[d].closed for d in self.names],
                "killed": [self.mbs[d].killed for d in self.names]}


def parse_dobs(case, o):
    """-> (divider code, [(status codes...)], logs (flat, subscriber order), box sizes, closed flags)"""
    v = [int(x) for x in o.split()]
    pos = 1
    codes, logs, nbox, closed = [v[0]], [], [], []
    for subs in case["subs"]:
        for _ in subs:
            codes.append(v[pos])
            n = v[pos + 1]
            logs.append(v[pos + 2:pos + 2 + n])
            pos += 2 + n
        nbox.append(v[pos])
        closed.append(v[pos + 1])
        pos += 2
    return codes, logs, nbox, closed


def divider_line(case, schedule, cmd="drun"):
    toks = [cmd, -1 if case["cap"] is None else case["cap"], int(case["lazy"]), len(case["subs"])]
    for j, subs in enumerate(case["subs"]):
        toks += [int(j in case["flow_freely"]), len(subs)] + [int(bool(d)) for d in subs]
    toks += [case["n"], len(schedule)] + list(schedule)
    return " ".join(str(t) for t in toks)


def divider_failure(case, res):
    """C05 on divide_outputs: every target mailbox's subscribers receive that mailbox's component of
    every dict, in order; eager mailboxes stay within capacity; no deadlock; everything ends."""
    n = case["n"]
    owner = None
    for i, o in enumerate(res.obs):
        codes, logs, nbox, _closed = parse_dobs(case, o)
        if owner is None:
            owner = []
            for j, subs in enumerate(case["subs"]):
                owner += [j] * len(subs)
        for q, log in enumerate(logs):
            exp = [100 * owner[q] + k for k in range(n)]
            if log != exp[:len(log)]:
                return "after step %d subscriber %d of mailbox %d has %s, not a prefix of %s" % (
                    i, q, owner[q], log, exp)
        if case["cap"] is not None and any(b > case["cap"] for b in nbox):
            return "after step %d mailbox sizes %s exceed the capacity %d" % (i, nbox, case["cap"])
    if res.outcome == "deadlock":
        return "deadlock: threads %s are alive and none can run" % (
            [t for t, st in enumerate(res.system_info["status"]) if st == "blocked"],)
    if res.outcome == "limit":
        return "the run did not terminate within the step limit"
    if res.outcome == "complete":
        info = res.system_info
        for t, (st, exc) in enumerate(zip(info["status"], info["exc"])):
            if st == "dead":
                return "thread %d died with %s" % (t, exc)
        for q, log in enumerate(info["logs"]):
            j = [jj for jj, subs in enumerate(case["subs"]) for _ in subs][q]
            if log != [100 * j + k for k in range(n)]:
                return "subscriber %d of mailbox %d finished with %s" % (q, j, log)
        if not all(info["closed"]) or any(info["killed"]):
            return "mailboxes not closed / killed at the end: %s" % info
    return None


def system_factory(case):
    if case.get("type") == "divider":
        return lambda sched: DividerSystem(sched, case)
    return lambda sched: MailboxSystem(sched, case)


# ------------------------------------------------------------------------------------------
# the property's own predicates, evaluated on an implementation run
# ------------------------------------------------------------------------------------------

def valid_case(case):
    """Inside the property's hypotheses: some subscriber, capacity >= 1, lazy => some driver,
    explicit numbers a permutation that fits the capacity."""
    nums = [it[0] for it in case["items"]]
    if any(n >= 0 for n in nums):
        if sorted(nums) != list(range(len(nums))) or not room_ok(case):
            return False
        # (explicit numbers through the lazy fetch gate are inside the property since /repo ede7cda: the gate
        #  now asks whether a subscriber waits for a BUFFERED number; before, it never opened when a
        #  subscriber waited for a number below the lowest buffered one)
    if case["lazy"] and not any(case["drives"]):
        return False
    return len(case["drives"]) >= 1 and (case["cap"] is None or case["cap"] >= 1)


def parse_obs(case, o):
    """-> (sender_code, [(code, log)], killer_code, worker_codes, nbox, closed, killed, fkilled)"""
    v = [int(x) for x in o.split()]
    pos = 1
    readers = []
    for _ in case["drives"]:
        code, n = v[pos], v[pos + 1]
        readers.append((code, v[pos + 2:pos + 2 + n]))
        pos += 2 + n
    killer = v[pos]
    workers = v[pos + 1:pos + 1 + case["nfut"]]
    nbox, closed, killed, fkilled = v[-4:]
    return v[0], readers, killer, workers, nbox, closed, killed, fkilled


def property_failure(case, res):
    """None if the implementation run `res` satisfies the C05 predicates, else a description.
    Only meaningful for valid_case(case)."""
    exp = expected_values(case)
    for i, o in enumerate(res.obs):
        _, readers, _, _, nbox, _, _, _ = parse_obs(case, o)
        for j, (_, log) in enumerate(readers):
            if log != exp[:len(log)]:
                return "after step %d subscriber %d has received %s, not a prefix of the sent messages %s" % (
                    i, j, log, exp)
        if case["cap"] is not None and nbox > case["cap"]:
            return "after step %d the mailbox holds %d undelivered messages, capacity %d" % (i, nbox, case["cap"])
    if res.outcome == "deadlock":
        return "deadlock: threads %s are alive and none can run" % (
            [t for t, st in enumerate(res.system_info["status"]) if st == "blocked"],)
    if res.outcome == "limit":
        return "the run did not terminate within the step limit"
    if res.outcome == "complete":
        info = res.system_info
        S = len(case["drives"])
        killed = info["killed"]
        for t, (st, exc) in enumerate(zip(info["status"], info["exc"])):
            if st == "dead" and not (killed and exc == "MailboxKilled"):
                return "thread %d died with %s" % (t, exc)
        if case["killer"] < 0:
            if killed:
                return "the mailbox was killed although nothing failed"
            for j in range(S):
                if info["logs"][j] != exp:
                    return "subscriber %d finished with %s instead of %s" % (j, info["logs"][j], exp)
            if not info["closed"]:
                return "the mailbox was not closed at the end"
        else:
            for j in range(S):
                if info["status"][1 + j] == "done" and info["logs"][j] != exp:
                    return "subscriber %d finished normally with %s instead of %s" % (j, info["logs"][j], exp)
    return None


# ------------------------------------------------------------------------------------------
# tasks (each runs in a worker process pinned to one core)
# ------------------------------------------------------------------------------------------

def model_obs(line_out):
    """split a `run` output line -> (list of per-step observations, disabled position or None, tail)"""
    body, tail = line_out.split(" # ")
    parts = [p.strip() for p in body.split(" | ")] if body.strip() else []
    dis = None
    if parts and parts[-1].startswith("DISABLED"):
        dis = int(parts[-1].split()[1])
        parts = parts[:-1]
    return parts, dis, tail.strip()


def compare_with_model(case, results):
    """results: list of RunResult.  Returns list of (index, description) of disagreements."""
    mk = divider_line if case.get("type") == "divider" else case_line
    lines = [mk(case, r.schedule) for r in results]
    outs = lib.run_model("C05", lines)
    bad = []
    for idx, (r, mo) in enumerate(zip(results, outs)):
        parts, dis, tail = model_obs(mo)
        what = None
        if dis is not None:
            what = "model: thread scheduled at step %d is not enabled; implementation ran it" % dis
        else:
            for i, (a, b) in enumerate(zip(r.obs, parts)):
                if a != b:
                    what = "step %d (thread %d): implementation observes [%s], model [%s]" % (
                        i, r.schedule[i], a, b)
                    break
        if what is None and r.outcome in ("complete", "deadlock"):
            toks = tail.split()
            m_term, m_en = toks[0], toks[1:]
            if m_en:
                what = "implementation has no runnable thread at the end, the model enables %s" % m_en
            elif (m_term == "T") != (r.outcome == "complete"):
                what = "end of run: implementation %s, model %s" % (
                    r.outcome, "all threads finished" if m_term == "T" else "deadlock")
        if what is None and r.outcome == "not-enabled":
            what = "implementation: " + r.error
        if what is not None:
            bad.append((idx, what))
    return bad


def _has_blocked(case, o):
    s, readers, k, w, *_ = parse_obs(case, o)
    return s == 1 or any(c == 1 for c, _ in readers)


def _nontrivial(case, r):
    # some mailbox thread had to wait at some point and at least one message was delivered
    if not (r.system_info and any(r.system_info["logs"])):
        return False
    return any(_has_blocked(case, o) for o in r.obs)


def exec_task(task):
    """Run one exploration task; returns a JSON-able summary."""
    import random
    import time
    t0 = time.time()
    case = task["case"]
    kind = task["kind"]
    fac = system_factory(case)
    results = []
    extra = []
    truncated = False
    graph = None
    if kind == "cover":
        if case.get("type") == "divider":
            line = divider_line(case, [], "dcover").rsplit(" ", 1)[0] + " %d" % task.get("max_states", 100000)
        else:
            line = case_line(case, [], "cover").rsplit(" ", 1)[0] + " %d" % task.get("max_states", 100000)
        out = lib.run_model("C05", [line])[0]
        head, *scheds = out.split(" ; ")
        nst, ned, trunc, nterm, ndead = [int(x) for x in head.split()]
        graph = {"states": nst, "edges": ned, "truncated": trunc, "terminal": nterm, "deadlock_states": ndead}
        graph["covering_schedules"] = len(scheds)
        if task.get("sample") and len(scheds) > task["sample"]:
            rng = random.Random(task.get("seed", 0))
            scheds = [scheds[i] for i in sorted(rng.sample(range(len(scheds)), task["sample"]))]
            graph["sampled"] = len(scheds)
        for sc in scheds:
            r = run_schedule(fac, [int(x) for x in sc.split()])
            results.append(r)
            if r.outcome in ("not-enabled", "open") and len(extra) < 200:
                # the implementation left the model's path: finish the run anyway (lowest enabled thread
                # first) so that the property's own predicates see a maximal schedule
                extra.append(run_schedule(fac, r.schedule, extend=lambda en, last: en[0], max_steps=2000))
    elif kind == "dfs":
        for r in explore_dfs(fac, task["bound"], max_runs=task["max_runs"]):
            results.append(r)
        truncated = len(results) >= task["max_runs"]
    elif kind == "random":
        rng = random.Random(task["seed"])
        for r in random_walks(fac, rng, task["n"], sticky=task.get("sticky", 0.0)):
            results.append(r)
    divider = case.get("type") == "divider"
    valid = True if divider else valid_case(case)
    out = {"kind": kind, "case": case, "runs": len(results), "steps": sum(len(r.schedule) for r in results),
           "truncated": truncated, "graph": graph, "outcomes": {}, "disagreements": [], "failures": [],
           "nontrivial": 0, "valid": valid, "hashes": [], "sample": None}
    for r in results:
        out["outcomes"][r.outcome] = out["outcomes"].get(r.outcome, 0) + 1
    bad = compare_with_model(case, results) if task.get("compare", True) else []
    for idx, what in bad[:3]:
        r = results[idx]
        d = {"schedule": r.schedule, "what": what, "impl_obs": r.obs, "outcome": r.outcome}
        out["disagreements"].append(d)
    out["n_disagreements"] = len(bad)
    if graph is not None and valid and graph["deadlock_states"]:
        out["disagreements"].append({"schedule": [], "what": "the model's state graph has %d deadlock states"
                                     % graph["deadlock_states"], "impl_obs": [], "outcome": "model"})
        out["n_disagreements"] += 1
    nfail = 0
    for r in results + extra:
        if valid:
            f = divider_failure(case, r) if divider else property_failure(case, r)
            if f:
                nfail += 1
                if len(out["failures"]) < 2:
                    out["failures"].append({"schedule": r.schedule, "what": f, "outcome": r.outcome,
                                            "final": r.system_info})
        if divider:
            if r.outcome == "complete" and any(1 in parse_dobs(case, o)[0] for o in r.obs):
                out["nontrivial"] += 1
        elif r.outcome in ("complete", "deadlock") and _nontrivial(case, r):
            out["nontrivial"] += 1
    out["n_failures"] = nfail
    if kind == "random":
        import zlib
        out["hashes"] = sorted({zlib.crc32(repr(r.schedule).encode()) for r in results})
    if results:
        r = results[len(results) // 2]
        out["sample"] = {"case": case, "schedule": r.schedule, "outcome": r.outcome,
                         "last_observation": r.obs[-1] if r.obs else None}
    npool, busy = pool_threads()
    out["threads_left"] = threading.active_count() - 1 - npool + busy
    out["wall"] = round(time.time() - t0, 2)
    return out


_worker_slot = None


def _worker_init(counter):
    global _worker_slot
    with counter.get_lock():
        _worker_slot = counter.value
        counter.value += 1
    # On a quiet machine pinning a worker (and hence its controlled threads) to one core makes the baton
    # hand-offs 3-4x cheaper; on an oversubscribed machine it is harmful (the core is shared with
    # unrelated busy processes), so it is only done when the load is low.
    try:
        cpus = sorted(os.sched_getaffinity(0))
        if os.getloadavg()[0] < 0.5 * len(cpus):
            os.sched_setaffinity(0, {cpus[_worker_slot % len(cpus)]})
    except (AttributeError, OSError):
        pass


def run_tasks(tasks, nproc=None, fail_fast=False):
    """Run the tasks in worker processes.  Results come back in task order (None = not run).  With
    fail_fast the remaining tasks are abandoned as soon as the first task *in submission order* reports a
    concrete failing input (deterministic: the submission order is fixed)."""
    import multiprocessing as mp
    nproc = nproc or min(16, os.cpu_count() or 4)
    if len(tasks) <= 1 or nproc <= 1:
        out = []
        for t in tasks:
            out.append(exec_task(t))
            if fail_fast and out[-1]["failures"]:
                break
        return out + [None] * (len(tasks) - len(out))
    ctxm = mp.get_context("fork")
    counter = ctxm.Value("i", 0)
    # biggest first for load balance; results are re-ordered to task order afterwards
    order = sorted(range(len(tasks)), key=lambda i: -tasks[i].get("weight", 1))
    out = [None] * len(tasks)
    with ctxm.Pool(nproc, initializer=_worker_init, initargs=(counter,)) as pool:
        for i, r in zip(order, pool.imap(exec_task, [tasks[i] for i in order], chunksize=1)):
            out[i] = r
            if fail_fast and r["failures"]:
                pool.terminate()
                break
    return out


# ------------------------------------------------------------------------------------------
# what is explored
# ------------------------------------------------------------------------------------------

def masks(S):
    """all driver masks with at least one driver"""
    import itertools
    return [list(m) for m in itertools.product([True, False], repeat=S) if any(m)]


def escalated(ctx):
    """anchors of mailbox.py drifted, or a mailbox constant could not be located"""
    cd = ctx.build.constants_drift if ctx.build else []
    return bool(ctx.drift) or any("mailbox" in str(d).lower() for d in cd)


def build_tasks(ctx):
    import itertools
    big = ctx.thorough
    # anchors of mailbox.py drifted: larger budget in the quick tier too (3-subscriber graphs with 4
    # messages in full, larger samples of the biggest graphs, twice the random walks), short of thorough
    esc = big or escalated(ctx)
    nsample = 600 if esc else 250
    tasks = []
    rng = ctx.rng

    def add(kind, case, **kw):
        t = {"kind": kind, "case": case}
        t.update(kw)
        S, N = len(case["drives"]), len(case["items"])
        t.setdefault("weight", (3 ** S) * (N + 1) * (1 + case["nfut"]) ** 2 * (3 if case["killer"] >= 0 else 1)
                     * (case["cap"] or 3))
        if t.get("sample"):
            t["seed"] = rng.getrandbits(48)
            t["weight"] = kw.get("weight", 500)
        if kind == "cover" and case.get("type") != "divider" and S <= 2 and N <= 2 and case["killer"] < 0:
            t["weight"] = 10 ** 7      # tiny graphs first: a basic defect is reported within seconds
        tasks.append(t)

    # (1) every transition of the model's reachable state graph, replayed on the implementation.
    #     quick: the largest graphs (3 subscribers with 4-5 messages) are sampled (`sample` schedules of
    #     the covering set, seeded); thorough: everything in full.
    Smax, Nmax = 3, 5
    for S in range(1, Smax + 1):
        for N in range(0, Nmax + 1):
            for cap in (1, 2, 3, 4):
                full = big or S < 3 or N <= 3 or (N == 4 and (cap <= 2 or esc)) or (N == 5 and cap == 1)
                add("cover", mk_case(cap, False, [True] * S, N), sample=None if full else nsample)
            for mi, m in enumerate(masks(S)):
                full = big or S < 3 or N <= 2 or (N == 3 and (esc or mi in (0, 3, 6)))
                add("cover", mk_case(None, True, m, N), sample=None if full else nsample)
                if N <= 3 or big:
                    # lazy with a finite max_messages (ThreadedMailboxProcessor sets it after construction)
                    add("cover", mk_case(1 if N % 2 else 2, True, m, N), sample=None if full else nsample)
    # futures: every subset of messages is a future (N <= 3), S <= 2
    for S in (1, 2):
        for N in (1, 2, 3):
            for r in range(1, N + 1):
                for futs in itertools.combinations(range(N), r):
                    if S == 2 and N == 3 and r == 3 and not big:
                        continue
                    add("cover", mk_case(1 + (N + r) % 2, False, [True] * S, N, futures=futs))
                    if r <= 2:
                        add("cover", mk_case(None, True, [True] + [False] * (S - 1), N, futures=futs))
    # kill(upstream) at any moment
    for S in (1, 2):
        for N in (0, 1, 2, 3):
            for up in (0, 1):
                add("cover", mk_case(1 + N % 2, False, [True] * S, N, killer=up))
                add("cover", mk_case(None, True, [True] + [False] * (S - 1), N, killer=up))
    add("cover", mk_case(2, False, [True, True], 2, futures=(0,), killer=1))
    add("cover", mk_case(1, False, [True, True, True], 2, killer=0))
    # explicit numbering: every permutation of <= 4 messages with the smallest capacity that fits
    for N in (2, 3, 4):
        for perm in itertools.permutations(range(N)):
            if list(perm) == list(range(N)):
                continue
            for S in (1, 2):
                if S == 2 and N == 4 and not big:
                    continue
                for cap in (1, 2, 3, 4):
                    c = mk_case(cap, False, [True] * S, N, numbers=list(perm))
                    if room_ok(c):
                        add("cover", c)
                        break
                if N <= 3 or S == 1:
                    # through the lazy fetch gate: every driver mask for 2 subscribers, unbounded and the
                    # smallest finite max_messages that fits
                    for m in masks(S):
                        add("cover", mk_case(None, True, m, N, numbers=list(perm)))
                    for cap in (1, 2, 3, 4):
                        c = mk_case(cap, True, [True] + [False] * (S - 1), N, numbers=list(perm))
                        if room_ok(c):
                            add("cover", c)
                            break
    # outside the hypotheses: the verdicts (deadlock / InvalidMessageNumber + kill) must agree too
    add("cover", mk_case(None, True, [False], 2))
    add("cover", mk_case(None, True, [False, False], 1))
    add("cover", mk_case(1, False, [True], 2, numbers=[1, 0]))
    add("cover", mk_case(1, False, [True, True], 3, numbers=[2, 0, 1]))
    add("cover", mk_case(2, False, [True, True], 3, numbers=[2, 1, 0]))
    add("cover", mk_case(3, False, [True], 2, numbers=[0, 0]))
    add("cover", mk_case(3, False, [True, True], 3, numbers=[0, 0, 1]))

    # (2) model-independent depth-first enumeration on the implementation with a preemption bound
    b = 3 if big else 2
    cap_runs = 60000 if big else 2500

    def bnd(S, N):
        return b if (S == 1 or N <= 1) else (b - 1 if N == 2 else max(1, b - 2))
    for S in (1, 2):
        for N in (0, 1, 2, 3):
            for cap in (1, 2):
                add("dfs", mk_case(cap, False, [True] * S, N), bound=bnd(S, N), max_runs=cap_runs, weight=10 ** 6)
            for m in masks(S):
                add("dfs", mk_case(None, True, m, N), bound=bnd(S, N), max_runs=cap_runs, weight=10 ** 6)
    add("dfs", mk_case(1, False, [True], 2, futures=(0, 1)), bound=b, max_runs=cap_runs, weight=10 ** 6)
    add("dfs", mk_case(1, False, [True, True], 2, futures=(1,)), bound=b - 1, max_runs=cap_runs, weight=10 ** 6)
    add("dfs", mk_case(None, True, [True, False], 2, futures=(0,)), bound=b - 1, max_runs=cap_runs, weight=10 ** 6)
    add("dfs", mk_case(1, False, [True], 2, killer=1), bound=b, max_runs=cap_runs, weight=10 ** 6)
    add("dfs", mk_case(2, False, [True], 3, numbers=[1, 0, 2]), bound=b, max_runs=cap_runs, weight=10 ** 6)

    # (2b) divide_outputs feeding 2..3 mailboxes (implementation only: property predicates, no model)
    def div(lazy, cap, subs, n, ff=()):
        return {"type": "divider", "lazy": bool(lazy), "cap": cap, "subs": subs, "n": n, "flow_freely": list(ff),
                "drives": [d for ss in subs for d in ss], "items": [None] * n, "nfut": 0, "killer": -1}
    dcases = [div(0, 1, [[1], [1]], 2), div(0, 2, [[1], [1, 1]], 2), div(0, 1, [[1], [1], [1]], 1),
              div(1, None, [[1], [1]], 2), div(1, None, [[1], [0]], 2, ff=(1,)), div(1, None, [[1, 0], [1]], 2),
              div(1, 2, [[1], [1]], 2), div(1, None, [[1], [0], [1]], 1, ff=(1,))]
    for c in dcases:
        add("cover", c, sample=None if big else 400, weight=5000)
        add("dfs", c, bound=(2 if big else 1), max_runs=(30000 if big else 1500), weight=10 ** 6)
    for _ in range(40 if big else 12):
        nmb = rng.randint(2, 3)
        lazy = rng.random() < 0.5
        subs, ff = [], []
        for j in range(nmb):
            k = rng.randint(1, 2)
            if lazy and j > 0 and rng.random() < 0.4:
                ff.append(j)
                subs.append([0] * k)
            else:
                subs.append([1] + [rng.randint(0, 1) if lazy else 1 for _ in range(k - 1)])
        c = div(lazy, None if (lazy and rng.random() < 0.7) else rng.randint(1, 3), subs, rng.randint(0, 4), ff)
        add("random", c, n=(300 if big else 80), seed=rng.getrandbits(48), sticky=rng.choice([0.0, 0.5, 0.8]),
            weight=10 ** 5)

    # (3) seeded random walks over the whole range of the property
    n_cases = 400 if big else (180 if esc else 90)
    n_walks = 400 if big else 120
    for _ in range(n_cases):
        S = rng.randint(1, 3)
        N = rng.randint(0, 5)
        lazy = rng.random() < 0.45
        cap = rng.randint(1, 4)
        if lazy:
            cap = None if rng.random() < 0.6 else cap
            m = rng.choice(masks(S))
        else:
            m = [True] * S
        futs = tuple(j for j in range(N) if rng.random() < 0.35) if rng.random() < 0.5 else ()
        numbers = None
        if N >= 2 and rng.random() < 0.3:
            numbers = list(range(N))
            for _k in range(N):     # bounded-displacement shuffle
                a = rng.randrange(N - 1)
                numbers[a], numbers[a + 1] = numbers[a + 1], numbers[a]
            if numbers == list(range(N)):
                numbers = None
        killer = rng.choice([0, 1]) if rng.random() < 0.15 else -1
        c = mk_case(cap, lazy, m, N, futures=futs, numbers=numbers, killer=killer)
        if not valid_case(c):
            c = mk_case(cap, lazy, m, N, futures=futs, killer=killer)
        add("random", c, n=n_walks, seed=rng.getrandbits(48), sticky=rng.choice([0.0, 0.5, 0.8]), weight=10 ** 5)
    return tasks


def _tag(case):
    if case.get("type") == "divider":
        return "divider subs%s n%d cap%s %s ff%s" % (case["subs"], case["n"], case["cap"],
                                                     "lazy" if case["lazy"] else "eager", case["flow_freely"])
    return "S%d N%d cap%s %s%s%s%s" % (
        len(case["drives"]), len(case["items"]), case["cap"], "lazy" if case["lazy"] else "eager",
        " fut%d" % case["nfut"] if case["nfut"] else "", " kill%d" % case["killer"] if case["killer"] >= 0 else "",
        " numbered" if any(it[0] >= 0 for it in case["items"]) else "")


def search_failing_input(ctx, case, budget=4000):
    """A disagreement was seen for `case`: look for a schedule on which the implementation violates
    the property itself (this case and its neighbourhood: one subscriber/message/capacity unit away)."""
    cases = [case]
    divider = case.get("type") == "divider"
    S, N = len(case["drives"]), len(case["items"])
    if case["cap"] is not None:
        for dc in (-1, 1):
            if case["cap"] + dc >= 1:
                c2 = json.loads(json.dumps(case))
                c2["cap"] = case["cap"] + dc
                cases.append(c2)
    if not divider and not any(it[0] >= 0 for it in case["items"]) and not case["nfut"]:
        for dN in (-1, 1):
            if 0 <= N + dN <= 5:
                cases.append(mk_case(case["cap"], case["lazy"], case["drives"], N + dN, killer=case["killer"]))
        if S < 3:
            cases.append(mk_case(case["cap"], case["lazy"], case["drives"] + [True], N, killer=case["killer"]))
    tasks = []
    for c in cases:
        if not divider and not valid_case(c):
            continue
        tasks.append({"kind": "dfs", "case": c, "bound": 2, "max_runs": budget, "compare": False})
        tasks.append({"kind": "random", "case": c, "n": budget // 4, "seed": ctx.rng.getrandbits(48),
                      "sticky": 0.5, "compare": False})
    for r in run_tasks(tasks, fail_fast=True):
        if r is not None and r["failures"]:
            return r["case"], r["failures"][0]
    return None, None


def run(ctx):
    import time
    ctx.coverage["rule"] = (
        "one evaluation = one maximal schedule executed on the real strax.Mailbox under the controlled "
        "scheduler and compared step by step with the extracted Coq LTS. 'cover' tasks execute a set of "
        "schedules traversing every transition of the model's reachable state graph of a configuration "
        "(1..3 subscribers, 0..5 messages, capacities 1..4 or unbounded, lazy/eager, every driver mask, "
        "futures, kill, explicit numbering); 'dfs' tasks enumerate all schedules of the implementation up to a "
        "preemption bound; 'random' tasks are seeded random walks. non-trivial = some mailbox thread had to "
        "wait and at least one message was delivered; distinct by (configuration, schedule).")
    ctx.assumptions.append(
        "lock-free code between two lock regions of mailbox.py touches only thread-local state (and future "
        "completion, which commutes), so it is merged into the preceding lock region: one scheduler step = one "
        "lock region + the lock-free code up to the next lock acquisition / wait / Future.result")
    ctx.assumptions.append("CPython RLock/Condition behave as documented; timeouts are represented by deadlock")
    tasks = build_tasks(ctx)
    t0 = time.time()
    results = run_tasks(tasks, fail_fast=True)
    ctx.notes.append("exploration wall time %.1fs for %d tasks" % (time.time() - t0, len(tasks)))
    skipped = sum(1 for r in results if r is None)
    if skipped:
        ctx.notes.append("%d tasks not run: stopped at the first concrete failing input" % skipped)
    tasks = [t for t, r in zip(tasks, results) if r is not None]
    results = [r for r in results if r is not None]
    slow = sorted(results, key=lambda r: -r["wall"])[:5]
    ctx.notes.append("slowest tasks: " + "; ".join("%s %s %d runs %.1fs" % (r["kind"], _tag(r["case"]), r["runs"], r["wall"])
                                                   for r in slow))
    dist = {}
    seen_random = set()
    disagreeing = []
    n_eval = n_nontriv = 0
    stray = 0
    for t, r in zip(tasks, results):
        kind = r["kind"]
        d = dist.setdefault(kind, {"tasks": 0, "runs": 0, "steps": 0, "truncated_tasks": 0})
        d["tasks"] += 1
        d["runs"] += r["runs"]
        d["steps"] += r["steps"]
        d["truncated_tasks"] += int(bool(r["truncated"])) + int(bool(r["graph"] and r["graph"]["truncated"]))
        if r["graph"]:
            d["model_states"] = d.get("model_states", 0) + r["graph"]["states"]
            d["model_transitions"] = d.get("model_transitions", 0) + r["graph"]["edges"]
            if r["graph"].get("sampled"):
                d["sampled_graphs"] = d.get("sampled_graphs", 0) + 1
            else:
                d["fully_covered_graphs"] = d.get("fully_covered_graphs", 0) + 1
                d["fully_covered_transitions"] = d.get("fully_covered_transitions", 0) + r["graph"]["edges"]
        oc = dist.setdefault("outcomes", {})
        for k, v in r["outcomes"].items():
            oc[k] = oc.get(k, 0) + v
        c = r["case"]
        rb = dist.setdefault("runs_by", {})
        if c.get("type") == "divider":
            rb["divider"] = rb.get("divider", 0) + r["runs"]
            keys = ()
        else:
            keys = None
        for key in keys if keys is not None else ("S%d" % len(c["drives"]), "N%d" % len(c["items"]), "cap%s" % c["cap"],
                    "lazy" if c["lazy"] else "eager", "futures" if c["nfut"] else "plain",
                    "killer" if c["killer"] >= 0 else "nokill",
                    "numbered" if any(it[0] >= 0 for it in c["items"]) else "inorder",
                    "valid" if r["valid"] else "outside-hypotheses"):
            rb[key] = rb.get(key, 0) + r["runs"]
        n_eval += r["runs"]
        if kind == "random":
            hs = {(_tag(c), h) for h in r["hashes"]}
            new = hs - seen_random
            seen_random |= hs
            n_nontriv += min(r["nontrivial"], len(new))
        else:
            n_nontriv += r["nontrivial"]
        stray += r["threads_left"]
        if r["sample"] and (kind != "cover" or len(ctx.coverage["samples"]) < 4):
            ctx.sample(r["sample"])
        for f in r["failures"]:
            ctx.violation("divider" if c.get("type") == "divider" else "mailbox",
                          "strax.Mailbox violates C05 (%s): %s" % (_tag(c), f["what"]),
                          {"input": {"case": c, "schedule": f["schedule"]}, "outcome": f["outcome"],
                           "final": f["final"]})
        if r["n_disagreements"]:
            disagreeing.append(r)
    flat = {}
    for k, v in dist.items():
        for k2, v2 in v.items():
            flat["%s.%s" % (k, k2)] = v2
    ctx.count("mailbox", n_eval, n_nontriv, flat)
    if stray:
        ctx.notes.append("stray threads after exploration: %d" % stray)
        ctx.violation("harness", "the controlled scheduler left %d threads behind" % stray,
                      {"input": "corr:C05/stray-threads"}, no_failing_input=True)
    concrete = any(not v["nfi"] for v in ctx.violations)
    for r in disagreeing[:6]:
        c = r["case"]
        unit = "divider" if c.get("type") == "divider" else "mailbox"
        dis = r["disagreements"][0]
        if not concrete:
            fc, f = search_failing_input(ctx, c)
            if f:
                concrete = True
                ctx.violation(unit, "strax.Mailbox violates C05 (%s): %s" % (_tag(fc), f["what"]),
                              {"input": {"case": fc, "schedule": f["schedule"]}, "outcome": f["outcome"],
                               "final": f["final"], "found_after_disagreement": dis["what"]})
                continue
        ctx.violation(unit, "model and implementation disagree (%s, %d of %d schedules): %s"
                      % (_tag(c), r["n_disagreements"], r["runs"], dis["what"]),
                      {"input": "corr:C05/%s/%s" % (unit, r["kind"]), "case": c, "schedule": dis["schedule"],
                       "what": dis["what"], "impl_obs": dis["impl_obs"]}, no_failing_input=True)
    kernel_crosscheck(ctx, tasks, results)


# ------------------------------------------------------------------------------------------
# extraction cross-check inside Coq
# ------------------------------------------------------------------------------------------

def coq_case(case):
    def item(it):
        num = "None" if it[0] < 0 else "(Some %d%%nat)" % it[0]
        m = "(Plain %d)" % it[3] if it[1] == 0 else "(Fut %d%%nat %d)" % (it[2], it[3])
        return "(%s, %s)" % (num, m)
    cfg = "(mkConfig %s %s)" % ("None" if case["cap"] is None else "(Some %d%%nat)" % case["cap"],
                                 "true" if case["lazy"] else "false")
    init = "(init %s [%s] [%s] %s %d%%nat)" % (
        cfg, "; ".join("true" if d else "false" for d in case["drives"]),
        "; ".join(item(it) for it in case["items"]),
        "None" if case["killer"] < 0 else "(Some %s)" % ("true" if case["killer"] else "false"), case["nfut"])
    return cfg, init


def coq_tid(case, t):
    S = len(case["drives"])
    if t == 0:
        return "TS"
    if t <= S:
        return "(TR %d%%nat)" % (t - 1)
    if t == S + 1:
        return "TK"
    return "(TW %d%%nat)" % (t - S - 2)


def kernel_crosscheck(ctx, tasks, results):
    picks = [r["sample"] for r in results if r["sample"] and len(r["sample"]["schedule"]) <= 60
             and r["case"].get("type") != "divider"]
    if not picks:
        return
    picks = [picks[i] for i in sorted(ctx.rng.sample(range(len(picks)), min(40, len(picks))))]
    lines = [case_line(p["case"], p["schedule"]) for p in picks]
    outs = lib.run_model("C05", lines)
    eqs = []
    for p, mo in zip(picks, outs):
        parts, dis, _ = model_obs(mo)
        cfg, init = coq_case(p["case"])
        sched = "[" + "; ".join(coq_tid(p["case"], t) for t in p["schedule"]) + "]"
        rhs = "[" + "; ".join("[" + "; ".join("(%s)" % x for x in o.split()) + "]" for o in parts) + "]"
        eqs.append("run_obs %s %s %s = (%s : list (list Z))" % (cfg, init, sched, rhs))
    n, fails = lib.coq_crosscheck("C05", "From SV Require Import Base.Prelude Model.Mailbox Model.C05Run.", eqs)
    ctx.coverage.setdefault("kernel_crosscheck", {})["mailbox"] = {"equations": n, "failed_files": len(fails)}
    if fails:
        ctx.violation("mailbox", "extracted model and Coq vm_compute disagree: " + fails[0][-400:],
                      {"input": "corr:C05/mailbox/extraction-crosscheck", "log": fails[0]}, no_failing_input=True)


def replay(ctx, obj):
    r = obj["replay"]
    inp = r.get("input") if isinstance(r.get("input"), dict) else r
    case, schedule = inp["case"], inp["schedule"]
    res = run_schedule(system_factory(case), schedule)
    if case.get("type") == "divider":
        f = divider_failure(case, res)
        bad = compare_with_model(case, [res])
        print("case:", _tag(case), "schedule:", schedule)
        print("outcome:", res.outcome, "final:", res.system_info)
        print("model comparison:", bad[0][1] if bad else "agrees")
        print("property:", f or "holds on this schedule")
        shutdown_pool()
        return 1 if f else 0
    f = property_failure(case, res) if valid_case(case) else None
    bad = compare_with_model(case, [res])
    print("case:", _tag(case), "schedule:", schedule)
    print("outcome:", res.outcome, "final:", res.system_info)
    print("model comparison:", bad[0][1] if bad else "agrees")
    print("property:", f or "holds on this schedule")
    shutdown_pool()
    return 1 if f else 0
