"""C02 generators: plugin universes (graphs of 2..6 data types with shared / child / untracked
options) and operation histories.  Every random choice comes from the rng passed in."""
import copy

DT0 = 10          # data type ids 10..15
OPT0 = 20         # option ids 20..29
KEY0 = 40         # dict keys inside option values 40..44
CLS0 = 100        # class names 100..
VER0 = 1000
COMP0 = 2000
STR0 = 3000


def rand_value(rng, depth=0):
    u = rng.random()
    if u < 0.45 or depth >= 2:
        return ["i", rng.randint(0, 3)]
    if u < 0.55:
        return ["s", STR0 + rng.randint(0, 2)]
    if u < 0.70:
        return ["t", [["i", rng.randint(0, 3)] for _ in range(rng.randint(0, 3))]]
    if u < 0.80:
        # lists never contain a 2-element list that starts with a string (see canon_injective)
        return ["l", [rng.choice([["i", rng.randint(0, 3)], ["l", [["i", rng.randint(0, 2)] for _ in range(rng.randint(1, 3))]]])
                      for _ in range(rng.randint(1, 3))]]
    ks = rng.sample(range(KEY0, KEY0 + 5), rng.randint(1, 3))
    return ["d", [[k, rand_value(rng, depth + 1)] for k in ks]]


def shuffle_value(rng, v):
    """same value with every dict's insertion order shuffled"""
    t, x = v
    if t in ("l", "t"):
        return [t, [shuffle_value(rng, y) for y in x]]
    if t == "d":
        items = [[k, shuffle_value(rng, y)] for k, y in x]
        rng.shuffle(items)
        return [t, items]
    return [t, x]


class Universe:
    def __init__(self, rng, shadow=False):
        self.rng = rng
        self.ndt = rng.randint(2, 6)
        self.dts = list(range(DT0, DT0 + self.ndt))
        self.cid = 0
        self.ncls = 0
        self.defaults = {}
        self.untracked = set()
        self.opt_pool = list(range(OPT0, OPT0 + 8))
        if shadow:
            # an option whose name is also the name of a data type
            self.opt_pool[0] = rng.choice(self.dts)
        for o in self.opt_pool:
            self.defaults[o] = rand_value(rng)
            if rng.random() < 0.25:
                self.untracked.add(o)
        self.classes = []   # initial classes in registration order
        self.build()

    def new_cid(self):
        self.cid += 1
        return self.cid

    def new_name(self):
        self.ncls += 1
        return CLS0 + self.ncls

    def mk_opt(self, oid, parent=None, conflict=False):
        d = self.defaults[oid]
        if conflict:
            d = ["i", 7]
        tr = oid not in self.untracked
        if self.rng.random() < 0.08:
            tr = not tr
        if parent is not None:
            # a child option replaces the parent's value in plugin.config while only the child option can
            # appear in the lineage: an untracked child option of a tracked parent option would be a plugin
            # whose result depends on an untracked option (outside the property)
            tr = True
        return {"name": oid, "default": copy.deepcopy(d), "track": tr, "parent": parent}

    def build(self):
        rng = self.rng
        i = 0
        while i < self.ndt:
            n_out = 2 if (self.ndt - i >= 2 and rng.random() < 0.25) else 1
            prov = self.dts[i:i + n_out]
            earlier = self.dts[:i]
            if not earlier or rng.random() < 0.15:
                dep = []
            else:
                dep = rng.sample(earlier, min(len(earlier), rng.choice([1, 1, 2])))
            nopt = rng.choice([0, 1, 1, 2, 3])
            oids = rng.sample(self.opt_pool, nopt)
            c = {"cid": self.new_cid(), "name": self.new_name(), "ver": VER0 + rng.randint(0, 2),
                 "comp": COMP0 + rng.randint(0, 3), "timeout": rng.choice([80, 80, 60]),
                 "provides": prov, "depends": dep, "opts": [self.mk_opt(o, conflict=rng.random() < 0.03) for o in oids],
                 "child": False, "parent": None}
            self.classes.append(c)
            i += n_out
        # a child plugin of an existing single-output class with options: provides an extra data type
        cands = [c for c in self.classes if c["opts"] and len(c["provides"]) == 1]
        if cands and self.ndt < 6 and rng.random() < 0.45:
            p = rng.choice(cands)
            dt = DT0 + self.ndt
            self.ndt += 1
            self.dts.append(dt)
            free = [o for o in self.opt_pool if o not in [x["name"] for x in p["opts"]]]
            own = []
            if free:
                co = free.pop(rng.randrange(len(free)))
                own.append(self.mk_opt(co, parent=rng.choice(p["opts"])["name"]))
            if free and rng.random() < 0.5:
                own.append(self.mk_opt(free.pop(rng.randrange(len(free)))))
            c = {"cid": self.new_cid(), "name": self.new_name(), "ver": VER0 + rng.randint(0, 2),
                 "comp": p["comp"], "timeout": p["timeout"], "provides": [dt], "depends": list(p["depends"]),
                 "opts": own, "child": True, "parent": p}
            self.classes.append(c)

    # ---- variants of a class for re-registration ----
    def variant(self, c, kind):
        rng = self.rng
        n = copy.deepcopy(c)
        n["cid"] = self.new_cid()
        if kind == "same_object":
            return c
        if kind == "bump_version":
            n["ver"] = c["ver"] + 1 + rng.randint(0, 1)
        elif kind == "new_class":
            n["name"] = self.new_name()
            n["ver"] = c["ver"] + 1
        elif kind == "compressor":
            n["comp"] = COMP0 + (c["comp"] - COMP0 + 1) % 4
        elif kind == "timeout":
            n["timeout"] = c["timeout"] + 1
        elif kind == "drop_output":        # multi-output class replaced by a class for its last output only
            n["provides"] = [c["provides"][-1]]
            n["ver"] = c["ver"] + 1
        # --- the D4 family: nothing the pinned _context_hash covers changes ---
        elif kind == "d4_default":
            if not n["opts"]:
                return None
            o = rng.choice(n["opts"])
            o["default"] = ["i", 9] if o["default"] != ["i", 9] else ["i", 8]
        elif kind == "d4_depends":
            earlier = [d for d in self.dts if d < min(c["provides"]) and d not in c["depends"]]
            if c["depends"] and (not earlier or rng.random() < 0.5) and len(c["depends"]) > 1:
                n["depends"] = c["depends"][:-1]
            elif earlier and c["depends"]:
                n["depends"] = c["depends"] + [rng.choice(earlier)]
            else:
                return None
        elif kind == "d4_name":
            n["name"] = self.new_name()
        elif kind == "d4_track":
            if not n["opts"]:
                return None
            o = rng.choice(n["opts"])
            if o["parent"] is not None:
                return None
            o["track"] = not o["track"]
        elif kind == "d4_swap":
            if len(c["provides"]) < 2:
                return None
            n["provides"] = list(reversed(c["provides"]))
        elif kind == "d4_option":          # takes one more / one fewer option
            if n["opts"] and rng.random() < 0.5:
                n["opts"].pop()
            else:
                free = [o for o in self.opt_pool if o not in [x["name"] for x in full_names(n)]]
                if not free:
                    return None
                n["opts"].append(self.mk_opt(rng.choice(free)))
        else:
            raise ValueError(kind)
        return n


def full_names(c):
    base = full_names(c["parent"]) if c.get("parent") else []
    return base + list(c["opts"])


SAFE_KINDS = ["same_object", "bump_version", "bump_version", "new_class", "compressor", "timeout", "drop_output"]
D4_KINDS = ["d4_default", "d4_default", "d4_depends", "d4_name", "d4_track", "d4_swap", "d4_option"]


def gen_history(rng, d4=False, shadow=False, fuzzy=False, nops=None):
    """returns (ops, info).  The history starts with the registrations and an initial set_config on
    context 0 and ends with one get per data type."""
    u = Universe(rng, shadow=shadow)
    ops = []
    current = {}          # dt -> class spec last registered for it in context 0 (approximation used to pick variants)
    for c in u.classes:
        ops.append(["register", 0, c])
        for p in c["provides"]:
            current[p] = c
    taken = sorted({o["name"] for c in u.classes for o in full_names(c)})
    cfg0 = []
    for o in taken:
        if rng.random() < 0.4:
            cfg0.append([o, rand_value(rng)])
    if cfg0:
        ops.append(["set_config", 0, 0, cfg0])
    nctx = 1
    n = nops if nops is not None else rng.randint(3, 12)
    history_values = {}
    kinds = {"d4": 0, "safe_reg": 0, "set_config": 0, "query": 0, "ctx": 0, "fuzzy": 0}
    for _ in range(n):
        u_ = rng.random()
        c = rng.randrange(nctx)
        if u_ < 0.40:
            kind = rng.choice(["key_for", "key_for", "is_stored", "get", "get", "get", "make"])
            dt = rng.choice(u.dts) if rng.random() < 0.97 else DT0 + 9
            run = 0 if rng.random() < 0.85 else 1
            ops.append([kind, c, run, dt])
            kinds["query"] += 1
        elif u_ < 0.62:
            pool = taken if (taken and rng.random() < 0.9) else [OPT0 + 9]
            k = rng.choice(pool)
            mode = rng.choice([0, 0, 0, 0, 1, 2])
            prev = history_values.get(k)
            v = prev if (prev is not None and rng.random() < 0.3) else rand_value(rng)
            history_values.setdefault(k, v)
            kv = [[k, v]]
            if rng.random() < 0.3 and len(taken) > 1:
                k2 = rng.choice([x for x in taken if x != k])
                kv.append([k2, rand_value(rng)])
                rng.shuffle(kv)
            if mode == 2 and rng.random() < 0.5:
                kv = []
            ops.append(["set_config", c, mode, kv])
            kinds["set_config"] += 1
        elif u_ < 0.84:
            dt = rng.choice(list(current))
            base = current[dt]
            kind = rng.choice(D4_KINDS) if (d4 and rng.random() < 0.6) else rng.choice(SAFE_KINDS)
            nc = u.variant(base, kind)
            if nc is None:
                nc = u.variant(base, "bump_version")
                kind = "bump_version"
            ops.append(["register", c, nc])
            kinds["d4" if kind.startswith("d4") else "safe_reg"] += 1
            if c == 0:
                for p in nc["provides"]:
                    current[p] = nc
        elif u_ < 0.92:
            if rng.random() < 0.6:
                ops.append(["new_context", c])
                nctx += 1
            else:
                ops.append(["empty_context"])
                for cl in u.classes:
                    if rng.random() < 0.9:
                        ops.append(["register", nctx, cl])
                nctx += 1
            kinds["ctx"] += 1
        else:
            if fuzzy:
                ff = [rng.choice(u.dts)] if rng.random() < 0.6 else []
                fo = [rng.choice(taken)] if (taken and rng.random() < 0.6) else []
                ops.append(["set_fuzzy", c, ff, fo])
                kinds["fuzzy"] += 1
            else:
                ops.append(["key_for", c, 0, rng.choice(u.dts)])
                kinds["query"] += 1
    for c in range(nctx):
        for dt in u.dts:
            if c == 0 or rng.random() < 0.5:
                ops.append(["get", c, 0, dt])
    return ops, {"ndt": u.ndt, "nctx": nctx, "kinds": kinds, "n_classes": len(u.classes),
                 "child": any(c["child"] for c in u.classes), "multi": any(len(c["provides"]) > 1 for c in u.classes)}
