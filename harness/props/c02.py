"""C02 — stored data is reused only under an identical lineage (no stale reads).

Correspondence of the extracted Coq model (Model/Canon.v, Model/Lineage.v) with the real
strax.Context / deterministic_hash / StorageFrontend._matches, and evaluation of the property's own
predicates on the implementation (key via cache == key from scratch, get_array == brand-new context
on an empty directory, fuzzy acceptance, nothing written under fuzzy matching, determinism of keys
across processes / hash seeds / insertion orders)."""
import json
import multiprocessing
import os
import random
import shutil
import subprocess
import sys
import time

from harness import lib
from harness.props import c02_gen as G
from harness.props import c02_lib as L

MODEL_PROPS = ["C02"]
LEVEL = "proof"
TMP = os.path.join(lib.BUILD, "tmp", "c02")


# ------------------------------------------------------------------------------------------
# canonical witnesses (the same histories as the Coq `_refuted` theorems, Proof/LineageRefute.v)
# ------------------------------------------------------------------------------------------
def _cls(cid, nm, ver, prov, dep, opts, comp=2000):
    return {"cid": cid, "name": nm, "ver": ver, "comp": comp, "timeout": 80, "provides": prov, "depends": dep,
            "opts": opts, "child": False, "parent": None}


def _opt(n, d, track=True):
    return {"name": n, "default": d, "track": track, "parent": None}


# D4: same-named, same-version class re-registered with another option default
W_D4 = [["register", 0, _cls(1, 101, 1000, [10], [], [_opt(20, ["i", 1])])],
        ["key_for", 0, 0, 10],
        ["register", 0, _cls(2, 101, 1000, [10], [], [_opt(20, ["i", 2])])],
        ["key_for", 0, 0, 10],
        ["get", 0, 0, 10]]
# an option that has the name of a data type is overwritten in the dict that _context_hash hashes
W_SHADOW = [["register", 0, _cls(1, 101, 1000, [10], [], [_opt(10, ["i", 1])])],
            ["key_for", 0, 0, 10],
            ["set_config", 0, 0, [[10, ["i", 2]]]],
            ["key_for", 0, 0, 10],
            ["get", 0, 0, 10]]
# depends_on is not part of the lineage: a same-named, same-version class whose dependencies change only within
# data types that are already in its lineage keeps the storage key (Coq: Proof/LineageFresh.v W_DEPS + the get)
W_DEPS = [["register", 0, _cls(1, 101, 1000, [10], [], [])],
          ["register", 0, _cls(2, 102, 1000, [11], [10], [])],
          ["register", 0, _cls(3, 103, 1000, [12], [11], [])],
          ["get", 0, 0, 12],
          ["register", 0, _cls(4, 103, 1000, [12], [11, 10], [])],
          ["key_for", 0, 0, 12],
          ["get", 0, 0, 12]]
WITNESSES = {"D4-class-content": W_D4, "config-key-shadowed-by-data-type": W_SHADOW,
             "depends_on-not-in-lineage": W_DEPS}
WITNESS_UNIT = {"D4-class-content": "cache_transparent", "config-key-shadowed-by-data-type": "cache_transparent",
                "depends_on-not-in-lineage": "get_equals_fresh"}
WITNESS_COQ = {"D4-class-content": "Props/C02.v: C02_cache_transparent_refuted",
               "config-key-shadowed-by-data-type": "Props/C02.v: C02_cache_transparent_shadow_refuted",
               "depends_on-not-in-lineage": "Props/C02.v: C02_get_equals_fresh_refuted"}


# ------------------------------------------------------------------------------------------
# one history on model + implementation
# ------------------------------------------------------------------------------------------
ERRMAP = {1: ("KeyError",), 2: ("AssertionError",), 3: ("RecursionError",)}


def run_history(ops, fx, workdir, fresh="all"):
    """Runs `ops` on the extracted model (context hash variant fx) and on the real strax.
    Returns {"dis": [model/impl disagreements], "prop": [property failures on the impl], "stats": {...}}"""
    mline = lib.run_model("C02", [L.enc_hist(fx, ops)])[0]
    if mline.startswith("EXC") or mline in ("UNKNOWN", "BAD"):
        return {"dis": [{"step": -1, "what": "model driver: " + mline[:200]}], "prop": [], "stats": {}}
    mobs = L.parse_model_line(mline)
    rr = L.RealRun(workdir)
    dis, prop = [], []
    fuzzy = {0: ([], [])}
    hashes = {}     # ctx -> list of (real hash, model canonical string)
    stats = {"ops": len(ops), "stale": 0, "amb": 0, "err_ops": 0, "fresh_checks": 0, "loaded_or_computed": 0}
    try:
        for idx, (op, m) in enumerate(zip(ops, mobs)):
            before = set(os.listdir(rr.store)) if os.path.isdir(rr.store) else set()
            r = rr.step(op)
            c = r["c"]
            k = op[0]
            if k == "new_context":
                fuzzy[c] = fuzzy[op[1]]
            elif k == "empty_context":
                fuzzy[c] = ([], [])
            elif k == "set_fuzzy":
                fuzzy[c] = (op[2], op[3])
            fz = bool(fuzzy[c][0] or fuzzy[c][1])
            # ---- correspondence ----
            what = None
            if m["k"] == "N":
                if r["k"] != "N":
                    what = "impl %s, model no-op" % r
            elif m["k"] == "B":
                if r["k"] != "B" or r["v"] != m["v"]:
                    what = "impl %s, model bool %s" % (r, m["v"])
            elif m["k"] == "E":
                stats["err_ops"] += 1
                if r["k"] != "E":
                    what = "impl succeeded (%s), model error %d" % (r["k"], m["code"])
                elif m["code"] in ERRMAP and r["err"] not in ERRMAP[m["code"]]:
                    what = "impl raised %s (%s), model error %d" % (r["err"], r.get("msg"), m["code"])
            elif m["k"] == "K":
                txt = L.render(m["toks"])
                if r["k"] != "K":
                    what = "impl %s, model key %s" % (r, L.b32hash(txt))
                elif r["hash"] != L.b32hash(txt) or r["text"] != txt:
                    what = "key_for: impl %s %s, model %s %s" % (r["hash"], r["text"], L.b32hash(txt), txt)
            elif m["k"] == "D":
                if m["amb"]:
                    stats["amb"] += 1
                if r["k"] == "E":
                    what = "impl raised %s (%s), model returned data" % (r["err"], r.get("msg"))
                elif k == "get" and not m["amb"]:
                    exp = L.tree_rows(L.parse_tokens(m["toks"]))
                    if r.get("rows") != exp:
                        what = "get_array rows: impl %s, model %s (%s)" % (r.get("rows"), exp, L.render(m["toks"]))
            if what:
                dis.append({"step": idx, "op": op[:2] + (op[2:] if k != "register" else [op[2]["cid"]]), "what": what})
            # ---- context hash ----
            rh = rr.chash(c)
            mh = " ".join(map(str, m["chash"]))
            hashes.setdefault(c, []).append((rh, mh))
            if not fx and m["chash"]:
                if rh != L.b32hash(L.render(m["chash"])):
                    dis.append({"step": idx, "what": "_context_hash: impl %s, pinned model %s (%s)"
                                % (rh, L.b32hash(L.render(m["chash"])), L.render(m["chash"]))})
            # ---- property predicates on the implementation ----
            if k == "key_for" and r["k"] == "K":
                fk = rr.fresh_key(c, op[2], op[3])
                stats["fresh_checks"] += 1
                if fk != r["hash"]:
                    stats["stale"] += 1
                    prop.append({"step": idx, "kind": "stale_key", "what": "key_for through the plugin cache gives %s, "
                                 "a brand-new context with the same settings gives %s" % (r["hash"], fk)})
            if k == "get" and not fz and (fresh == "all" or (fresh == "last" and idx >= len(ops) - 8)):
                fr = rr.fresh_rows(c, op[2], op[3])
                stats["fresh_checks"] += 1
                if r["k"] == "D" and fr.get("rows") != r["rows"]:
                    stats["stale"] += 1
                    try:
                        same_key = rr.ctxs[c].key_for(str(op[2]), L.name(op[3])).lineage_hash == fr.get("hash")
                    except Exception:  # noqa
                        same_key = False
                    prop.append({"step": idx, "kind": "stale_rows", "same_key": same_key,
                                 "what": "get_array returns %s, a brand-new context "
                                 "with the same settings on an empty directory computes %s%s"
                                 % (r["rows"], fr, " (the storage key is the same)" if same_key else "")})
                elif r["k"] == "E" and "rows" in fr:
                    prop.append({"step": idx, "kind": "stale_error", "what": "get_array raises %s (%s), a brand-new "
                                 "context computes rows" % (r["err"], r.get("msg"))})
            if k == "is_stored" and fz and r["k"] == "B":
                exp = fuzzy_expected(rr, c, op[2], op[3], fuzzy[c][0], fuzzy[c][1])
                stats["fuzzy_acceptance_checks"] = stats.get("fuzzy_acceptance_checks", 0) + 1
                if exp is not None and exp[0] != r["v"]:
                    prop.append({"step": idx, "kind": "fuzzy_reject_tuple" if (exp[0] and exp[1]) else "fuzzy_acceptance",
                                 "what": "is_stored=%s under fuzzy matching, but a stored lineage %s the requested one outside "
                                 "the fuzzy parts" % (r["v"], "agrees with" if exp[0] else "does not agree with")})
            if k in ("get", "make") and fz:
                after = set(os.listdir(rr.store)) if os.path.isdir(rr.store) else set()
                if after != before:
                    prop.append({"step": idx, "kind": "fuzzy_write", "what": "data written while fuzzy matching is on: %s"
                                 % sorted(after - before)})
            if len(dis) > 3:
                break
        if fx:
            # soundness of the implementation's cache key w.r.t. the repaired model: equal real hashes
            # must have equal model hashes
            for c, seq in hashes.items():
                seen = {}
                for rh, mh in seq:
                    if rh in seen and seen[rh] != mh and not rh.startswith("err"):
                        dis.append({"step": -1, "what": "_context_hash equal on the implementation (%s) for two "
                                    "settings that the repaired model distinguishes" % rh})
                        break
                    seen.setdefault(rh, mh)
        stats["n_dirs"] = len(os.listdir(rr.store)) if os.path.isdir(rr.store) else 0
    finally:
        rr.close()
    return {"dis": dis, "prop": prop, "stats": stats}


def fuzzy_expected(rr, c, run, dt, ffor, fopts):
    """(should the data be accepted, does a tuple value take part) from the metadata on disk, by the
    specification: some stored lineage of (run, dt) agrees with the requested one outside the fuzzy parts"""
    st = rr.ctxs[c]
    try:
        key = st.key_for(str(run), L.name(dt))
        ff = [st._plugin_class_registry[L.name(k)].provides[-1] for k in ffor]
    except Exception:  # noqa
        return None
    fo = [L.name(o) for o in fopts]

    def filt(lin):
        return {d: (v[0], v[1], {o: L.real_text(x) for o, x in v[2].items() if o not in fo}) for d, v in lin.items() if d not in ff}
    want = filt(key.lineage)
    tup = any(isinstance(x, tuple) for d, v in key.lineage.items() if d not in ff for o, x in v[2].items() if o not in fo)
    if not os.path.isdir(rr.store):
        return (False, tup)
    for d in sorted(os.listdir(rr.store)):
        parts = d.split("-")
        if len(parts) != 3 or parts[0] != str(run) or parts[1] != L.name(dt):
            continue
        if parts[2] == key.lineage_hash:
            return (True, False)
        mp = os.path.join(rr.store, d, "%s-%s-metadata.json" % (parts[1], parts[2]))
        if not os.path.exists(mp):
            continue
        md = json.load(open(mp))
        if "writing_ended" not in md or "exception" in md:
            continue
        if filt(md["lineage"]) == want:
            return (True, tup)
    return (False, tup)


def detect_mode(workdir):
    """'pinned' if the D4 witness is served stale by the implementation (then _context_hash is compared
    literally with the pinned model's hash on every step); else 'fixed' (the implementation's hash must
    distinguish at least what the repaired model distinguishes)."""
    res = run_history(W_D4, 0, workdir)
    stale = any(p["kind"].startswith("stale") for p in res["prop"])
    return ("pinned" if stale else "fixed"), res


# ------------------------------------------------------------------------------------------
# worker for the seeded histories
# ------------------------------------------------------------------------------------------
def _work(args):
    seed, fx, idx, fresh = args
    rng = random.Random(seed)
    u = rng.random()
    d4 = u < 0.25
    shadow = 0.25 <= u < 0.33
    fz = rng.random() < 0.3
    ops, info = G.gen_history(rng, d4=d4, shadow=shadow, fuzzy=fz)
    wd = os.path.join(TMP, "h%d_%d" % (os.getpid(), idx))
    t0 = time.time()
    try:
        res = run_history(ops, fx, wd, fresh=fresh)
    except Exception as e:  # noqa
        import traceback
        res = {"dis": [{"step": -1, "what": "harness exception " + traceback.format_exc()[-800:]}], "prop": [], "stats": {}}
    res.update(ops=ops, info=info, flags={"d4": d4, "shadow": shadow, "fuzzy": fz}, seed=seed, wall=time.time() - t0)
    return res


def has_d4_op(ops, upto):
    """a registration before step `upto` that replaces a class by one with equal (version, compressor,
    timeout) for the same data type in the same context (the class of inputs of finding D4)"""
    seen = {}
    ctx_of = {0: 0}
    n = 1
    for i, op in enumerate(ops[:upto + 1]):
        if op[0] == "new_context":
            for (c, dt), v in list(seen.items()):
                if c == op[1]:
                    seen[(n, dt)] = v
            n += 1
        elif op[0] == "empty_context":
            n += 1
        elif op[0] == "register":
            c, k = op[1], op[2]
            for p in k["provides"]:
                old = seen.get((c, p))
                if old is not None and old["cid"] != k["cid"] and (old["ver"], old["comp"], old["timeout"]) == (k["ver"], k["comp"], k["timeout"]):
                    return True
                seen[(c, p)] = k
    return False


def has_deps_conflict(ops, upto):
    """two classes registered before step `upto` (in any context: the directory is shared) with the same class
    name and version and a common output but different depends_on — the class of inputs of the finding
    'depends_on is not part of the lineage'"""
    regs = [op[2] for op in ops[:upto + 1] if op[0] == "register"]
    for i, a in enumerate(regs):
        for b in regs[i + 1:]:
            if a["name"] == b["name"] and a["ver"] == b["ver"] and set(a["provides"]) & set(b["provides"]) \
                    and list(a["depends"]) != list(b["depends"]):
                return True
    return False


def has_shadow(ops):
    dts = {p for op in ops if op[0] == "register" for p in op[2]["provides"]}
    for op in ops:
        if op[0] == "set_config" and any(k in dts for k, _ in op[3]):
            return True
        if op[0] == "register" and any(o["name"] in dts for o in L.full_opts(op[2])):
            return True
    return False


def shrink(ops, fx, pred):
    """greedy removal of operations while `pred(run_history(ops))` keeps failing"""
    cur = list(ops)
    changed = True
    rounds = 0
    while changed and rounds < 2:
        changed = False
        rounds += 1
        i = len(cur) - 1
        while i >= 0:
            cand = cur[:i] + cur[i + 1:]
            # keep context indices meaningful: never drop context creations
            if cur[i][0] in ("new_context", "empty_context"):
                i -= 1
                continue
            try:
                res = run_history(cand, fx, os.path.join(TMP, "shrink%d" % os.getpid()), fresh="all")
                if pred(res):
                    cur = cand
                    changed = True
            except Exception:  # noqa
                pass
            i -= 1
    return cur


def unit_histories(ctx, mode):
    fx = 1 if mode == "fixed" else 0
    # C02 uses no generated source constants: only drift of its own anchors escalates the budget
    n = 3500 if ctx.thorough else (200 if not ctx.drift else 400)
    if os.environ.get("C02_NHIST"):        # debugging aid (bug-detection trials on a loaded machine)
        n = int(os.environ["C02_NHIST"])
    fresh = "all"
    seeds = [ctx.rng.getrandbits(48) for _ in range(n)]
    args = [(s, fx, i, fresh) for i, s in enumerate(seeds)]
    nproc = min(14, os.cpu_count() or 4)
    # spawn, not fork: the parent has already run strax (threads, locks) — a forked child can inherit a held lock
    with multiprocessing.get_context("spawn").Pool(nproc) as pool:
        results = pool.map_async(_work, args, chunksize=4).get(timeout=1500 if not ctx.thorough else 6000)
    dist = {"ops": 0, "d4_histories": 0, "shadow_histories": 0, "fuzzy_histories": 0, "child_plugin": 0,
            "multi_output": 0, "contexts>1": 0, "err_ops": 0, "ambiguous_fuzzy_loads": 0, "fresh_context_checks": 0,
            "stale_explained_by_known_finding": 0, "ndt_%d" % 2: 0}
    nontriv = set()
    explained = {"D4-class-content": 0, "config-key-shadowed-by-data-type": 0, "depends_on-not-in-lineage": 0}
    reported = 0
    seen_reports = set()
    for res in results:
        info, st, fl = res["info"], res["stats"], res["flags"]
        dist["ops"] += len(res["ops"])
        dist["d4_histories"] += fl["d4"]
        dist["shadow_histories"] += fl["shadow"]
        dist["fuzzy_histories"] += fl["fuzzy"]
        dist["child_plugin"] += info["child"]
        dist["multi_output"] += info["multi"]
        dist["contexts>1"] += info["nctx"] > 1
        dist["err_ops"] += st.get("err_ops", 0)
        dist["ambiguous_fuzzy_loads"] += st.get("amb", 0)
        dist["fresh_context_checks"] += st.get("fresh_checks", 0)
        dist["ndt_%d" % info["ndt"]] = dist.get("ndt_%d" % info["ndt"], 0) + 1
        if st.get("n_dirs", 0) >= 2 and info["kinds"]["set_config"] + info["kinds"]["safe_reg"] + info["kinds"]["d4"] >= 1:
            nontriv.add(lib.canon(res["ops"]))
        if res["dis"] and reported < 4:
            reported += 1
            d = res["dis"][0]
            ops2 = shrink(res["ops"], fx, lambda r: bool(r["dis"]))
            r2 = run_history(ops2, fx, os.path.join(TMP, "rep"))
            pf = r2["prop"]
            if pf:
                ctx.violation("histories", "stale read on the implementation: " + pf[0]["what"],
                              {"input": {"history": ops2}, "failure": pf[0], "model_variant": mode, "seed": res["seed"]})
            else:
                ctx.violation("histories", "model (%s context hash) and implementation disagree: %s"
                              % (mode, (r2["dis"] or [d])[0]["what"]),
                              {"input": "corr:C02/histories", "case": {"history": ops2}, "disagreement": (r2["dis"] or [d])[0],
                               "seed": res["seed"]}, no_failing_input=True)
        for pf in res["prop"]:
            cause = None
            if pf["kind"] == "fuzzy_reject_tuple" and getattr(ctx, "fuzzy_tuple_known", False):
                dist["fuzzy_rejects_explained_by_tuple_finding"] = dist.get("fuzzy_rejects_explained_by_tuple_finding", 0) + 1
                continue
            if pf["kind"] == "stale_rows" and pf.get("same_key") and has_deps_conflict(res["ops"], pf["step"]):
                cause = "depends_on-not-in-lineage"
            elif pf["kind"].startswith("stale"):
                if has_d4_op(res["ops"], pf["step"]):
                    cause = "D4-class-content"
                elif has_shadow(res["ops"]):
                    cause = "config-key-shadowed-by-data-type"
            if cause and ctx.witness_fails.get(cause):
                explained[cause] += 1
                dist["stale_explained_by_known_finding"] += 1
                continue
            if reported < 6:
                reported += 1
                kind = pf["kind"]
                ops2 = shrink(res["ops"], fx, lambda r: any(p["kind"] == kind for p in r["prop"]))
                r2 = run_history(ops2, fx, os.path.join(TMP, "rep"))
                pf2 = ([p for p in r2["prop"] if p["kind"] == kind] or [pf])[0]
                sig = lib.canon([kind, ops2])
                if sig in seen_reports:
                    reported -= 1
                    continue
                seen_reports.add(sig)
                ctx.violation("histories", "property fails on the implementation: " + pf2["what"],
                              {"input": {"history": ops2}, "failure": pf2, "seed": res["seed"]})
    ctx.count("histories", len(results), len(nontriv), dist)
    ctx.coverage.setdefault("explained_by_known_findings", {}).update(explained)
    mid = results[len(results) // 2]
    ctx.sample({"unit": "histories", "flags": mid["flags"], "info": mid["info"],
                "ops": [o[:2] + ([o[2]["cid"], o[2]["provides"], o[2]["depends"]] if o[0] == "register" else o[2:]) for o in mid["ops"]][:14]})
    ctx.coverage.setdefault("timing", {})["histories_wall_sum_s"] = round(sum(r["wall"] for r in results), 1)
    return results


# ------------------------------------------------------------------------------------------
# the canonical witnesses on the real code
# ------------------------------------------------------------------------------------------
def unit_witnesses(ctx, mode):
    ctx.witness_fails = {}
    fx = 1 if mode == "fixed" else 0
    n = 0
    for wname, ops in WITNESSES.items():
        res = run_history(ops, fx, os.path.join(TMP, "wit"))
        n += 1
        stale = [p for p in res["prop"] if p["kind"].startswith("stale")]
        ctx.witness_fails[wname] = bool(stale)
        if stale:
            ctx.violation(WITNESS_UNIT[wname], "%s: %s" % (wname, stale[0]["what"]),
                          {"input": {"witness": wname, "history": ops}, "failure": stale[0], "coq": WITNESS_COQ[wname]})
        if res["dis"]:
            ctx.violation(WITNESS_UNIT[wname], "model (%s) and implementation disagree on witness %s: %s"
                          % (mode, wname, res["dis"][0]["what"]),
                          {"input": "corr:C02/witness/" + wname, "case": ops, "dis": res["dis"][0]}, no_failing_input=True)
    ctx.count("witnesses", n, n, {"stale_on_impl": sum(ctx.witness_fails.values())})


def run(ctx):
    shutil.rmtree(TMP, ignore_errors=True)
    os.makedirs(TMP, exist_ok=True)
    try:
        mode, _ = detect_mode(os.path.join(TMP, "mode"))
        ctx.notes.append("context-hash model matching the code: %s (context_hash_%s)" % (mode, mode))
        ctx.coverage["context_hash_model"] = "context_hash_" + mode
        ctx.coverage["rule"] = (
            "histories: seeded operation sequences (registrations + 3..12 random operations + one get per data type) over "
            "plugin graphs of 2..6 data types with shared, child and untracked options, multi-output classes, several "
            "contexts on one directory; non-trivial = at least two stored directories and at least one configuration "
            "change or re-registration; distinct by canonical JSON of the operation list.")
        from harness.props import c02_units as U
        unit_witnesses(ctx, mode)
        U.unit_fuzzy_witness(ctx)
        unit_histories(ctx, mode)
        U.unit_canon(ctx)
        U.unit_fuzzy(ctx)
        U.unit_determinism(ctx)
        U.unit_sensitivity(ctx)
        U.unit_crosscheck(ctx)
    finally:
        shutil.rmtree(TMP, ignore_errors=True)


def replay(ctx, obj):
    r = obj["replay"]
    inp = r.get("case") or r.get("input")
    if isinstance(inp, dict) and "history" in inp:
        os.makedirs(TMP, exist_ok=True)
        mode, _ = detect_mode(os.path.join(TMP, "mode_r"))
        res = run_history(inp["history"], 1 if mode == "fixed" else 0, os.path.join(TMP, "replay"))
        print("context hash model:", mode)
        for p in res["prop"]:
            print("PROPERTY FAILS at step %d: %s" % (p["step"], p["what"]))
        for d in res["dis"]:
            print("model/impl disagreement:", d)
        shutil.rmtree(TMP, ignore_errors=True)
        return 1 if res["prop"] else 0
    from harness.props import c02_units as U
    return U.replay_unit(ctx, obj)
