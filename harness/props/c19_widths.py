"""C19 units: compute_widths (with the index_of_fraction loop over the peaks) and compute_center_time vs
Model/Widths.v, and their defining formulas (Spec/WidthsSpec.v: widths_spec / center_spec) evaluated independently.

compute_widths case: (K, A, length, dt, data); K = len(peak["width"]).
compute_center_time case: (time, length, dt, data).
"""
import itertools
from fractions import Fraction

import numpy as np
import strax
from strax.processing import peak_properties

from harness import lib
from harness.props.c19_common import Unit, big, crosscheck, zl
from harness.props import c19_iof

NS = 8
_DT = {}


def wdtype(K):
    if K not in _DT:
        _DT[K] = np.dtype([("time", np.int64), ("length", np.int32), ("dt", np.int32), ("area", np.float32),
                           ("data", np.float32, (NS,)), ("width", np.float32, (K,))])
    return _DT[K]


def make_peaks(K, rows):
    p = np.zeros(len(rows), dtype=wdtype(K))
    for k, (time, A, length, dt, data) in enumerate(rows):
        p["time"][k], p["area"][k], p["length"][k], p["dt"][k] = time, A, length, dt
        p["data"][k, :len(data)] = data
    return p


# ---------------------------------------------------------------------------------------------------------------
NAME_WD = "compute_widths"
RULE_WD = ("compute_widths: width arrays of K = 2, 3, 5, 9 entries (dyadic area fractions) and K = 11 (the peak dtype: "
           "fractions m/20), all waveforms of 1..4 (thorough 5) samples over {0..3} x area in {sum if a power of two, "
           "4, 16, 0, -4} x dt in {1, 2, 10}, plus seeded random waveforms of <= 8 samples up to 12; the area is always "
           "a power of two (or <= 0), so every cumulative fraction is an exact float and the comparisons against the "
           "desired fractions decide as in exact arithmetic (m/20 coincides with a cumulative fraction only where it is "
           "dyadic and exact); float32 results within 2^-21 (|a| + |b|) + 2^-30 of the exact a - b (two float32 stores, "
           "one float32 subtraction); two peaks per call (the second one shifted) to exercise the loop over the peaks; "
           "non-trivial = area > 0, >= 2 non-zero samples, some width strictly between 0 and the full duration; "
           "distinct by canonical JSON.")


def frs(K):
    return [Fraction(1, 2)] if K == 1 else [Fraction(m, 2 * (K - 1)) for m in range(2 * K - 1)]


def spec_wd(K, A, length, dt, data):
    """median_time = T(1/2), width[k] = T(1/2 + k/(2(K-1))) - T(1/2 - k/(2(K-1))), decile[k] = T(k/(K-1)) - T(1/2)
    with T = dt * area-fraction time (first crossing, linear inside the sample; fraction 1 -> the length)"""
    fr = frs(K)
    T = [Fraction(0)] * len(fr) if A <= 0 else [t * dt for t in c19_iof.spec(A, length, data, fr)]
    c = len(fr) // 2
    return T[c], [T[c + k] - T[c - k] for k in range(K)], [T[2 * k] - T[c] for k in range(K)]


def impl_wd(K, rows):
    """rows: (A, length, dt, data) -> per peak (median, widths, deciles) as Fractions"""
    p = make_peaks(K, [(0, A, length, dt, data) for A, length, dt, data in rows])
    try:
        m, w, d = strax.compute_widths(p)
    except (ZeroDivisionError, ValueError, OverflowError, IndexError) as e:
        return ["raised %s: %s" % (type(e).__name__, e)] * len(rows)
    if not (np.all(np.isfinite(m)) and np.all(np.isfinite(w)) and np.all(np.isfinite(d))):
        return ["non-finite result %s" % ([float(x) for x in m],)] * len(rows)
    return [(Fraction(float(m[k])), [Fraction(float(x)) for x in w[k]], [Fraction(float(x)) for x in d[k]])
            for k in range(len(rows))]


def flat(r):
    return [r[0]] + list(r[1]) + list(r[2])


def bound_wd(K, A, length, dt, data):
    """|a| + |b| of every entry (the two exact times whose difference it is)"""
    fr = frs(K)
    T = [Fraction(0)] * len(fr) if A <= 0 else [abs(t * dt) for t in c19_iof.spec(A, length, data, fr)]
    c = len(fr) // 2
    return [T[c]] + [T[c + k] + T[c - k] for k in range(K)] + [T[2 * k] + T[c] for k in range(K)]


def close_wd(out, exp, bnd):
    return len(out) == len(exp) and all(abs(v - e) <= b * Fraction(1, 2 ** 21) + Fraction(1, 2 ** 30)
                                        for v, e, b in zip(out, exp, bnd))


def predicate_wd(K, A, length, dt, data, out):
    if isinstance(out, str):
        return out + " (every peak has finite widths by definition; area <= 0 gives zeros)"
    exp, bnd = flat(spec_wd(K, A, length, dt, data)), bound_wd(K, A, length, dt, data)
    names = ["median_time"] + ["width[%d]" % k for k in range(K)] + ["area_decile_from_midpoint[%d]" % k for k in range(K)]
    for nm, v, e, b in zip(names, flat(out), exp, bnd):
        if abs(v - e) > b * Fraction(1, 2 ** 21) + Fraction(1, 2 ** 30):
            return "%s = %s, by definition %s" % (nm, float(v), float(e))
    return None


def parse_wd(mo, K):
    v = list(map(int, mo.split()))
    q = [Fraction(v[2 * i], v[2 * i + 1]) for i in range(len(v) // 2)]
    return q[0], q[1:1 + K], q[1 + K:1 + 2 * K]


def cases_wd(ctx):
    cases = []
    nmax = 5 if big(ctx) else 4
    for n in range(1, nmax + 1):
        for data in itertools.product(range(4), repeat=n):
            s = sum(data)
            areas = [4, 16] + ([s] if s in (1, 2, 8) else [])
            for ai, A in enumerate(areas + [0, -4]):
                if A <= 0 and (n != 2 or s != 4):
                    continue
                for ki, K in enumerate((2, 3, 5, 9, 11)):
                    if not big(ctx) and (ki + ai + s) % 2:
                        continue
                    cases.append((K, A, n, (1, 2, 10)[(ki + s) % 3], list(data)))
    r = ctx.rng
    for _ in range(20000 if ctx.thorough else 2500):
        n = r.randint(1, NS)
        data = [r.choice([0, 0, 1, 2, 3, 5, 12]) for _ in range(n)]
        s = sum(data)
        A = r.choice([1, 2, 4, 8, 16, 32, 64])
        if s and (s & (s - 1)) == 0 and r.random() < 0.8:
            A = s
        cases.append((r.choice([2, 3, 5, 9, 11, 11]), A, r.randint(max(1, n - 1), n), r.choice([1, 2, 4, 10]), data))
    return cases


def unit_wd(ctx):
    u = Unit(ctx, NAME_WD)
    cases = cases_wd(ctx)
    lines = ["widths %d %d 1 %d %d %d %s" % (K, A, length, dt, min(length, len(data)), " ".join(map(str, data[:length])))
             for K, A, length, dt, data in cases]
    mout = lib.run_model_parallel("C19", lines)
    for c, mo in zip(cases, mout):
        K, A, length, dt, data = c
        # two peaks per call: the case and a companion (reversed data, dt 3) - the loop over the peaks
        outs = impl_wd(K, [(A, length, dt, data), (A, length, 3, data[:length][::-1])])
        out = outs[0]
        mexp = parse_wd(mo, K)
        bnd = bound_wd(K, A, length, dt, data)
        u.n += 1
        u.tally("K=%d" % K)
        u.tally("area<=0" if A <= 0 else ("area==sum" if sum(data[:length]) == A else "area!=sum"))
        full = length * dt
        if A > 0 and sum(1 for x in data[:length] if x) >= 2 and any(0 < w < full for w in mexp[1]):
            u.nontriv.add(lib.canon(c))
        inp = {"K": K, "A": A, "length": length, "dt": dt, "data": data}
        reason = predicate_wd(K, A, length, dt, data, out)
        if reason is None:
            reason2 = predicate_wd(K, A, length, 3, data[:length][::-1], outs[1])
            if reason2:
                reason = "second peak of the array: " + reason2
                inp = {"K": K, "A": A, "length": length, "dt": 3, "data": data[:length][::-1]}
        if isinstance(out, str):
            u.report(inp, out, str([float(x) for x in flat(mexp)]), reason)
            if u.bad > 5:
                break
        elif not close_wd(flat(out), flat(mexp), bnd):
            u.report(inp, str([float(x) for x in flat(out)]), str([float(x) for x in flat(mexp)]), reason)
            if u.bad > 5:
                break
        elif reason:
            u.report(inp, str([float(x) for x in flat(out)]), str([float(x) for x in flat(mexp)]),
                     "implementation deviates from the defining formulas: " + reason)
            if u.bad > 5:
                break
    u.done()
    k = len(cases) // 2
    ctx.sample({"unit": u.name, "K": cases[k][0], "area": cases[k][1], "length": cases[k][2], "dt": cases[k][3],
                "data": cases[k][4], "model(median | widths | deciles as num den ...)": mout[k]})


def replay_wd(inp):
    out = impl_wd(inp["K"], [(inp["A"], inp["length"], inp["dt"], inp["data"])])[0]
    reason = predicate_wd(inp["K"], inp["A"], inp["length"], inp["dt"], inp["data"], out)
    print("impl:", out if isinstance(out, str) else [float(x) for x in flat(out)], "spec:", reason or "holds")
    return 1 if reason else 0


# ---------------------------------------------------------------------------------------------------------------
NAME_CT = "compute_center_time"
RULE_CT = ("compute_center_time: all waveforms of 1..4 (thorough 5) samples over {0..3} and over {-1,0,2} x dt in "
           "{1,2,10} x length = or < the filled buffer, plus seeded random waveforms of <= 8 samples in -2..12; the "
           "int64 result must equal the model's integer exactly; cases whose exact (mean index + 1/2) * dt is an "
           "integer while the sample sum is not a power of two are skipped (the float quotient could fall on either "
           "side of the truncation); predicate: non-negative samples with positive sum -> time + floor(dt * (mean "
           "index + 1/2)) inside the peak, zero sum -> the start time; non-trivial = >= 2 non-zero samples; "
           "distinct by canonical JSON.")


def impl_ct(rows):
    p = make_peaks(2, [(time, 0, length, dt, data) for time, length, dt, data in rows])
    return [int(x) for x in peak_properties.compute_center_time(p)]


def exact_ok(length, dt, data):
    d = data[:length]
    s, W = sum(d), sum(i * x for i, x in enumerate(d))
    if s == 0:
        return True
    v = Fraction(dt * (2 * W + s), 2 * s)
    return v.denominator != 1 or (abs(s) & (abs(s) - 1)) == 0


def predicate_ct(time, length, dt, data, out):
    d = data[:length]
    s, W = sum(d), sum(i * x for i, x in enumerate(d))
    if s == 0:
        return None if out == time else "zero-sum peak: center time %d, start time %d" % (out, time)
    if min(d) < 0:
        return None if time <= out <= time + length * dt else "center time %d outside the peak" % out
    exp = time + (dt * (2 * W + s)) // (2 * s)
    if out != exp:
        return "center time %d, by definition time + floor(dt * (mean index + 1/2)) = %d" % (out, exp)
    if not time <= out <= time + length * dt:
        return "center time %d outside the peak [%d, %d]" % (out, time, time + length * dt)
    return None


def cases_ct(ctx):
    cases = []
    nmax = 5 if big(ctx) else 4
    for vals in (range(4), (-1, 0, 2)):
        for n in range(1, nmax + 1):
            for data in itertools.product(vals, repeat=n):
                for dt in (1, 2, 10):
                    cases.append((100, n, dt, list(data)))
                if n >= 2:
                    cases.append((7, n - 1, 2, list(data)))
    r = ctx.rng
    for _ in range(20000 if ctx.thorough else 3000):
        n = r.randint(1, NS)
        data = [r.choice([0, 0, 1, 2, 3, 5, 12, -1, -2]) for _ in range(n)]
        cases.append((r.randint(0, 10 ** 12), r.randint(max(1, n - 1), n), r.choice([1, 2, 4, 10, 200]), data))
    return [c for c in cases if exact_ok(c[1], c[2], c[3])]


def unit_ct(ctx):
    u = Unit(ctx, NAME_CT)
    cases = cases_ct(ctx)
    lines = ["center %d %d %d %d %s" % (time, length, dt, len(data), " ".join(map(str, data)))
             for time, length, dt, data in cases]
    mout = lib.run_model_parallel("C19", lines)
    B = 64
    for b0 in range(0, len(cases), B):
        chunk = cases[b0:b0 + B]
        outs = impl_ct(chunk)          # many peaks per call: the loop over the peaks and the vectorised clip
        for c, mo, out in zip(chunk, mout[b0:b0 + B], outs):
            time, length, dt, data = c
            u.n += 1
            s = sum(data[:length])
            u.tally("zero_sum" if s == 0 else ("negative_samples" if min(data[:length]) < 0 else "proper"))
            if sum(1 for x in data[:length] if x) >= 2:
                u.nontriv.add(lib.canon(c))
            inp = {"time": time, "length": length, "dt": dt, "data": data}
            reason = predicate_ct(time, length, dt, data, out)
            if out != int(mo):
                u.report(inp, str(out), mo, reason)
            elif reason:
                u.report(inp, str(out), mo, "implementation AND model: " + reason)
        if u.bad > 5:
            break
    u.done()
    k = len(cases) // 2
    ctx.sample({"unit": u.name, "time": cases[k][0], "length": cases[k][1], "dt": cases[k][2], "data": cases[k][3],
                "model": mout[k]})
    idxs = sorted(ctx.rng.sample(range(len(cases)), 60))
    crosscheck(ctx, u.name, ["center_time (%d) (%d) (%d) %s = (%s)" % (cases[i][0], cases[i][1], cases[i][2],
                                                                       zl(cases[i][3]), mout[i]) for i in idxs])


def replay_ct(inp):
    out = impl_ct([(inp["time"], inp["length"], inp["dt"], inp["data"])])[0]
    reason = predicate_ct(inp["time"], inp["length"], inp["dt"], inp["data"], out)
    print("impl:", out, "spec:", reason or "holds")
    return 1 if reason else 0


class _U:
    def __init__(self, name, rule, unit, replay):
        self.NAME, self.RULE, self.unit, self.replay = name, rule, unit, replay


WD = _U(NAME_WD, RULE_WD, unit_wd, replay_wd)
CT = _U(NAME_CT, RULE_CT, unit_ct, replay_ct)
