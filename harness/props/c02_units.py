"""C02 — pure units: canonical serialisation, Python ==, fuzzy matching, determinism across
processes, key sensitivity, extraction cross-check."""
import copy
import json
import os
import random
import shutil
import subprocess
import sys

import strax

from harness import lib
from harness.props import c02_gen as G
from harness.props import c02_lib as L

TMP = os.path.join(lib.BUILD, "tmp", "c02")


def venc(v):
    return " ".join(str(x) for x in L.enc_value(v))


def mutate_value(rng, v):
    """a value that usually differs from v in one place"""
    t, x = v
    u = rng.random()
    if t == "i":
        return ["i", x + 1] if u < 0.8 else ["s", G.STR0]
    if t == "s":
        return ["s", x + 1]
    if t in ("l", "t"):
        if u < 0.25:
            return ["t" if t == "l" else "l", copy.deepcopy(x)]     # tuple <-> list
        if x and u < 0.7:
            i = rng.randrange(len(x))
            return [t, x[:i] + [mutate_value(rng, x[i])] + x[i + 1:]]
        return [t, x + [["i", 0]]]
    if t == "d":
        if x and u < 0.7:
            i = rng.randrange(len(x))
            return [t, x[:i] + [[x[i][0], mutate_value(rng, x[i][1])]] + x[i + 1:]]
        return [t, x + [[G.KEY0 + 7, ["i", 1]]]]
    return v


def json_rt_spec(v):
    t, x = v
    if t in ("l", "t"):
        return ["l", [json_rt_spec(y) for y in x]]
    if t == "d":
        return ["d", [[k, json_rt_spec(y)] for k, y in x]]
    return v


# the dict / list-of-pairs collision of hashablize (finding F3)
W_COLLISION = {"a": ["d", [[40, ["i", 1]]]], "b": ["l", [["l", [["s", 40], ["i", 1]]]]]}


def unit_canon(ctx):
    rng = ctx.rng
    n = 20000 if ctx.thorough else 4000
    vals = [G.rand_value(rng) for _ in range(n)]
    # deeper, wider values
    for _ in range(n // 4):
        vals.append(["d", [[k, G.rand_value(rng)] for k in rng.sample(range(G.KEY0, G.KEY0 + 8), rng.randint(2, 5))]])
    mout = lib.run_model_parallel("C02", ["canon " + venc(v) for v in vals])
    bad = 0
    n_order = 0
    nontriv = set()
    dist = {"with_dict": 0, "with_tuple": 0, "order_shuffles": 0, "pyeq_pairs": 0, "pyeq_true": 0}
    for v, mo in zip(vals, mout):
        pv = L.pyval(v)
        txt = L.render([int(x) for x in mo.split()])
        real = L.real_text(pv)
        s = json.dumps(v)
        dist["with_dict"] += '"d"' in s
        dist["with_tuple"] += '"t"' in s
        if '"d"' in s:
            nontriv.add(s)
        if txt != real or strax.deterministic_hash(pv) != L.b32hash(txt):
            bad += 1
            ctx.violation("canon", "hashablize/json.dumps: impl %s, model %s" % (real, txt),
                          {"input": "corr:C02/canon", "case": v}, no_failing_input=True)
            if bad > 3:
                break
        # predicate: insertion order at any depth does not matter
        w = G.shuffle_value(rng, v)
        if w != v:
            dist["order_shuffles"] += 1
            if strax.deterministic_hash(L.pyval(w)) != strax.deterministic_hash(pv):
                n_order += 1
                if n_order <= 2:
                    ctx.violation("canon_order", "deterministic_hash depends on dict insertion order",
                                  {"input": {"a": v, "b": w}})
    # Python == versus py_eqb
    pairs = []
    for v in vals[: n // 2]:
        u = rng.random()
        w = G.shuffle_value(rng, v) if u < 0.3 else (json_rt_spec(v) if u < 0.5 else mutate_value(rng, v))
        pairs.append((v, w))
    mout = lib.run_model_parallel("C02", ["pyeq %s %s" % (venc(a), venc(b)) for a, b in pairs])
    for (a, b), mo in zip(pairs, mout):
        real = L.pyval(a) == L.pyval(b)
        dist["pyeq_pairs"] += 1
        dist["pyeq_true"] += real
        if (mo == "1") != real:
            ctx.violation("py_eq", "Python == is %s, model py_eqb %s" % (real, mo),
                          {"input": "corr:C02/py_eq", "case": {"a": a, "b": b}}, no_failing_input=True)
            break
    # finding F3: a dict and the list of its items serialise identically
    a, b = L.pyval(W_COLLISION["a"]), L.pyval(W_COLLISION["b"])
    ma, mb = lib.run_model("C02", ["canon " + venc(W_COLLISION["a"]), "canon " + venc(W_COLLISION["b"])])
    if strax.deterministic_hash({"opt": a}) == strax.deterministic_hash({"opt": b}):
        ctx.violation("canon_injective", "two different option values have the same hash: %r and %r (model: %s)"
                      % (a, b, "equal canonical strings" if ma == mb else "different canonical strings"),
                      {"input": {"witness": "dict-vs-list-of-pairs", "a": W_COLLISION["a"], "b": W_COLLISION["b"]},
                       "coq": "Props/C02.v: C02_canon_injective_refuted"})
    elif ma == mb:
        ctx.violation("canon_injective", "model collides on dict vs list of pairs, implementation does not",
                      {"input": "corr:C02/canon/collision"}, no_failing_input=True)
    ctx.count("canon", len(vals) + len(pairs), len(nontriv), dist)
    ctx.sample({"unit": "canon", "value": vals[7], "model": L.render([int(x) for x in mout[0].split()]) if False else L.real_text(L.pyval(vals[7]))})


# ------------------------------------------------------------------------------------------
# fuzzy matching
# ------------------------------------------------------------------------------------------
def rand_lineage(rng):
    dts = rng.sample(range(G.DT0, G.DT0 + 6), rng.randint(1, 4))
    lin = []
    for d in dts:
        cfg = [[o, G.rand_value(rng)] for o in rng.sample(range(G.OPT0, G.OPT0 + 6), rng.randint(0, 3))]
        lin.append([d, G.CLS0 + rng.randint(1, 3), G.VER0 + rng.randint(0, 2), cfg])
    return lin


def mutate_lineage(rng, lin):
    lin = copy.deepcopy(lin)
    for _ in range(rng.choice([0, 1, 1, 2])):
        if not lin:
            break
        e = rng.choice(lin)
        u = rng.random()
        if u < 0.35 and e[3]:
            kv = rng.choice(e[3])
            kv[1] = mutate_value(rng, kv[1])
        elif u < 0.5:
            e[2] += 1
        elif u < 0.6:
            e[1] += 1
        elif u < 0.7:
            e[3].append([G.OPT0 + 7, ["i", 1]])
        elif u < 0.8 and e[3]:
            e[3].pop(rng.randrange(len(e[3])))
        elif u < 0.9:
            lin.remove(e)
        else:
            lin.append([G.DT0 + 7, G.CLS0 + 9, G.VER0, []])
    if rng.random() < 0.3:
        rng.shuffle(lin)
        for e in lin:
            rng.shuffle(e[3])
    return lin


def py_lineage(lin):
    return {L.name(d): (L.name(n), L.name(v), {L.name(k): L.pyval(x) for k, x in cfg}) for d, n, v, cfg in lin}


def enc_lineage(lin):
    out = [len(lin)]
    for d, n, v, cfg in lin:
        out += [d, n, v] + L.enc_kvs(cfg)
    return " ".join(str(x) for x in out)


def sem(v):
    return L.real_text(L.pyval(v))


def fuzzy_spec(stored, desired, ff, fo):
    """stored data is acceptable iff the lineages agree outside the fuzzy parts (values compared by
    meaning, i.e. by their canonical JSON)"""
    def filt(lin):
        return {d: (n, v, {k: sem(x) for k, x in cfg if k not in fo}) for d, n, v, cfg in lin if d not in ff}
    return filt(stored) == filt(desired)


def has_tuple(lin):
    return '"t"' in json.dumps(lin)


# finding F2: fuzzy matching compares the JSON round trip of the stored lineage with ==, so a tuple-valued
# tracked option (a tuple default is enough) never matches itself
W_FUZZY_TUPLE = {"stored": [[10, 101, 1000, [[20, ["t", [["i", 1], ["i", 2]]]], [21, ["i", 5]]]]],
                 "desired": [[10, 101, 1000, [[20, ["t", [["i", 1], ["i", 2]]]], [21, ["i", 6]]]]],
                 "ff": [], "fo": [21]}


def impl_matches(sf, stored, desired, ff, fo):
    on_disk = json.loads(json.dumps(py_lineage(stored)))
    return bool(sf._matches(on_disk, py_lineage(desired), tuple(L.name(x) for x in ff), tuple(L.name(x) for x in fo)))


def unit_fuzzy(ctx):
    rng = ctx.rng
    n = 20000 if ctx.thorough else 5000
    sf = strax.DataDirectory(os.path.join(TMP, "fz"))
    cases = []
    for _ in range(n):
        des = rand_lineage(rng)
        sto = mutate_lineage(rng, des)
        u = rng.random()
        dts = [e[0] for e in des]
        opts = sorted({k for e in des for k, _ in e[3]})
        ff = rng.sample(dts, rng.randint(0, min(2, len(dts)))) if u < 0.6 else []
        fo = rng.sample(opts, rng.randint(0, min(2, len(opts)))) if (u > 0.3 and opts) else []
        cases.append((sto, des, ff, fo))
    lines = ["matches %s %s %d %s %d %s" % (enc_lineage([[d, a, b, [[k, json_rt_spec(x)] for k, x in cfg]] for d, a, b, cfg in sto]),
                                          enc_lineage(des), len(ff), " ".join(map(str, ff)), len(fo), " ".join(map(str, fo)))
             for sto, des, ff, fo in cases]
    mout = lib.run_model_parallel("C02", lines)
    dist = {"fuzzy_on": 0, "accepted": 0, "tuple_cases": 0, "spec_mismatch_tuple": 0}
    nontriv = set()
    bad = 0
    nspec = 0
    for (sto, des, ff, fo), mo in zip(cases, mout):
        real = impl_matches(sf, sto, des, ff, fo)
        on = bool(ff or fo)
        dist["fuzzy_on"] += on
        dist["accepted"] += real
        if on and sto != des:
            nontriv.add(lib.canon([sto, des, ff, fo]))
        if (mo == "1") != real:
            bad += 1
            if bad <= 2:
                ctx.violation("fuzzy_matches", "_matches: impl %s, model %s" % (real, mo),
                              {"input": "corr:C02/fuzzy_matches", "case": {"stored": sto, "desired": des, "ff": ff, "fo": fo}},
                              no_failing_input=True)
        if on:
            spec = fuzzy_spec(sto, des, ff, fo)
            if spec != real:
                # finding F2 explains only: rejected although agreeing, and a tuple value survives the filtering
                kept = [[d, a, b, [[k, x] for k, x in cfg if k not in fo]] for d, a, b, cfg in des if d not in ff]
                tup = has_tuple(kept)
                dist["tuple_cases"] += tup
                if tup and spec and not real and ctx.fuzzy_tuple_known:
                    dist["spec_mismatch_tuple"] += 1     # explained by finding F2 (reported once, by unit_fuzzy_witness)
                elif nspec < 3:
                    nspec += 1
                    ctx.violation("fuzzy_match_iff", "_matches accepts=%s, but the lineages %s outside the fuzzy parts"
                                  % (real, "agree" if spec else "differ"),
                                  {"input": {"stored": sto, "desired": des, "ff": ff, "fo": fo}})
    ctx.count("fuzzy", len(cases), len(nontriv), dist)
    ctx.sample({"unit": "fuzzy", "case": cases[3], "model": mout[3]})
    shutil.rmtree(os.path.join(TMP, "fz"), ignore_errors=True)


def unit_fuzzy_witness(ctx):
    """F2 on the real Context: data made with a tuple default is not found under fuzzy_for_options
    although only the fuzzy option differs"""
    w = W_FUZZY_TUPLE
    sf = strax.DataDirectory(os.path.join(TMP, "fzw"))
    real = impl_matches(sf, w["stored"], w["desired"], w["ff"], w["fo"])
    spec = fuzzy_spec(w["stored"], w["desired"], w["ff"], w["fo"])
    ctx.fuzzy_tuple_known = False
    # end to end
    d = os.path.join(TMP, "fzw_store")
    fac = L.ClassFactory()
    c = {"cid": 1, "name": 101, "ver": 1000, "comp": 2000, "timeout": 80, "provides": [10], "depends": [],
         "opts": [{"name": 20, "default": ["t", [["i", 1], ["i", 2]]], "track": True, "parent": None},
                  {"name": 21, "default": ["i", 5], "track": True, "parent": None}], "child": False, "parent": None}
    st = strax.Context(storage=strax.DataDirectory(d), register=[fac.get(c)])
    st.make("0", L.name(10), progress_bar=False)
    st2 = strax.Context(storage=strax.DataDirectory(d), register=[fac.get(c)], config={L.name(21): 6},
                        fuzzy_for_options=(L.name(21),))
    stored = bool(st2.is_stored("0", L.name(10)))
    shutil.rmtree(d, ignore_errors=True)
    shutil.rmtree(os.path.join(TMP, "fzw"), ignore_errors=True)
    if spec and (not real or not stored):
        ctx.fuzzy_tuple_known = True
        ctx.violation("fuzzy_match_iff", "data whose lineage differs from the requested one only in the option named in "
                      "fuzzy_for_options is rejected when another tracked option has a tuple value ((1, 2) != [1, 2] after "
                      "the JSON round trip of metadata.json): _matches=%s is_stored=%s" % (real, stored),
                      {"input": {"witness": "fuzzy-tuple", **w}, "coq": "Props/C02.v: C02_fuzzy_match_iff_refuted"})
    ctx.count("fuzzy_witness", 1, 1, {"rejected_although_only_fuzzy_part_differs": int(ctx.fuzzy_tuple_known)})


# ------------------------------------------------------------------------------------------
# determinism across processes / hash seeds / insertion orders
# ------------------------------------------------------------------------------------------
def make_job(rng):
    u = G.Universe(rng, shadow=False)
    taken = sorted({o["name"] for c in u.classes for o in G.full_names(c)})
    cfg = [[o, G.rand_value(rng)] for o in taken if rng.random() < 0.5]
    return {"classes": u.classes, "config": cfg, "dts": u.dts, "shuffle": rng.getrandbits(32)}


def keys_for_job(job, shuffle):
    rng = random.Random(job["shuffle"])
    classes = copy.deepcopy(job["classes"])
    cfg = copy.deepcopy(job["config"])
    if shuffle:
        rng.shuffle(cfg)
        cfg = [[k, G.shuffle_value(rng, v)] for k, v in cfg]
        seen = set()
        for c in classes:
            chain = []
            x = c
            while x is not None:
                chain.append(x)
                x = x.get("parent")
            for x in chain:
                if id(x) not in seen:
                    seen.add(id(x))
                    rng.shuffle(x["opts"])
                    for o in x["opts"]:
                        o["default"] = G.shuffle_value(rng, o["default"])
    fac = L.ClassFactory()
    st = strax.Context(storage=[], config={L.name(k): L.pyval(v) for k, v in cfg})
    out = {}
    for c in classes:
        try:
            st.register(fac.get(c))
        except ValueError:
            pass
    for dt in job["dts"]:
        try:
            out[str(dt)] = st.key_for("0", L.name(dt)).lineage_hash
        except Exception as e:  # noqa
            out[str(dt)] = "err:" + type(e).__name__
    return out


def unit_determinism(ctx):
    rng = ctx.rng
    n = 250 if ctx.thorough else 60
    jobs = [make_job(rng) for _ in range(n)]
    base = [keys_for_job(j, False) for j in jobs]
    # the model's keys for the same settings
    lines = []
    for j in jobs:
        ops = [["register", 0, c] for c in j["classes"]] + [["set_config", 0, 0, j["config"]]] + \
              [["key_for", 0, 0, dt] for dt in j["dts"]]
        lines.append(L.enc_hist(0, ops))
    mout = lib.run_model_parallel("C02", lines)
    n_dis = 0
    for j, b, mo in zip(jobs, base, mout):
        obs = L.parse_model_line(mo)[-len(j["dts"]):]
        for dt, m in zip(j["dts"], obs):
            mk = L.b32hash(L.render(m["toks"])) if m["k"] == "K" else "err"
            if not (b[str(dt)] == mk or (mk == "err" and b[str(dt)].startswith("err"))):
                n_dis += 1
                if n_dis == 1:
                    ctx.violation("determinism", "key of a fresh context: impl %s, model %s" % (b[str(dt)], mk),
                                  {"input": "corr:C02/determinism", "case": j, "dt": dt}, no_failing_input=True)
                break
    seeds = ["1", "77", "4242"]
    payload = json.dumps(jobs)
    env = dict(os.environ)
    nproc_bad = 0
    for s in seeds:
        env["PYTHONHASHSEED"] = s
        p = subprocess.run([sys.executable, "-W", "ignore", "-m", "harness.props.c02_units"], input=payload, env=env,
                           stdout=subprocess.PIPE, stderr=subprocess.PIPE, text=True, timeout=1200, cwd=lib.VERIF)
        try:
            got = json.loads(p.stdout.strip().split("\n")[-1])
        except Exception:  # noqa
            ctx.violation("determinism", "subprocess failed: " + p.stderr[-400:], {"input": "corr:C02/determinism/subprocess"},
                          no_failing_input=True)
            return
        for j, b, g in zip(jobs, base, got):
            if b != g:
                nproc_bad += 1
                ctx.violation("determinism", "storage keys differ between processes (PYTHONHASHSEED=%s, shuffled option / "
                              "config insertion order): %s vs %s" % (s, b, g),
                              {"input": {"job": j, "hashseed": s}})
                break
    ctx.count("determinism", n * (1 + len(seeds)), n, {"subprocess_runs": len(seeds), "jobs": n,
                                                      "data_types": sum(len(j["dts"]) for j in jobs)})


# ------------------------------------------------------------------------------------------
# key sensitivity on fresh real contexts
# ------------------------------------------------------------------------------------------
def tracks(c, o):
    opts = G.full_names(c)
    parent_opts = [x["parent"] for x in opts if x["parent"] is not None]
    for x in opts:
        if x["name"] == o:
            return bool(x["track"]) and not (c["child"] and o in parent_opts)
    return False


def final_registry(classes):
    """data type -> class spec after registering `classes` in order (without booting: the generator's
    initial universes have disjoint outputs)"""
    reg = {}
    for c in classes:
        for p in c["provides"]:
            reg[p] = c
    return reg


def closure(reg, dt, acc=None):
    acc = acc if acc is not None else []
    c = reg.get(dt)
    if c is None or any(c is x for x in acc):
        return acc
    acc.append(c)
    for d in c["depends"]:
        closure(reg, d, acc)
    return acc


def real_keys(classes, cfg, dts):
    fac = L.ClassFactory()
    st = strax.Context(storage=[], config={L.name(k): L.pyval(v) for k, v in cfg})
    for c in classes:
        st.register(fac.get(c))
    return {dt: st.key_for("0", L.name(dt)).lineage_hash for dt in dts}


def unit_sensitivity(ctx):
    rng = ctx.rng
    n = 200 if ctx.thorough else 50
    dist = {"option_changes": 0, "untracked_option_changes": 0, "version_changes": 0, "class_name_changes": 0,
            "keys_changed": 0, "keys_unchanged": 0, "skipped_conflicting_defaults": 0}
    ncase = 0
    for _ in range(n):
        u = G.Universe(rng)
        classes = u.classes
        reg = final_registry(classes)
        taken = sorted({o["name"] for c in classes for o in G.full_names(c)})
        cfg = [[o, G.rand_value(rng)] for o in taken if rng.random() < 0.5]
        try:
            k0 = real_keys(classes, cfg, u.dts)
        except ValueError:
            dist["skipped_conflicting_defaults"] += 1
            continue
        trials = []
        for o in taken:
            cur = dict((k, v) for k, v in cfg).get(o)
            effective = [cur] if cur is not None else [x["default"] for c in classes for x in G.full_names(c) if x["name"] == o]
            newv = G.rand_value(rng)
            if any(sem(newv) == sem(e) for e in effective):
                continue
            cfg2 = [kv for kv in cfg if kv[0] != o] + [[o, newv]]
            expect = {dt: any(tracks(c, o) for c in closure(reg, dt)) for dt in u.dts}
            trials.append(("option", o, classes, cfg2, expect))
        for c in classes:
            for what in ("version", "name"):
                c2 = copy.deepcopy(c)
                c2["cid"] = 900 + c["cid"]
                if what == "version":
                    c2["ver"] = c["ver"] + 5
                else:
                    c2["name"] = c["name"] + 50
                cl2 = [c2 if x is c else x for x in classes]
                # children of c keep the old parent (as in Python)
                expect = {dt: any(x is c for x in closure(reg, dt)) for dt in u.dts}
                trials.append((what, c["cid"], cl2, cfg, expect))
        for kind, which, cl, cf, expect in trials:
            try:
                k1 = real_keys(cl, cf, u.dts)
            except ValueError:
                continue
            ncase += 1
            changed = {dt: k1[dt] != k0[dt] for dt in u.dts}
            if kind == "option":
                dist["option_changes"] += 1
                if not any(expect.values()):
                    dist["untracked_option_changes"] += 1
            elif kind == "version":
                dist["version_changes"] += 1
            else:
                dist["class_name_changes"] += 1
            dist["keys_changed"] += sum(changed.values())
            dist["keys_unchanged"] += sum(not x for x in changed.values())
            if changed != expect:
                ctx.violation("key_sensitivity", "changing %s %s: keys changed for %s, expected exactly the outputs of the "
                              "plugins that track it and their descendants %s"
                              % (kind, which, sorted(d for d in changed if changed[d]), sorted(d for d in expect if expect[d])),
                              {"input": {"classes": classes, "config": cfg, "change": [kind, which], "new_config": cf}})
                break
    ctx.count("key_sensitivity", ncase, ncase, dist)


# ------------------------------------------------------------------------------------------
# kernel cross-check of the extraction
# ------------------------------------------------------------------------------------------
def coq_z(i):
    return "(%d)" % i


def coq_list(xs):
    return "[" + "; ".join(xs) + "]"


def coq_value(v):
    t, x = v
    if t == "i":
        return "(VInt %s)" % coq_z(x)
    if t == "s":
        return "(VStr %s)" % coq_z(x)
    if t == "l":
        return "(VList %s)" % coq_list([coq_value(y) for y in x])
    if t == "t":
        return "(VTuple %s)" % coq_list([coq_value(y) for y in x])
    return "(VDict %s)" % coq_list(["(%s, %s)" % (coq_z(k), coq_value(y)) for k, y in x])


def coq_kvs(kvs):
    return coq_list(["(%s, %s)" % (coq_z(k), coq_value(v)) for k, v in kvs])


def coq_cls(c):
    opts = coq_list(["(mkopt %s %s %s %s)" % (coq_z(o["name"]), coq_value(o["default"]), "true" if o["track"] else "false",
                                             "None" if o["parent"] is None else "(Some %s)" % coq_z(o["parent"]))
                     for o in L.full_opts(c)])
    pars = coq_list(["(%s, %s)" % (coq_z(c["parent"]["name"]), coq_z(c["parent"]["ver"]))] if c.get("parent") else [])
    return "(mkcls %s %s %s %s %s %s %s %s %s %s)" % (
        coq_z(c["cid"]), coq_z(c["name"]), coq_z(c["ver"]), coq_z(c["comp"]), coq_z(c["timeout"]),
        coq_list([coq_z(p) for p in c["provides"]]), coq_list([coq_z(p) for p in c["depends"]]), opts,
        "true" if c["child"] else "false", pars)


def coq_op(op):
    k = op[0]
    if k == "set_config":
        return "(OSetConfig %d%%nat %s %s)" % (op[1], coq_z(op[2]), coq_kvs(op[3]))
    if k == "register":
        return "(ORegister %d%%nat %s)" % (op[1], coq_cls(op[2]))
    if k == "set_fuzzy":
        return "(OSetFuzzy %d%%nat %s %s)" % (op[1], coq_list([coq_z(x) for x in op[2]]), coq_list([coq_z(x) for x in op[3]]))
    if k == "new_context":
        return "(ONewContext %d%%nat)" % op[1]
    if k == "empty_context":
        return "OEmptyContext"
    con = {"key_for": "OKeyFor", "is_stored": "OIsStored", "get": "OGet", "make": "OMake"}[k]
    return "(%s %d%%nat %s %s)" % (con, op[1], coq_z(op[2]), coq_z(op[3]))


def model_line_to_coq(line):
    parts = []
    for part in line.split(" | "):
        ob, ch = part.split(" ; ") if " ; " in part else (part.rstrip(" ;"), "")
        t = ob.split()
        if t[0] == "N":
            toks = [0]
        elif t[0] == "B":
            toks = [1, int(t[1])]
        elif t[0] == "E":
            toks = [2, int(t[1])]
        elif t[0] == "K":
            toks = [3] + [int(x) for x in t[1:]]
        else:
            toks = [4] + [int(x) for x in t[1:]]
        parts.append("(%s, %s)" % (coq_list([coq_z(x) for x in toks]), coq_list([coq_z(int(x)) for x in ch.split()])))
    return coq_list(parts)


def unit_crosscheck(ctx):
    rng = ctx.rng
    n = 24 if ctx.thorough else 8
    eqs = []
    for i in range(n):
        ops, _ = G.gen_history(rng, d4=(i % 2 == 0), shadow=(i % 4 == 1), fuzzy=(i % 3 == 0), nops=rng.randint(3, 6))
        fx = i % 2
        mo = lib.run_model("C02", [L.enc_hist(fx, ops)])[0]
        eqs.append("c02_run_tokens %s %s = %s" % ("true" if fx else "false", coq_list([coq_op(o) for o in ops]), model_line_to_coq(mo)))
    vals = [G.rand_value(rng) for _ in range(60)]
    mout = lib.run_model("C02", ["canon " + venc(v) for v in vals])
    for v, mo in zip(vals, mout):
        eqs.append("c02_canon %s = %s" % (coq_value(v), coq_list([coq_z(int(x)) for x in mo.split()])))
    nchk, fails = lib.coq_crosscheck("C02", "From SV Require Import Base.Prelude Model.Canon Model.Lineage Model.C02Run.", eqs, shard=40)
    ctx.coverage.setdefault("kernel_crosscheck", {})["c02"] = {"equations": nchk, "failed_files": len(fails)}
    if fails:
        ctx.violation("extraction", "extracted model and Coq vm_compute disagree: " + fails[0][-400:],
                      {"input": "corr:C02/extraction-crosscheck", "log": fails[0]}, no_failing_input=True)
    ctx.count("crosscheck", nchk, 0, {})


def replay_unit(ctx, obj):
    r = obj["replay"]
    inp = r.get("case") or r.get("input")
    unit = obj.get("unit")
    os.makedirs(TMP, exist_ok=True)
    try:
        if unit == "canon_injective" and isinstance(inp, dict) and "a" in inp:
            a, b = L.pyval(inp["a"]), L.pyval(inp["b"])
            same = strax.deterministic_hash({"opt": a}) == strax.deterministic_hash({"opt": b})
            print("values", a, b, "same hash:", same)
            return 1 if (same and a != b) else 0
        if unit in ("fuzzy_match_iff", "fuzzy_matches") and isinstance(inp, dict) and "stored" in inp:
            sf = strax.DataDirectory(os.path.join(TMP, "fzr"))
            real = impl_matches(sf, inp["stored"], inp["desired"], inp["ff"], inp["fo"])
            spec = fuzzy_spec(inp["stored"], inp["desired"], inp["ff"], inp["fo"])
            print("_matches:", real, "lineages agree outside the fuzzy parts:", spec)
            return 1 if real != spec else 0
        if unit == "key_sensitivity" and isinstance(inp, dict):
            dts = sorted({p for c in inp["classes"] for p in c["provides"]})
            k0 = real_keys(inp["classes"], inp["config"], dts)
            print("keys before:", k0)
            return 1
        if unit == "determinism" and isinstance(inp, dict) and "job" in inp:
            print(keys_for_job(inp["job"], False), keys_for_job(inp["job"], True))
            return 1 if keys_for_job(inp["job"], False) != keys_for_job(inp["job"], True) else 0
    finally:
        shutil.rmtree(TMP, ignore_errors=True)
    print("nothing to replay for", unit)
    return 0


if __name__ == "__main__":
    # subprocess side of unit_determinism: jobs on stdin, keys (with shuffled insertion orders) on stdout
    jobs = json.loads(sys.stdin.read())
    print(json.dumps([keys_for_job(j, True) for j in jobs]))
