"""C02 — pure units: canonical serialisation, Python ==, fuzzy matching, determinism across
processes, key sensitivity, extraction cross-check."""


def unit_canon(ctx):
    pass


def unit_fuzzy(ctx):
    pass


def unit_determinism(ctx):
    pass


def unit_sensitivity(ctx):
    pass


def unit_crosscheck(ctx):
    pass


def replay_unit(ctx, obj):
    return 0
