"""C09 — overlap-window plugins give chunking-independent results at chunk boundaries.

Real `strax.OverlapWindowPlugin` subclasses (neighbour count per row, plain copy, group former; single
and dual output) are driven (a) directly through `plugin.iter({dep: iter(chunks)})` and (b) through a real
`strax.Context` (source plugin + overlap plugin, `get_array`).  Oracles: the extracted Coq model
(Model/Overlap.v) item-for-item, and the property predicate `f(whole run)` / contiguity / alignment."""
import contextlib
import hashlib
import itertools
import os
import random
from concurrent.futures import ProcessPoolExecutor

import numpy as np
import strax

from harness import impl, lib

MODEL_PROPS = ["C09"]
LEVEL = "proof"
NONE_RUN = -999999
RUN = 7
IN_DT, IN_KIND = 1, 1
OUT_DT0, OUT_KIND0 = 20, 10

DT_OUT = np.dtype([(("Start time", "time"), np.int64), (("End time", "endtime"), np.int64),
                   ("id", np.int64), ("n", np.int64)])

ERRMAP = [
    ("negative start time", 1), ("negative length", 2), ("starts early", 3), ("ends late", 4),
    ("Need at least one chunk", 20), ("different data types", 21), ("different run ids", 22),
    ("overlapping or out-of-order", 23), ("Cannot work with empty input buffer", 40),
    ("Window size elements must be non-negative", 41), ("Buffer start time inconsistency", 42),
    ("Output start time inconsistency", 43), ("terminated with leftover", 44),
]


def err_code(e):
    if isinstance(e, strax.CannotSplit):
        return 10
    msg = str(e)
    for k, v in ERRMAP:
        if k in msg:
            return v
    return "%s:%s" % (type(e).__name__, msg[:80])


# ------------------------------------------------------------------------------------------
# the user computations (Python mirror of Model/OverlapKernels.v)
# ------------------------------------------------------------------------------------------

def k_count(rows, kl, kr):
    return [(t, e, i, sum(1 for q in rows if t - kl < q[1] and q[0] < e + kr)) for (t, e, i, _) in rows]


def k_copy(rows):
    return [(t, e, i, e - t) for (t, e, i, _) in rows]


def k_group(rows, G):
    out, cur = [], None
    for (t, e, i, _) in rows:
        if cur is not None and t - cur[1] <= G:
            cur = (cur[0], e, cur[2], cur[3] + 1)
        else:
            if cur is not None:
                out.append(cur)
            cur = (t, e, i, 1)
    if cur is not None:
        out.append(cur)
    return out


def k_bricks(rows, off):
    out = []
    for (t, e, i, _) in rows:
        for k in range(e - t + 2):
            s = t + off + 2 * k - 2
            a, b = max(t, s), min(e, s + 2)
            if a < b:
                out.append((a, b, i, k))
    return out


def kernel(o, rows):
    code, kl, kr = o
    if code == 0:
        return k_count(rows, kl, kr)
    if code == 1:
        return k_copy(rows)
    if code == 2:
        return k_group(rows, kl)
    return k_bricks(rows, kl)


def kernel_in_property(o, wl, wr):
    """hypothesis of C09_overlap_equals_whole_run: window-local with margins <= (2*wl, 2*wr)"""
    code, kl, kr = o
    if code == 0:
        return 0 <= kl <= 2 * wl and 0 <= kr <= 2 * wr
    if code == 1:
        return True
    if code == 2:
        return 0 <= kl <= 2 * wl and kl <= 2 * wr
    return False      # staggered bricks: not nested, outside the theorems (model/implementation verdicts only)


# ------------------------------------------------------------------------------------------
# real plugins
# ------------------------------------------------------------------------------------------

_PLUGIN_CACHE = {}


def to_arr(rows):
    a = np.zeros(len(rows), dtype=DT_OUT)
    for j, r in enumerate(rows):
        a[j] = r
    return a


def plugin_class(wtuple, wl, wr, outs, sw=3):
    key = (wtuple, wl, wr, tuple(map(tuple, outs)), sw)
    if key in _PLUGIN_CACHE:
        return _PLUGIN_CACHE[key]
    names = tuple("dt%d" % (OUT_DT0 + i) for i in range(len(outs)))
    outs_ = [tuple(o) for o in outs]

    class P(strax.OverlapWindowPlugin):
        depends_on = ("dt%d" % IN_DT,)
        provides = names
        save_when = strax.SaveWhen(sw)
        if len(names) == 1:
            data_kind = "k%d" % OUT_KIND0
            dtype = DT_OUT
        else:
            data_kind = {n: "k%d" % (OUT_KIND0 + i) for i, n in enumerate(names)}
            dtype = {n: DT_OUT for n in names}

        def get_window_size(self):
            return (wl, wr) if wtuple else wl

        def compute(self, k1):
            rows = impl.rows_of(k1)
            if len(names) == 1:
                return to_arr(kernel(outs_[0], rows))
            return {n: to_arr(kernel(o, rows)) for n, o in zip(names, outs_)}

    P.__name__ = "OW_%s" % abs(hash(key))
    _PLUGIN_CACHE[key] = P
    return P


class _Dep:
    data_kind = "k%d" % IN_KIND

    def data_kind_for(self, d):
        return self.data_kind


def real_in_chunk(c, enc="endtime"):
    s, e, rows = c
    a = impl.mk_array(rows, enc)
    return strax.Chunk(start=s, end=e, data=a, dtype=a.dtype, data_type="dt%d" % IN_DT,
                       data_kind="k%d" % IN_KIND, run_id=str(RUN), target_size_mb=1)


def show_real(ch):
    rows = ["%d:%d:%d:%d" % (int(x["time"]), int(x["endtime"]), int(x["id"]), int(x["n"])) for x in ch.data]
    run = NONE_RUN if ch.run_id is None else int(ch.run_id)
    return "[%d %d run=%d dt=%d n=%d rows=%s]" % (ch.start, ch.end, run, int(ch.data_type[2:]), len(ch), ";".join(rows))


def show_item(it, names):
    if it is None:
        return "None"
    if isinstance(it, dict):
        return " ".join(show_real(it[n]) for n in names)
    return show_real(it)


def run_direct(case, enc="endtime"):
    """(a) plugin.iter driven directly with a stub dependency"""
    wtuple, wl, wr = case["w"]
    try:
        cls = plugin_class(wtuple, wl, wr, case["outs"], case.get("sw", 3))
        p = cls()
        p.deps = {"dt%d" % IN_DT: _Dep()}
        p.run_id = str(RUN)
        p.config = {}
        p.fix_dtype()
        items = []
        for it in p.iter({"dt%d" % IN_DT: iter([real_in_chunk(c, enc) for c in case["chunks"]])}):
            items.append(show_item(it, p.provides))
        return "ok " + "|".join(items)
    except Exception as e:  # noqa
        return "err %s" % err_code(e)


def run_context(case, target=0):
    """(b) through a real strax.Context: source plugin yielding the chunks + the overlap plugin"""
    wtuple, wl, wr = case["w"]
    chunks = case["chunks"]

    class Src(strax.Plugin):
        depends_on = tuple()
        provides = ("dt%d" % IN_DT,)
        data_kind = "k%d" % IN_KIND
        dtype = impl.DT_ENDTIME
        rechunk_on_save = False

        def compute(self, chunk_i):
            s, e, rows = chunks[chunk_i]
            return self.chunk(start=s, end=e, data=impl.mk_array(rows, "endtime"))

        def is_ready(self, chunk_i):
            return chunk_i < len(chunks)

        def source_finished(self):
            return True

    try:
        with open(os.devnull, "w") as dn, contextlib.redirect_stdout(dn), contextlib.redirect_stderr(dn):
            st = strax.Context(storage=[])
            st.register(Src)
            st.register(plugin_class(wtuple, wl, wr, case["outs"], case.get("sw", 3)))
            a = st.get_array(str(RUN), "dt%d" % (OUT_DT0 + target), progress_bar=False)
        return [(int(x["time"]), int(x["endtime"]), int(x["id"]), int(x["n"])) for x in a]
    except Exception as e:  # noqa
        return "err %s" % err_code(e)


# ------------------------------------------------------------------------------------------
# model side
# ------------------------------------------------------------------------------------------

def enc_chunk(c):
    s, e, rows = c
    return "%d %d %d %d %d %d %s" % (s, e, IN_DT, IN_KIND, RUN, 1, impl.enc_rows(rows))


def model_line(case):
    wtuple, wl, wr = case["w"]
    outs = " ".join("%d %d %d %d %d" % (o[0], o[1], o[2], OUT_DT0 + i, OUT_KIND0 + i) for i, o in enumerate(case["outs"]))
    return "iter %d %d %d %d %d %d %d %s %d %s" % (
        int(wtuple), wl, wr, RUN, 200, case.get("sw", 3), len(case["outs"]), outs, len(case["chunks"]),
        " ".join(enc_chunk(c) for c in case["chunks"]))


def parse_items(out):
    """'ok item|item' -> list of items; item = None or list of (start, end, dt, [rows])"""
    items = []
    for it in out[3:].split("|"):
        if it == "None":
            items.append(None)
            continue
        chs = []
        for tok in it.replace("] [", "]\x00[").split("\x00"):
            f = tok.strip("[]").split(" ")
            rows = f[5][5:]
            chs.append((int(f[0]), int(f[1]), int(f[3][3:]),
                        [tuple(int(v) for v in r.split(":")) for r in rows.split(";")] if rows else []))
        items.append(chs)
    return items


# ------------------------------------------------------------------------------------------
# the property predicate (spec side of the theorems), evaluated on the implementation's behaviour
# ------------------------------------------------------------------------------------------

def in_property(case):
    rows = [r for c in case["chunks"] for r in c[2]]
    wtuple, wl, wr = case["w"]
    if wl < 0 or wr < 0 or not case["chunks"]:
        return False
    if any(r[0] >= r[1] for r in rows) or any(a[1] > b[0] for a, b in zip(rows[:-1], rows[1:])):
        return False
    if not contiguous_stream(case["chunks"]):
        return False
    return all(kernel_in_property(o, wl, wr) for o in case["outs"])


def contiguous_stream(chunks):
    return all(a[1] == b[0] for a, b in zip(chunks[:-1], chunks[1:])) and all(
        c[0] <= c[1] and c[0] >= 0 and all(c[0] <= r[0] and r[1] <= c[1] for r in c[2]) for c in chunks)


def spec_overlap(case, out):
    """None if the behaviour satisfies C09 on this case, else a reason.  Only judged when the case is inside
    the property's quantifier (in_property)."""
    if not in_property(case):
        return None
    if out.startswith("err"):
        return "the plugin failed (%s) on a valid chunking of valid input" % out
    items = parse_items(out)
    rows = [r for c in case["chunks"] for r in c[2]]
    if any(it is None for it in items):
        return "the plugin yielded None instead of a chunk"
    nout = len(case["outs"])
    if any(len(it) != nout for it in items):
        return "an item does not carry all outputs"
    for k, o in enumerate(case["outs"]):
        got = [r for it in items for r in it[k][3]]
        want = kernel(tuple(o), rows)
        if got != want:
            return ("output %d over the run differs from one computation over the whole run: got %s, want %s"
                    % (k, got, want))
        if items[0][k][0] != case["chunks"][0][0] or items[-1][k][1] != case["chunks"][-1][1]:
            return "output %d does not cover the run's range" % k
        for a, b in zip(items[:-1], items[1:]):
            if a[k][1] != b[k][0]:
                return "output %d chunks are not contiguous (%d then %d)" % (k, a[k][1], b[k][0])
        for it in items:
            if any(r[0] < it[k][0] or r[1] > it[k][1] for r in it[k][3]):
                return "output %d has a row outside its chunk" % k
    for it in items:
        if len({(c[0], c[1]) for c in it}) != 1:
            return "outputs of one item are not aligned: %s" % [(c[0], c[1]) for c in it]
    return None


# ------------------------------------------------------------------------------------------
# generators
# ------------------------------------------------------------------------------------------

def disjoint_rows(nmax, grid, minlen=1):
    """all lists of <= nmax disjoint rows (end <= next start) on 0..grid with lengths >= minlen"""
    def rec(prefix, lo):
        yield list(prefix)
        if len(prefix) == nmax:
            return
        for t in range(lo, grid + 1):
            for e in range(t + minlen, grid + 1):
                yield from rec(prefix + [(t, e, len(prefix), 0)], e)
    yield from rec([], 0)


def cut_points(rows, s, e):
    return [x for x in range(s + 1, e) if not any(r[0] < x < r[1] for r in rows)]


def chunking_from_cuts(rows, s, e, cuts):
    """cuts: sorted list of times (repeats allowed = zero-duration chunks); rows are assigned to the chunk that
    contains them (positive-length rows: unambiguous; zero-length rows at a cut go right)."""
    b = [s] + list(cuts) + [e]
    out = []
    k = 0
    for a, c in zip(b[:-1], b[1:]):
        part = []
        while k < len(rows) and rows[k][1] <= c and (rows[k][0] < c or c == e):
            part.append(rows[k])
            k += 1
        out.append((a, c, part))
    if k != len(rows):
        return None
    return out


def all_chunkings(rows, s, e):
    pts = cut_points(rows, s, e)
    for k in range(len(pts) + 1):
        for cuts in itertools.combinations(pts, k):
            ch = chunking_from_cuts(rows, s, e, cuts)
            if ch is not None:
                yield ch


def random_chunking(rng, rows, s, e, p_cut=0.4, p_dup=0.1):
    cuts = []
    for x in cut_points(rows, s, e):
        if rng.random() < p_cut:
            cuts.append(x)
            if rng.random() < p_dup:
                cuts.append(x)
    return chunking_from_cuts(rows, s, e, cuts)


OUT_CONFIGS_SINGLE = ["count", "group"]


def out_configs(rng, wl, wr, which):
    """the outputs of the plugin for a case; kernel windows follow the declared window unless stated"""
    if which == "count":
        return [[0, wl, wr]]
    if which == "count2":          # kernel looks twice as far as declared (still inside the 2w+1 margins)
        return [[0, 2 * wl, 2 * wr]]
    if which == "group":
        return [[2, min(wl, wr), 0]]
    if which == "group2":
        return [[2, 2 * min(wl, wr), 0]]
    if which == "dual_copy":
        return [[0, wl, wr], [1, 0, 0]]
    if which == "dual_group":
        return [[0, wl, wr], [2, min(wl, wr), 0]]
    if which == "dual_group_first":
        return [[2, 2 * min(wl, wr), 0], [0, wl, wr]]
    if which == "wide":            # outside the property: kernel wider than the margins; model vs impl only
        return [[0, 2 * wl + 2, 2 * wr + 2]]
    if which == "widegroup":
        return [[2, 2 * min(wl, wr) + 2, 0]]
    # three outputs of three kinds, cut sets nested (copy/count rows lie inside the groups): the middle output's
    # row straddles the split time while the outputs around it split cleanly (seed c09b needs >= 3 outputs)
    if which == "triple_group":
        return [[1, 0, 0], [2, 2 * min(wl, wr), 0], [1, 0, 0]]
    if which == "triple_count_group":
        return [[0, wl, wr], [2, min(wl, wr), 0], [1, 0, 0]]
    if which == "triple_group_count":
        return [[1, 0, 0], [2, min(wl, wr), 0], [0, wl, wr]]
    if which == "dual_bricks":     # staggered cut points: cache_beyond needs many passes, may hit max_trials
        return [[3, 0, 0], [3, 1, 0]]
    raise ValueError(which)


ALL_WHICH = ["count", "count2", "group", "group2", "dual_copy", "dual_group", "dual_group_first", "wide", "widegroup",
             "dual_bricks", "triple_group", "triple_count_group", "triple_group_count"]


def mk_case(w, which, ch, gen, rng=None, sw=None):
    c = {"w": list(w), "outs": out_configs(rng, max(w[1], 0), max(w[2], 0), which), "chunks": ch, "gen": gen,
         "which": which}
    if sw is not None:
        c["sw"] = sw
    return c


ALLWIN = [(a, b) for a in range(4) for b in range(4)]


def shard_specs(ctx):
    """The work list: every spec is expanded into cases inside a worker process (deterministically from the
    spec, which carries its own seed derived from ctx.rng)."""
    frac = float(os.environ.get("C09_SPEC_FRACTION", "1") or 1)
    big = (ctx.thorough or ctx.escalated()) and frac >= 1
    specs = []
    g1 = 8 if big else 6
    n1 = sum(1 for _ in disjoint_rows(5, g1))
    step = 12 if big else 8
    for lo in range(0, n1, step):
        specs.append(("exh", g1, lo, lo + step, ctx.rng.getrandbits(32)))
    n10 = sum(1 for _ in disjoint_rows(5, 10))
    # disjoint_rows enumerates depth first, so the <= 2-row configurations (expanded over all chunkings x all
    # windows in the thorough tier) are spread evenly over the shards
    step10 = 150 if big else 400
    for lo in range(0, n10, step10):
        specs.append(("g10", big, lo, lo + step10, ctx.rng.getrandbits(32)))
    for _ in range(60 if big else 5):
        specs.append(("rand_small", 1000, ctx.rng.getrandbits(32)))
    for _ in range(60 if big else 5):
        specs.append(("rand_big", 500, ctx.rng.getrandbits(32)))
    for _ in range(24 if big else 3):
        specs.append(("malformed", 500, ctx.rng.getrandbits(32)))
    # developer knob for bug-detection trials on a loaded machine: keep only a fraction of the exhaustive
    # shards (never set by bin/check; recorded in the evidence when used)
    if frac < 1:
        sub = random.Random(ctx.seed)
        specs = [s for s in specs if sub.random() < (frac if s[0] == "exh" else min(1.0, 5 * frac))]
        ctx.notes.append("C09_SPEC_FRACTION=%s: shards subsampled, no escalation (developer trial run)" % frac)
    return specs


def cases_of_spec(spec):
    kind = spec[0]
    rng = random.Random(spec[-1])
    cases = []
    if kind == "exh":
        # small grid: <= 5 rows, ALL chunkings, ALL windows (0..3)^2, count + one rotating configuration
        _, g, lo, hi, _ = spec
        for idx, rows in enumerate(disjoint_rows(5, g)):
            if idx < lo or idx >= hi:
                continue
            rot = idx
            for ch in all_chunkings(rows, 0, g):
                for w in ALLWIN:
                    rot += 1
                    for which in ("count", ALL_WHICH[1 + rot % (len(ALL_WHICH) - 1)]):
                        cases.append(mk_case((1,) + w, which, ch, "exh_g%d_n%d" % (g, len(rows)), rng))
    elif kind == "g10":
        # the 10-point grid, <= 5 rows: thorough: all chunkings x all windows for <= 2 rows; else sampled
        _, big, lo, hi, _ = spec
        for idx, rows in enumerate(disjoint_rows(5, 10)):
            if idx < lo or idx >= hi:
                continue
            n = len(rows)
            full = big and n <= 2
            if full:
                chs = all_chunkings(rows, 0, 10)
            else:
                pts = cut_points(rows, 0, 10)
                chs = [chunking_from_cuts(rows, 0, 10, [x for x in pts if rng.random() < pc])
                       for pc in [rng.choice([0.3, 0.6, 1.0]) for _ in range(8 if big else 2)]]
            rot = idx
            for ch in chs:
                for w in (ALLWIN if full else [(rng.randint(0, 3), rng.randint(0, 3))]):
                    rot += 1
                    cases.append(mk_case((1,) + w, ALL_WHICH[rot % len(ALL_WHICH)], ch,
                                         "g10_n%d%s" % (n, "_full" if full else ""), rng))
    elif kind == "rand_small":
        # tight run range, symmetric int window, zero-duration chunks, other save_when
        for _ in range(spec[1]):
            n = rng.randint(1, 5)
            pts = sorted(rng.sample(range(0, 13), 2 * n)) if rng.random() < 0.5 else sorted(rng.choices(range(0, 13), k=2 * n))
            rows = []
            for i in range(n):
                t, e = pts[2 * i], pts[2 * i + 1]
                if rows and t < rows[-1][1]:
                    t = rows[-1][1]
                e = max(e, t + 1)
                rows.append((t, e, i, 0))
            s = rng.choice([0, rows[0][0]])
            e_ = rows[-1][1] + rng.choice([0, 0, rng.randint(0, 4)])
            ch = random_chunking(rng, rows, s, e_, p_cut=rng.choice([0.2, 0.5, 1.0]), p_dup=0.15)
            if ch is None:
                continue
            sym = rng.random() < 0.3
            w = rng.randint(0, 3)
            wl, wr = (w, w) if sym else (rng.randint(0, 3), rng.randint(0, 3))
            cases.append(mk_case((0 if sym else 1, wl, wr), rng.choice(ALL_WHICH), ch, "rand_small", rng,
                                 sw=rng.choice([3, 3, 2, 1, 0])))
    elif kind == "rand_big":
        # up to 30 rows, rows longer than the window, windows up to 6
        for _ in range(spec[1]):
            n = rng.randint(6, 30)
            t = rng.randint(0, 3)
            rows = []
            for i in range(n):
                t += rng.choice([0, 0, 1, 1, 2, 3, 5, 9])
                ln = rng.choice([1, 1, 2, 3, 8, 20, 20, 48])
                rows.append((t, t + ln, i, 0))
                t += ln
            s = rng.choice([0, rows[0][0]])
            e_ = rows[-1][1] + rng.choice([0, 0, 1, 7])
            ch = random_chunking(rng, rows, s, e_, p_cut=rng.choice([0.05, 0.3, 1.0]), p_dup=0.05)
            if ch is None:
                continue
            cases.append(mk_case((1, rng.randint(0, 6), rng.randint(0, 6)), rng.choice(ALL_WHICH), ch, "rand_big", rng))
    elif kind == "malformed":
        # outside the quantifier (model/implementation verdicts only): zero-length rows, negative windows,
        # gaps / overlaps between chunks, empty stream
        for _ in range(spec[1]):
            n = rng.randint(0, 5)
            pts = sorted(rng.choices(range(0, 9), k=2 * n))
            rows = [(pts[2 * i], pts[2 * i + 1], i, 0) for i in range(n)]
            e_ = max([r[1] for r in rows] + [1]) + rng.randint(0, 2)
            ch = random_chunking(rng, rows, 0, e_, p_cut=0.5, p_dup=0.2)
            if ch is None:
                continue
            wl, wr, wt = rng.randint(0, 2), rng.randint(0, 2), 1
            u = rng.random()
            if u < 0.1:
                wl, wt = -1, rng.randint(0, 1)
                if wt == 0:
                    wr = wl      # a scalar window is used for both sides (and is not checked for sign)
            elif u < 0.2 and len(ch) > 1:
                i = rng.randrange(1, len(ch))
                d = rng.choice([-1, 1])
                if all(r[0] >= ch[i][0] + d for r in ch[i][2]) and 0 <= ch[i][0] + d <= ch[i][1]:
                    ch = ch[:i] + [(ch[i][0] + d, ch[i][1], ch[i][2])] + ch[i + 1:]
            elif u < 0.23:
                ch = []
            cases.append(mk_case((wt, wl, wr), rng.choice(["count", "group", "dual_copy", "dual_group"]), ch,
                                 "malformed", rng))
    return cases


# ------------------------------------------------------------------------------------------
# running
# ------------------------------------------------------------------------------------------

KNOWN_ZERO_LEN = {"w": [1, 0, 0], "outs": [[0, 0, 0]], "chunks": [[0, 2, [[0, 0, 0, 0], [0, 2, 1, 0]]], [2, 3, []]]}


def nontrivial(case):
    """>= 2 chunks, >= 2 rows, and some chunk boundary within the window of a row"""
    ch = case["chunks"]
    rows = [r for c in ch for r in c[2]]
    if len(ch) < 2 or len(rows) < 2:
        return False
    _, wl, wr = case["w"]
    bounds = [c[1] for c in ch[:-1]]
    return any(r[0] - max(wl, 1) <= b <= r[1] + max(wr, 1) for r in rows for b in bounds)


def show_case(c):
    return {"w": c["w"], "outs": c["outs"], "chunks": [[x[0], x[1], [list(r) for r in x[2]]] for x in c["chunks"]],
            **({"sw": c["sw"]} if "sw" in c else {})}


def judge(case, iout, mout):
    """-> None or (what, replay, no_failing_input)"""
    reason = spec_overlap(case, iout)
    if reason:
        return ("C09 fails on the implementation: %s (impl %s)" % (reason, iout[:300]),
                {"input": show_case(case), "impl": iout, "model": mout, "unit": "iter_direct"}, False)
    if iout != mout:
        return ("model/implementation disagree (impl %s, model %s); the property predicate holds on this input"
                % (iout[:200], mout[:200]),
                {"input": "corr:C09/iter_direct", "case": show_case(case), "impl": iout, "model": mout,
                 "unit": "iter_direct"}, True)
    return None


def judge_context(case, mo, k, got):
    rows = [tuple(r) for c in case["chunks"] for r in c[2]]
    want_model = [r for it in parse_items(mo) if it for r in it[k][3]] if mo.startswith("ok") else mo
    if in_property(case):
        want = kernel(tuple(case["outs"][k]), rows)
        if got != want:
            return ("get_array over the chunked run differs from one computation over the whole run: got %s want %s"
                    % (got, want), {"input": show_case(case), "impl": got, "unit": "context_get_array", "target": k},
                    False)
    agree = (got == want_model) if not isinstance(got, str) else isinstance(want_model, str)
    if not agree:
        return ("model and Context.get_array disagree (impl %s, model %s)" % (str(got)[:200], str(want_model)[:200]),
                {"input": "corr:C09/context_get_array", "case": show_case(case), "impl": got, "model": mo,
                 "unit": "context_get_array", "target": k}, True)
    return None


def work(args):
    """one worker: expand a spec, run model + implementation, judge; returns a summary"""
    spec, n_ctx = args
    cases = cases_of_spec(spec)
    res = {"n": len(cases), "dist": {}, "nontriv": set(), "fails": [], "inprop": 0, "samples": [], "xcheck": [],
           "ctx_n": 0, "ctx_dist": {}, "ctx_nontriv": set(), "ctx_fails": []}
    if not cases:
        return res
    mouts = lib.run_model("C09", [model_line(c) for c in cases])
    for i, (case, mo) in enumerate(zip(cases, mouts)):
        io = run_direct(case, "endtime" if i % 2 == 0 else "length")
        inp = in_property(case)
        res["inprop"] += inp
        key = "%s/%s/%s/%s" % (case["gen"], case["which"], "in" if inp else "out", "ok" if io.startswith("ok") else io)
        res["dist"][key] = res["dist"].get(key, 0) + 1
        if nontrivial(case):
            res["nontriv"].add(hashlib.md5(lib.canon(show_case(case)).encode()).hexdigest()[:16])
        if len(res["fails"]) < 4:
            j = judge(case, io, mo)
            if j:
                res["fails"].append(j)
    rng = random.Random(spec[-1] ^ 0x5A5A)
    k = rng.randrange(len(cases))
    res["samples"].append({"unit": "iter_direct", "case": show_case(cases[k]), "model": mouts[k][:400]})
    small = [i for i, c in enumerate(cases) if sum(len(x[2]) for x in c["chunks"]) <= 6]
    for i in rng.sample(small, min(2, len(small))):
        res["xcheck"].append(coq_equation(cases[i], mouts[i]))
    # (b) the same cases through a real Context
    ok = [i for i, c in enumerate(cases)
          if c["chunks"] and contiguous_stream(c["chunks"]) and c["w"][1] >= 0 and c["w"][2] >= 0]
    for i in rng.sample(ok, min(n_ctx, len(ok))):
        case = cases[i]
        for k in range(len(case["outs"])):
            got = run_context(case, k)
            res["ctx_n"] += 1
            key = "%s/%s" % (case["which"], "ok" if not isinstance(got, str) else got)
            res["ctx_dist"][key] = res["ctx_dist"].get(key, 0) + 1
            if nontrivial(case):
                res["ctx_nontriv"].add(hashlib.md5(lib.canon(show_case(case)).encode()).hexdigest()[:16])
            j = judge_context(case, mouts[i], k, got)
            if j and len(res["ctx_fails"]) < 3:
                res["ctx_fails"].append(j)
    return res


def coq_chunk(c):
    s, e, rows = c
    rs = "; ".join("mkrow (%d) (%d) (%d) (%d)" % tuple(r) for r in rows)
    return "(mkchunk (%d) (%d) [%s] %d %d (Some %d) 1)" % (s, e, rs, IN_DT, IN_KIND, RUN)


def coq_expected(out):
    if out.startswith("err"):
        return "((%s), [])" % out.split()[1]
    items = parse_items(out)

    def ch(c):
        return "((%d), (%d), [%s])" % (c[0], c[1], "; ".join("((%d), (%d), (%d), (%d))" % r for r in c[3]))
    return "(0, [%s])" % "; ".join("[%s]" % "; ".join(ch(c) for c in (it or [])) for it in items)


def coq_equation(case, mout):
    wtuple, wl, wr = case["w"]
    outs = "; ".join("((%d), (%d), (%d), %d, %d)" % (o[0], o[1], o[2], OUT_DT0 + i, OUT_KIND0 + i)
                     for i, o in enumerate(case["outs"]))
    return "c09_iter %s (%d) (%d) (Some %d) 200 %d [%s] [%s] = %s" % (
        "true" if wtuple else "false", wl, wr, RUN, case.get("sw", 3), outs,
        "; ".join(coq_chunk(c) for c in case["chunks"]), coq_expected(mout))


def run(ctx):
    ctx.coverage["rule"] = (
        "Non-trivial: >= 2 chunks, >= 2 rows and a chunk boundary within the window of some row; distinct by "
        "canonical JSON of (window, outputs, chunks). Exhaustive part: all lists of <= 5 disjoint positive-length "
        "rows on the grid 0..6 (quick) / 0..8 (thorough), ALL chunkings at every admissible cut set, windows "
        "(0..3)x(0..3), neighbour-count output plus a rotating second configuration (count with kernel 2w, group "
        "former, dual count+copy, dual count+group, group+count, three outputs of three kinds copy/count + group former + copy/count with the group former in the middle, and two deliberately non-window-local kernels "
        "judged against the model only); grid 0..10 with <= 5 rows: sampled chunkings (thorough: all chunkings x "
        "all windows for <= 2 rows); random: tight ranges, zero-duration chunks, symmetric int windows, save_when "
        "variants, up to 30 rows with rows longer than the window; malformed: zero-length rows, negative windows, "
        "gaps/overlaps, empty stream.")
    ctx.assumptions += [
        "one dependency (one data kind): Plugin.iter hands do_compute each input chunk once",
        "integer windows only; ordinary runs (no superrun annotations)",
        "the f(whole run) oracle is asserted only inside the theorem's quantifier: disjoint positive-length rows, "
        "contiguous chunking, window >= 0, kernel window-local with margins <= (2*wl, 2*wr)",
    ]
    # known finding first: a zero-length output row at the early-split time is emitted twice
    kcase = {"w": KNOWN_ZERO_LEN["w"], "outs": KNOWN_ZERO_LEN["outs"],
             "chunks": [(c[0], c[1], [tuple(r) for r in c[2]]) for c in KNOWN_ZERO_LEN["chunks"]]}
    kout = run_direct(kcase)
    krows = [r for c in kcase["chunks"] for r in c[2]]
    if kout.startswith("ok"):
        got = [r for it in parse_items(kout) if it for r in it[0][3]]
        if got != k_count(krows, 0, 0):
            ctx.violation("zero_length_rows", "a zero-length row sitting on the early-split time is delivered twice: "
                          "got %s" % got, {"input": KNOWN_ZERO_LEN, "impl": kout, "unit": "zero_length_rows"})
    ctx.count("zero_length_rows", 1, 1, {"known witness": 1})

    specs = shard_specs(ctx)
    n_ctx_total = 4000 if ctx.thorough else 450
    per = max(1, n_ctx_total // max(1, len(specs)))
    nproc = min(16, os.cpu_count() or 4)
    with ProcessPoolExecutor(nproc) as ex:
        results = list(ex.map(work, [(s, per) for s in specs], chunksize=1))
    dist, nontriv, cdist, cnontriv = {}, set(), {}, set()
    n = n_ctx = inprop = 0
    eqs = []
    nf = 0
    for r in results:
        n += r["n"]
        inprop += r["inprop"]
        n_ctx += r["ctx_n"]
        nontriv |= r["nontriv"]
        cnontriv |= r["ctx_nontriv"]
        for k, v in r["dist"].items():
            dist[k] = dist.get(k, 0) + v
        for k, v in r["ctx_dist"].items():
            cdist[k] = cdist.get(k, 0) + v
        eqs += r["xcheck"]
        for unit, fails in (("iter_direct", r["fails"]), ("context_get_array", r["ctx_fails"])):
            for what, rep, nfi in fails:
                if nf < 12:
                    nf += 1
                    ctx.violation(unit, what, rep, no_failing_input=nfi)
    ctx.count("iter_direct", n, len(nontriv), dist)
    ctx.count("context_get_array", n_ctx, len(cnontriv), cdist)
    ctx.coverage["in_property_cases"] = inprop
    step = max(1, len(results) // 8)
    for r in results[::step]:
        for s in r["samples"]:
            ctx.sample(s)
    # extraction cross-check inside Coq
    eqs = ctx.rng.sample(eqs, min(len(eqs), 150))
    nq, fails = lib.coq_crosscheck(
        "C09", "From SV Require Import Model.Rows Model.Chunk Model.OverlapKernels Model.Overlap Model.C09Run.", eqs)
    ctx.coverage.setdefault("kernel_crosscheck", {})["ow_iter"] = {"equations": nq, "failed_files": len(fails)}
    if fails:
        ctx.violation("iter_direct", "extracted model and Coq vm_compute disagree: " + fails[0][-400:],
                      {"input": "corr:C09/iter_direct/extraction-crosscheck", "log": fails[0]}, no_failing_input=True)


def replay(ctx, obj):
    r = obj["replay"]
    case = r.get("case") if isinstance(r.get("input"), str) else r.get("input")
    case = {"w": case["w"], "outs": case["outs"], "sw": case.get("sw", 3),
            "chunks": [(c[0], c[1], [tuple(x) for x in c[2]]) for c in case["chunks"]]}
    unit = r.get("unit") or obj.get("unit")
    if unit == "context_get_array":
        k = r.get("target", 0)
        got = run_context(case, k)
        want = kernel(tuple(case["outs"][k]), [q for c in case["chunks"] for q in c[2]])
        print("impl:", got, "| f(whole run):", want)
        return 1 if (in_property(case) and got != want) else 0
    out = run_direct(case)
    reason = spec_overlap(case, out)
    if unit == "zero_length_rows":
        rows = [q for c in case["chunks"] for q in c[2]]
        got = [q for it in parse_items(out) if it for q in it[0][3]] if out.startswith("ok") else out
        reason = None if got == kernel(tuple(case["outs"][0]), rows) else "rows delivered twice / lost: %s" % (got,)
    print("impl:", out, "| property:", reason or "holds")
    return 1 if reason else 0
