"""C04 -- a crash or I/O failure never leaves wrong data visible as valid.

Correspondence (DESIGN.md 4.4 / 5-C04), on the real `Context.make` of small plugin graphs:
  (a) trace validation: the abstracted file-operation trace of a clean run is accepted by the extracted
      protocol automaton (coq/Model/FsProtocol.v: pstep), replaying it on the model file system gives the
      directory that is really on disk, and it equals the trace the code model (SaverRun.v: request) emits;
  (b) every operation point of the clean run x {OSError before / in the middle of / after the operation,
      process death (forked child, os._exit) before / in the middle of / after it}; afterwards a fresh,
      read-only Context: is_stored => get_array succeeds and equals the in-memory oracle, everything else is
      reported unavailable (False, not an exception), and the faulted call did not return normally;
  (c) retries of the identical request (with further faults in the thorough tier); the last, fault-free
      retry must end with everything stored and correct.
Both code models (save_from Fixed = futures inspected, the tree since fix df54c5e; Pinned = the tree as originally
pinned, defect D3) are evaluated on every faulted case; the implementation is expected to match Fixed.  A case in
which it behaves like Pinned and not like Fixed (an OSError of a pooled chunk write is swallowed) is reported as a
violation of unit `async_failure_not_swallowed` with the configuration and the fault position.
"""
import json
import os
import sys
import shutil
import tempfile
import time
from concurrent.futures import ProcessPoolExecutor, wait, FIRST_COMPLETED
import multiprocessing as mp

from harness import lib
from harness.fsfault import abstract as ab
from harness.fsfault import runner, graphs
from harness.props import c04_leftover

MODEL_PROPS = ["C04"]
LEVEL = "proof"

TMP = os.path.join(lib.BUILD, "tmp", "c04")

# The known defect D3 (DESIGN.md section 7): every concrete case of this class is reported under this signature.
D3_INPUT = {
    "processor": "threaded_mailbox", "max_workers": 2,
    "fault": "OSError inside strax.io.save_file of one chunk, executed on a worker thread of the saving thread pool",
    "observed": "Context.make returns normally; metadata gets writing_ended without exception; is_stored is True; "
                "loading fails (FileNotFoundError / DataCorrupted)",
}
D3_UNIT = "async_failure_not_swallowed"
# The second defect found by this check: a failure inside Saver.close on the threaded processor is lost.
LOST_INPUT = {
    "processor": "threaded_mailbox",
    "fault": "OSError inside Saver.close (closing metadata flush or os.rename(<key>_temp, <key>)) after save_from's try block completed",
    "observed": "the exception dies with the saver's mailbox thread, got_exception is not set, Context.make returns normally, nothing is stored",
}
LOST_UNIT = "close_failure_not_swallowed"
# (save_from variant, close failure recorded) the implementation is expected to match: Fixed, recorded
EXPECTED_MODEL = (1, 1)

QUICK_CONFIGS = [
    dict(graph="g1", proc="single_thread", workers=None, rechunk=False),
    dict(graph="g1", proc="threaded_mailbox", workers=2, rechunk=False),
    dict(graph="g2", proc="threaded_mailbox", workers=None, rechunk=True),
    dict(graph="g2", proc="single_thread", workers=None, rechunk=True, empty_chunk=1),
    dict(graph="g3", proc="single_thread", workers=None, rechunk=False, n_chunks=2),
    dict(graph="g3", proc="threaded_mailbox", workers=2, rechunk=True, n_chunks=2),
]

ACTIONS = {
    "quick": {
        # process death just after operation k leaves the state of death just before the next operation of that
        # thread: the quick tier kills before every operation, after the renames, and inside every write
        "makedirs": ["raise", "exit_before"],
        "rename": ["raise", "exit_before", "exit_after"],
        "remove": ["raise", "exit_before"],
        "rmtree": ["raise", "exit_before"],
        "move": ["raise", "exit_before"],
        "open_w": ["raise", "exit_before"],
        "write": ["raise", "raise_mid", "exit_before", "exit_mid"],
        "close": ["raise", "exit_before"],
    },
    "thorough": {
        "makedirs": ["raise", "raise_after", "exit_before", "exit_after"],
        "rename": ["raise", "raise_after", "exit_before", "exit_after"],
        "remove": ["raise", "raise_after", "exit_before", "exit_after"],
        "rmtree": ["raise", "raise_after", "exit_before", "exit_after"],
        "move": ["raise", "raise_after", "exit_before", "exit_after"],
        "open_w": ["raise", "raise_after", "exit_before", "exit_after"],
        "write": ["raise", "raise_mid", "raise_after", "exit_before", "exit_mid", "exit_after"],
        "close": ["raise", "raise_after", "exit_before", "exit_after"],
    },
}


def cfg_name(cfg):
    return "%s/%s/w%s/%s%s" % (cfg["graph"], "st" if cfg["proc"] == "single_thread" else "tm", cfg.get("workers") or 1,
                               "rechunk" if cfg.get("rechunk") else "asis",
                               "/empty%d" % cfg["empty_chunk"] if cfg.get("empty_chunk") is not None else "")


def thorough_configs():
    out = []
    for g in ("g1", "g2", "g3"):
        for proc, workers in (("single_thread", None), ("threaded_mailbox", None), ("threaded_mailbox", 2)):
            for rechunk in (False, True):
                out.append(dict(graph=g, proc=proc, workers=workers, rechunk=rechunk))
    out.append(dict(graph="g1", proc="threaded_mailbox", workers=2, rechunk=False, empty_chunk=0))
    out.append(dict(graph="g2", proc="single_thread", workers=None, rechunk=False, empty_chunk=2))
    out.append(dict(graph="g1", proc="single_thread", workers=None, rechunk=True, n_chunks=1, per_chunk=1))
    out.append(dict(graph="g2", proc="threaded_mailbox", workers=2, rechunk=True, n_chunks=5, per_chunk=3))
    out.append(dict(graph="g3", proc="single_thread", workers=None, rechunk=False, target="lone"))
    out.append(dict(graph="g3", proc="threaded_mailbox", workers=2, rechunk=False, target="lone"))
    return out


# ---------------------------------------------------------------------------------------------
# worker-side entry points (run in pool processes)
# ---------------------------------------------------------------------------------------------

def _init_worker():
    runner.quiet()
    os.makedirs(TMP, exist_ok=True)
    runner.warmup(TMP)


def _w_clean(cfg):
    return runner.clean_trace(cfg, TMP)


def _w_left(case):
    return c04_leftover.run_case(case, TMP)


def _w_case(case):
    t0 = time.time()
    recs = runner.run_case(case, TMP)
    return {"id": case["id"], "recs": recs, "wall": time.time() - t0}


# ---------------------------------------------------------------------------------------------
# model lines
# ---------------------------------------------------------------------------------------------

def tup_events(aevs, expected=None, clean_aevs=None):
    """events as tuples.  An operation that failed before any byte was handed to write() has no payload in the
    log: a chunk write gets the id of the chunk it was going to write, a metadata flush gets the content of the
    flush with the same occurrence number in the clean run (up to its first fault a run equals the clean run)"""
    v_of = {i: v for i, n, v in (expected or [])}
    clean_meta = [tuple(_tup(op)) for op, oc, info in (clean_aevs or []) if op[0] == "meta"]
    out = []
    for op, oc, info in aevs:
        op = tuple(_tup(op))
        if op[0] == "wtmp" and op[2] == 0 and oc != "done" and op[1] in v_of:
            op = ("wtmp", op[1], v_of[op[1]])
        sid = info.get("sid") or []
        if op == ("meta", 0, 0, ()) and oc != "done" and len(sid) == 4 and sid[1] == "open_w" and sid[3] < len(clean_meta):
            op = clean_meta[sid[3]]
        out.append((op, oc, info))
    return out


def _tup(x):
    return tuple(_tup(y) for y in x) if isinstance(x, (list, tuple)) else x


def _fs(afs):
    """abstract file system with every list turned into a tuple (records may come back from json)"""
    def d(x):
        return None if x is None else [(_tup(fn), _tup(c)) for fn, c in x]
    return {"temp": d(afs["temp"]), "final": d(afs["final"])}


EMPTY_FS = {"temp": None, "final": None}


def encodable(afs):
    for part in ("temp", "final"):
        for fn, c in (afs[part] or []):
            if fn[0] not in ("meta", "c", "t"):
                return False
    return True


def line_replay(allow_rm, expected, fs0, aevs):
    toks = ["replay", int(bool(allow_rm)), len(expected)] + [x for t in expected for x in t]
    toks += ab.enc_fs(fs0) + ab.enc_events(aevs)
    return " ".join(str(int(t)) if not isinstance(t, str) else t for t in toks)


def line_request(var, cfg, chunks, upfail, rem, plan, fs0, never=0, sched=(), closerec=1):
    toks = ["request", var, 0 if cfg["proc"] == "single_thread" else 1, 1 if cfg.get("workers") else 0, never, closerec]
    toks += ab.enc_pairs(chunks) + [upfail if upfail is not None else -1] + ab.enc_pairs(rem)
    if plan is None:
        toks += [-1]
    else:
        toks += ab.enc_op(plan[0]) + [ab.OUTCOME_CODE[plan[1]]]
    toks += [len(sched)] + list(sched)
    toks += ab.enc_fs(fs0)
    return " ".join(str(int(t)) if not isinstance(t, str) else t for t in toks)


def parse_out(s):
    d = {}
    for tok in s.split(" "):
        if "=" in tok:
            k, v = tok.split("=", 1)
            d[k] = v
    return d


# ---------------------------------------------------------------------------------------------
# evaluation of one step record
# ---------------------------------------------------------------------------------------------

class Eval:
    """Collects model lines for a batch run and the closures that judge the answers."""

    def __init__(self):
        self.lines = []
        self.judges = []

    def ask(self, line, judge):
        self.lines.append(line)
        self.judges.append(judge)

    def run(self):
        outs = lib.run_model_parallel("C04", self.lines)
        for line, out, judge in zip(self.lines, outs, self.judges):
            judge(parse_out(out), line, out)


def stored_visible(obs_d):
    return obs_d["stored"] is True


def property_failures(cfg, case, si, rec, last):
    """The property's own predicate on the implementation's behaviour in this step.
    Returns list of (unit, what, data type concerned or None)."""
    fails = []
    for d, o in rec["obs"].items():
        if o["stored"] is True and o["load"] != "ok":
            fails.append(("crash_safe_prefix" if rec["outcome"] == "died" else "fault_safe",
                          "%s is reported stored but loading it gives: %s" % (d, o["load"]), d))
        if o["stored"] not in (True, False):
            fails.append(("reported_unavailable", "is_stored(%s) does not report 'unavailable' but raises: %s" % (d, o["stored"]), d))
    injected = [f for f in rec["fired"]]
    non_root = [f for f in injected if f[0] != ""]
    if rec["outcome"] == "ok" and (non_root or rec.get("crash_at")):
        fails.append(("fault_safe", "Context.make returned normally although %s" % (
            "an injected OSError was raised at %s" % (non_root,) if non_root else "a plugin raised"), None))
    if (last or rec.get("extra")) and not rec["fired"] and not rec.get("crash_at"):
        # the identical request, repeated without faults, must succeed and leave its target stored and correct
        # (other data types only have to satisfy "stored => correct"; each is then requested on its own)
        tgt = rec.get("target")
        if rec["outcome"] != "ok":
            fails.append(("retry_converges", "the fault-free retry (target %s) did not succeed: %s %s" % (tgt, rec["outcome"], rec["exc"][:200]), tgt))
        else:
            o = rec["obs"].get(tgt)
            if o is not None and (o["stored"] is not True or o["load"] != "ok"):
                fails.append(("retry_converges", "after the fault-free retry its target %s is not stored correctly: %s" % (tgt, o), tgt))
    return fails


def fault_info(rec):
    """(key, abstract op, outcome, info) of the injected fault of this step, if it hit a data directory."""
    for k, evs in rec["aevents"].items():
        for op, oc, info in evs:
            if info.get("fault"):
                return k, _tup(op), oc, info
    return None


def evaluate(ctx, ev, cfg, clean, case, recs, stats):
    name = cfg_name(cfg)
    sync = not cfg.get("workers")
    tainted = set()   # data types hit by the known defect D3 in an earlier step of this case
    for si, rec in enumerate(recs):
        last = si == len(case["steps"]) - 1
        step_id = {"config": cfg, "case": case["steps"], "step": si}
        if rec["outcome"] not in ("timeout", "harness-error") and rec.get("lingering"):
            # threads of the run were still alive when the injector stopped recording: the trace may be
            # incomplete and the directory may still change -- nothing can be concluded from this run
            stats["inconclusive"] += 1
            ctx.notes.append("inconclusive run (threads still alive after make) %s %s" % (name, case["steps"]))
            return
        if rec["outcome"] in ("timeout", "harness-error"):
            stats["inconclusive"] += 1
            ctx.notes.append("inconclusive run (%s) %s %s: %s" % (rec["outcome"], name, case["steps"], rec["exc"][:200]))
            if stats["inconclusive"] > 5:
                ctx.violation("harness", "more than 5 runs ended in %s" % rec["outcome"],
                              {"input": "corr:C04/harness/inconclusive", "case": step_id}, no_failing_input=True)
            return
        pf = property_failures(cfg, case, si, rec, last and not case.get("no_converge_check"))
        finfo = fault_info(rec)
        judge_state = {"pf": pf, "d3": None, "lost": None, "reported": False}

        def report_property(js=judge_state, rec=rec, step_id=step_id, si=si):
            if js["reported"] or not js["pf"]:
                return
            js["reported"] = True
            for unit, what, dt in js["pf"]:
                if dt is None and js.get("lost"):
                    ctx.violation(LOST_UNIT, "a failure of Saver.close (last metadata flush / final directory rename) on the saver's mailbox "
                                  "thread is not reported to the caller: %s [%s, fired %s, outcome %s]"
                                  % (what, cfg_name(cfg), rec["fired"], rec["outcome"]),
                                  {"input": {"config": cfg, "steps": case["steps"][: si + 1]}, "class": LOST_INPUT,
                                   "obs": rec["obs"], "outcome": rec["outcome"], "target": case.get("target")},
                                  signature={"unit": LOST_UNIT, "input": LOST_INPUT})
                elif (dt is None and js["d3"]) or (dt is not None and dt in tainted):
                    # the defect D3 (fixed in /repo by df54c5e): reported with the concrete fault position; the
                    # signature is what a known_findings.json entry of status "known" would have to match
                    ctx.violation(D3_UNIT, "Saver.save_from swallows the failure of a pooled chunk write (D3, regression of fix "
                                  "df54c5e): %s [%s, fired %s, outcome %s]" % (what, cfg_name(cfg), rec["fired"], rec["outcome"]),
                                  {"input": {"config": cfg, "steps": case["steps"][: si + 1]}, "class": D3_INPUT,
                                   "obs": rec["obs"], "outcome": rec["outcome"], "target": case.get("target")},
                                  signature={"unit": D3_UNIT, "input": D3_INPUT})
                else:
                    ctx.violation(unit, "%s [%s, fired %s, outcome %s]" % (what, cfg_name(cfg), rec["fired"], rec["outcome"]),
                                  {"input": {"config": cfg, "steps": (case["steps"] + [{"plan": [], "target": r2["target"], "extra": True}
                                                                                       for r2 in recs[len(case["steps"]):]])[: si + 1]},
                                   "obs": rec["obs"],
                                   "outcome": rec["outcome"], "exc": rec["exc"], "target": case.get("target")})

        pending = [0]
        # ---- M1: replay of the abstracted trace on the model, per key --------------------------
        for k in sorted(set(list(rec["before"].keys()) + list(rec["after"].keys()) + list(rec["aevents"].keys()))):
            expected = clean["expected"].get(k)
            if expected is None:
                continue
            aevs = tup_events(rec["aevents"].get(k, []), expected, clean["aevents"].get(k))
            if any(oc == "partial" for _, oc, _ in aevs):
                continue  # non-atomic rmtree (extension unit) is judged by the property predicate only
            fs0 = _fs(rec["before"].get(k, EMPTY_FS))
            fs1 = _fs(rec["after"].get(k, EMPTY_FS))
            if not (encodable(fs0) and encodable(fs1)):
                ctx.violation("protocol", "unexpected file in the data directory of %s" % k,
                              {"input": "corr:C04/protocol/unknown-file", "case": step_id, "fs": ab.s_fs(fs1)}, no_failing_input=not pf)
                continue
            d = runner.key_dtype(k)
            was_visible = case["_vis_before"][si].get(d, False)
            pending[0] += 1

            def judge(m, line, out, k=k, aevs=aevs, fs1=fs1, d=d, rec=rec, step_id=step_id, js=judge_state):
                stats["replay"] += 1
                # files whose write was in flight when the process died: how much of them reached the disk
                # depends on buffering and timing -- their content is not compared
                racy = ["meta" if op[0] == "meta" else "t%d" % op[1] for op, oc, info in aevs
                        if info.get("inflight") and op[0] in ("meta", "wtmp")]
                real_fs = ab.mask_files(ab.norm_fs(ab.s_fs(fs1)), racy)
                obs = rec["obs"][d]
                if m.get("run") != "1":
                    ctx.violation("fs_semantics", "the recorded operations of %s cannot be executed on the model file system (%s)" % (k, ab.s_events(aevs)),
                                  {"input": "corr:C04/fs_semantics/replay", "case": step_id, "key": k, "model": out, "trace": ab.s_events(aevs)},
                                  no_failing_input=not js["pf"])
                    return
                if ab.mask_files(ab.norm_fs(m["fs"]), racy) != real_fs:
                    ctx.violation("fs_semantics", "model and real directory differ after %s: model %s real %s" % (ab.s_events(aevs), m["fs"], real_fs),
                                  {"input": "corr:C04/fs_semantics/replay", "case": step_id, "key": k, "model": m["fs"], "real": real_fs,
                                   "trace": ab.s_events(aevs)}, no_failing_input=not js["pf"])
                mvis = m["vis"] == "1"
                if mvis != (obs["stored"] is True) or (mvis and (m["load"].startswith("ok") != (obs["load"] == "ok"))):
                    ctx.violation("visibility", "model and implementation disagree on visibility/loading of %s: model vis=%s load=%s, real %s" % (k, m["vis"], m["load"], obs),
                                  {"input": "corr:C04/visibility", "case": step_id, "key": k, "model": out, "real": obs},
                                  no_failing_input=not js["pf"])
                if m["rej"] != "-1":
                    stats["rejected"] += 1
                    idx = int(m["rej"])
                    js.setdefault("rejects", []).append((k, idx, ab.s_events(aevs[: idx + 1])))

            ev.ask(line_replay(not was_visible, expected, fs0, aevs), judge)

        # ---- M2: the code model (both variants) -------------------------------------------------
        in_process_fault = finfo is not None and finfo[2] != "partial" and rec["outcome"] != "died"
        fault_free = not rec["fired"] and not rec.get("crash_at") and rec["outcome"] != "died"
        keys_m2 = []
        if fault_free:
            keys_m2 = [k for k in rec["aevents"].keys() if k in clean["expected"]]
        elif in_process_fault and len(rec["fired"]) == 1:
            keys_m2 = [finfo[0]] if finfo[0] in clean["expected"] else []
        for k in keys_m2:
            expected = clean["expected"][k]
            chunks = [(n, v) for i, n, v in expected]
            fs0 = _fs(rec["before"].get(k, EMPTY_FS))
            fs1 = _fs(rec["after"].get(k, EMPTY_FS))
            if not (encodable(fs0) and encodable(fs1)):
                continue
            aevs = tup_events(rec["aevents"].get(k, []), expected, clean["aevents"].get(k))
            plan = None
            rem = []
            if not fault_free:
                fop = [op for op, oc, info in aevs if info.get("fault")][0]
                plan = (fop, finfo[2])
                if cfg["proc"] == "single_thread":
                    rem = remainder_after_fault(aevs)
            d = runner.key_dtype(k)
            res = {}

            def judge2(m, line, out, var=None, k=k, aevs=aevs, fs1=fs1, d=d, rec=rec, step_id=step_id, res=res,
                       js=judge_state, plan=plan, finfo=finfo):
                # var = (save_from variant: 0 Pinned / 1 Fixed, close failure recorded in got_exception: 0 / 1)
                res[var] = m
                if len(res) < 4:
                    return
                stats["request"] += 1
                obs = rec["obs"][d]
                real = {"out": "ok" if rec["outcome"] == "ok" else "err", "vis": "1" if obs["stored"] is True else "0",
                        "loadok": obs["load"] == "ok", "fs": ab.norm_fs(ab.s_fs(fs1)), "tr": ab.s_events(aevs)}
                match = {}
                for v, mm in res.items():
                    same = (mm["out"][:2] == real["out"][:2]) and mm["vis"] == real["vis"] and \
                        (mm["load"].startswith("ok") == real["loadok"] or real["vis"] == "0")
                    if sync:
                        exact = ab.norm_fs(mm["fs"]) == real["fs"] and mm.get("tr", "") == real["tr"]
                        # single-thread processor, several savers: kill_spies stops at the first saver that is
                        # already closed (RuntimeError "already closed"), so a saver after it is never closed --
                        # its trace is then a proper prefix of the model's (same outcome, same visibility)
                        cut_short = bool(plan) and len(rec["aevents"]) > 1 and real["out"] == "err" and \
                            (mm.get("tr", "") + ",").startswith(real["tr"] + ",")
                        same = same and (exact or cut_short)
                    match[v] = same
                worker_fault = bool(plan) and bool(finfo[3].get("worker"))
                if match[EXPECTED_MODEL]:
                    which = "expected"
                elif match[(1, 0)]:
                    which = "close_unrecorded"      # futures inspected, but a failing close() is lost (threaded)
                elif match[(0, 1)] or match[(0, 0)]:
                    which = "pinned"                # D3: failures of pooled chunk writes are swallowed
                else:
                    which = "neither"
                stats["variant_" + which] = stats.get("variant_" + which, 0) + 1
                if worker_fault:
                    stats["worker_fault_" + which] = stats.get("worker_fault_" + which, 0) + 1
                if which == "pinned":
                    js["d3"] = True
                    tainted.add(d)
                    stats["d3_cases"] += 1
                    if not js["pf"]:
                        ctx.violation(D3_UNIT, "the implementation behaves like the save_from model Pinned, not like Fixed, for %s: real %s, "
                                      "expected %s" % (k, real, res[EXPECTED_MODEL]),
                                      {"input": {"config": cfg, "steps": case["steps"][: si + 1]}, "class": D3_INPUT, "key": k},
                                      signature={"unit": D3_UNIT, "input": D3_INPUT})
                elif which == "close_unrecorded":
                    js["lost"] = True
                    stats["close_lost_cases"] = stats.get("close_lost_cases", 0) + 1
                    if not js["pf"]:
                        ctx.violation(LOST_UNIT, "the implementation loses a failure of Saver.close for %s: real %s, expected %s"
                                      % (k, real, res[EXPECTED_MODEL]),
                                      {"input": {"config": cfg, "steps": case["steps"][: si + 1]}, "class": LOST_INPUT, "key": k},
                                      signature={"unit": LOST_UNIT, "input": LOST_INPUT})
                elif which == "neither":
                    ctx.violation("code_model", "no save_from model predicts the implementation for %s: real %s, models %s"
                                  % (k, real, {str(v): mm for v, mm in res.items()}),
                                  {"input": {"config": cfg, "steps": case["steps"][: si + 1]} if js["pf"] else "corr:C04/code_model/request",
                                   "case": step_id, "key": k, "real": real, "models": {str(v): mm for v, mm in res.items()}},
                                  no_failing_input=not js["pf"])

            for var in ((0, 0), (0, 1), (1, 0), (1, 1)):
                ev.ask(line_request(var[0], cfg, chunks, None, rem, plan, fs0, closerec=var[1]),
                       lambda m, line, out, var=var, j=judge2, si=si: j(m, line, out, var=var))

        # ---- after all answers of this step: protocol rejections and the property verdict ---------
        def finish(m=None, line=None, out=None, js=judge_state, rec=rec, step_id=step_id, si=si, report_property=report_property):
            rejects = js.get("rejects", [])
            for k, idx, prefix in rejects:
                if js["d3"] and runner.key_dtype(k) in tainted:
                    ctx.violation(D3_UNIT, "Saver.save_from swallows the failure of a pooled chunk write (D3, regression of fix df54c5e): "
                                  "the protocol automaton rejects the implementation's trace of %s at event %d: %s" % (k, idx, prefix),
                                  {"input": {"config": cfg, "steps": case["steps"][: si + 1]}, "class": D3_INPUT, "key": k, "prefix": prefix},
                                  signature={"unit": D3_UNIT, "input": D3_INPUT})
                else:
                    ctx.violation("protocol", "the protocol automaton rejects the implementation's trace of %s at event %d: %s" % (k, idx, prefix),
                                  {"input": "corr:C04/protocol/accepts", "case": step_id, "key": k, "prefix": prefix},
                                  no_failing_input=not js["pf"])
            report_property()

        ev.ask("replay 1 0 0 0 0", finish)   # sentinel evaluated after this step's other lines


def remainder_after_fault(aevs):
    """single-thread kill path: chunks SaverSpy.close still saved after the fault, as (n, v)"""
    seen_fault = False
    listed_before = None
    last_meta = None
    vs = {}
    for op, oc, info in aevs:
        if info.get("fault"):
            seen_fault = True
            if op[0] == "meta":
                listed_before = list(op[3])   # _save_chunk_metadata appended the info before the failing flush
            continue
        if not seen_fault:
            if op[0] == "meta":
                listed_before = list(op[3])
        else:
            if op[0] == "wtmp":
                vs.setdefault(op[1], []).append(op[2])
            if op[0] == "meta":
                last_meta = list(op[3])
    if last_meta is None:
        return []
    extra = last_meta[len(listed_before or []):]
    rem = []
    for i, n in extra:
        v = vs.get(i, [0])
        rem.append((n, v.pop(0) if v else 0))
    return rem


# ---------------------------------------------------------------------------------------------
# case generation
# ---------------------------------------------------------------------------------------------

def op_points(clean):
    """[(sid, kind, worker)] of the clean run, in order"""
    pts = []
    for e in clean["events"]:
        if e.get("kind") in ("upexc", "result") or "sid" not in e:
            continue
        worker = bool(e.get("in_save_file")) and str(e.get("thread", "")).startswith("ThreadPoolExecutor")
        pts.append((tuple(e["sid"]), e["kind"], worker))
    return pts


def make_cases(ctx, ci, cfg, clean):
    tier = "thorough" if (ctx.thorough or ctx.escalated()) else "quick"
    acts = ACTIONS[tier]
    pts = sorted(op_points(clean), key=lambda x: (x[0][0], x[1], x[0][2], x[0][3]))
    cases = []
    for (sid, kind, worker) in pts:
        for a in acts[kind]:
            steps = [{"plan": [[list(sid), a]]}, {"plan": []}]
            cases.append({"id": None, "cfg": cfg, "steps": steps, "worker": worker, "kind": kind, "action": a})
    rng = ctx.rng
    # retries with further faults: first fault, a retry with a second fault, a retry with a third, a clean retry
    n_multi = (len(pts) // 2) if tier == "thorough" else max(6, len(pts) // 5)
    keys = clean["keys"]
    extra_pts = [((k, "rmtree", "", 0), "rmtree") for k in keys] + [((k + "_temp", "rmtree", "", 0), "rmtree") for k in keys]
    all_pts = [(s, kd) for s, kd, _ in pts] + extra_pts
    for _ in range(n_multi):
        steps = []
        for j in range(rng.choice([2, 3])):
            sid, kind = rng.choice(all_pts)
            steps.append({"plan": [[list(sid), rng.choice(acts[kind])]]})
        steps.append({"plan": []})
        cases.append({"id": None, "cfg": cfg, "steps": steps, "worker": False, "kind": "multi", "action": "multi"})
    # forced interleaving (thread-pool saving): a metadata flush of the saver thread fails while a pooled chunk
    # write is still in flight (made slow with the injector).  save_from loses the future of the chunk whose
    # flush raised, so close() records the exception and renames the directory without waiting for that write,
    # which then lands -- or fails -- after the rename.  Legal and harmless (the key is marked broken).
    w_open = [s_ for s_, kd, w in pts if w and kd == "open_w"]
    w_write = [s_ for s_, kd, w in pts if w and kd == "write"]
    m_open = [s_ for s_, kd, w in pts if kd == "open_w" and s_[2].endswith("metadata.json") and s_[3] >= 1]
    if w_open and m_open:
        for slow, tag in ((w_open[0], "late_open"), (w_write[0] if w_write else None, "late_write")):
            if slow is None:
                continue
            for mo in m_open[:2]:
                # late_write: the failing flush waits until the pooled write has opened its file, so that the file
                # is open across the directory rename
                after = [[list(mo), list(w_open[0])]] if tag == "late_write" else []
                cases.append({"id": None, "cfg": cfg, "worker": False, "kind": tag, "action": "raise",
                              "steps": [{"plan": [[list(mo), "raise"]], "delay": [[list(slow), 1.0]], "after": after},
                                        {"plan": []}]})
    # a plugin (not a file operation) fails, then a clean retry
    dts = graphs.data_types(cfg["graph"])
    plug = [d for d in dts if d != "lone"]
    n_chunks = int(cfg.get("n_chunks", 3))
    crash_list = [(d, i) for d in plug for i in range(n_chunks)]
    if tier == "quick":
        crash_list = crash_list[:: max(1, len(crash_list) // 3)]
    for d, i in crash_list:
        cases.append({"id": None, "cfg": cfg, "steps": [{"plan": [], "crash_at": [d, i]}, {"plan": []}],
                      "worker": False, "kind": "plugin", "action": "plugin_exception"})
    # forced interleaving (threaded processor): the last plugin fails on its last chunk.  The saver of the first
    # data type has by then usually consumed its whole source and closes normally (complete data, no `exception`);
    # with its closing flush made slow it is killed first and records the exception.  Both are legal.
    if cfg["proc"] == "threaded_mailbox" and len(plug) > 1:
        first_key = [k for k in keys if runner.key_dtype(k) == dts[0]]
        closing = sorted([s_ for s_, kd, w in pts if kd == "open_w" and s_[2].endswith("metadata.json")
                          and first_key and s_[0] == first_key[0] + "_temp"], key=lambda x: x[3])
        for delay in ([], [[list(closing[-1]), 1.0]] if closing else []):
            cases.append({"id": None, "cfg": cfg, "worker": False, "kind": "plugin_last" + ("_slow_close" if delay else ""),
                          "action": "plugin_exception",
                          "steps": [{"plan": [], "crash_at": [plug[-1], n_chunks - 1], "delay": delay}, {"plan": []}]})
    # every target of the graph (thorough): the fault sweep above uses the graph's last plugin as target
    for c in cases:
        c["shas"] = clean["shas"]
        c["oracle"] = clean["oracle"]
    return cases


def vis_chain(recs):
    """visibility (per data type) before each step, from the observation after the previous one"""
    out = [{}]
    for rec in recs[:-1]:
        out.append({d: o["stored"] is True for d, o in rec["obs"].items()})
    return out


# ---------------------------------------------------------------------------------------------
# clean-run validation (a)
# ---------------------------------------------------------------------------------------------

def check_clean(ctx, ev, cfg, clean, stats):
    name = cfg_name(cfg)
    if clean["outcome"] != "ok":
        ctx.violation("clean_run", "the fault-free run of %s failed: %s %s" % (name, clean["outcome"], clean["exc"]),
                      {"input": {"config": cfg, "steps": [{"plan": []}]}, "exc": clean["exc"]})
        return False
    ok = True
    for d, o in clean["obs"].items():
        if o["stored"] is not True or o["load"] != "ok":
            ctx.violation("clean_run", "after a fault-free make of %s, %s is not stored correctly: %s" % (name, d, o),
                          {"input": {"config": cfg, "steps": [{"plan": []}]}, "obs": clean["obs"]})
            ok = False
    rec = {"plan": [], "crash_at": None, "outcome": clean["outcome"], "exc": clean["exc"], "fired": [], "lingering": 0,
           "aevents": clean["aevents"], "keys": clean["keys"], "before": {}, "after": clean["after"], "obs": clean["obs"]}
    case = {"steps": [{"plan": []}], "_vis_before": [{}], "target": None}
    evaluate(ctx, ev, cfg, clean, case, [rec], stats)
    return ok


# ---------------------------------------------------------------------------------------------
# Coq cross-check of the extraction
# ---------------------------------------------------------------------------------------------

def coq_z(n):
    return "(%d)" % n


def coq_list(xs):
    return "[" + "; ".join(xs) + "]"


def coq_meta(m):
    return "(mkMeta %s %s %s)" % (coq_list(["(%s, %s)" % (coq_z(i), coq_z(n)) for i, n in m[2]]),
                                  "true" if m[0] else "false", "true" if m[1] else "false")


def coq_op(op):
    t = op[0]
    if t == "wtmp":
        return "(OWriteTmp %s %s)" % (coq_z(op[1]), coq_z(op[2]))
    if t == "rename":
        return "(ORenameChunk %s)" % coq_z(op[1])
    if t == "meta":
        return "(OWriteMeta %s)" % coq_meta(op[1:4])
    return {"mktemp": "OMkTemp", "rmtemp": "ORmTemp", "rmfinal": "ORmFinal", "rendir": "ORenameDir",
            "upexc": "OUpExc"}.get(t, "OOther")


COQ_OUTCOME = {"done": "Done", "none": "(Failed ENone)", "trunc": "(Failed ETrunc)", "full": "(Failed EFull)"}


def coq_events(aevs):
    return coq_list(["(%s, %s)" % (coq_op(op), COQ_OUTCOME[oc]) for op, oc, _ in aevs])


def coq_dir(d):
    if d is None:
        return "None"
    items = []
    for fn, c in d:
        f = "FMeta" if fn[0] == "meta" else "(FChunk %s)" % coq_z(fn[1]) if fn[0] == "c" else "(FTmp %s)" % coq_z(fn[1])
        if c[0] == "chunk":
            cc = "(CChunk %s %s)" % (coq_z(c[1]), "true" if c[2] else "false")
        elif c[1] is None:
            cc = "(CMeta None)"
        else:
            cc = "(CMeta (Some %s))" % coq_meta(c[1])
        items.append("(%s, %s)" % (f, cc))
    return "(Some %s)" % coq_list(items)


def coq_fs(afs):
    return "(mkFs %s %s)" % (coq_dir(afs["temp"]), coq_dir(afs["final"]))


def coq_load(s):
    if s.startswith("ok["):
        body = s[3:-1]
        items = ["None" if x == "e" else "(Some %s)" % coq_z(int(x)) for x in body.split(",")] if body else []
        return "(Ok %s)" % coq_list(items)
    return "(Err %s)" % coq_z(int(s[3:]))


def coq_stored(s):
    return "(Ok true)" if s == "1" else "(Ok false)" if s == "0" else "(Err %s)" % coq_z(int(s[3:]))


def dsize_of(fs_s, which):
    # fs string "T{..}F{..}" / "T-F{..}"
    t, f = fs_s[1:].split("F", 1) if fs_s.startswith("T-") else (fs_s[1:fs_s.index("}F") + 1], fs_s[fs_s.index("}F") + 2:])
    part = t if which == "temp" else f
    if part == "-":
        return -1
    body = part[1:-1]
    return 0 if not body else len(body.split(";"))


def coq_state(m):
    return "(%s, %s, %s, %s, %s)" % ("true" if m["vis"] == "1" else "false", coq_stored(m["stored"]), coq_load(m["load"]),
                                     coq_z(dsize_of(m["fs"], "temp")), coq_z(dsize_of(m["fs"], "final")))


# ---------------------------------------------------------------------------------------------
# run
# ---------------------------------------------------------------------------------------------

def run(ctx):
    t_start = time.time()
    os.makedirs(TMP, exist_ok=True)
    stats = {k: 0 for k in ("replay", "request", "rejected", "inconclusive", "variant_expected", "variant_pinned",
                            "variant_close_unrecorded", "variant_neither", "d3_cases", "close_lost_cases")}
    configs = thorough_configs() if ctx.thorough else QUICK_CONFIGS
    # seconds for the fault sweep (counted from its start); what does not fit is reported in the evidence
    # (anchor / constant drift escalates the quick tier: thorough fault actions, longer budget)
    budget = float(os.environ.get("C04_BUDGET", 0) or ((24 * 60) if ctx.thorough else 95 if ctx.escalated() else 75))
    nproc = min(16, os.cpu_count() or 4)
    dist = {}
    crossx = []
    try:
        # warm up once, here: the pool workers are forked from this process and inherit the compiled kernels
        runner.warmup(TMP)
        with ProcessPoolExecutor(max_workers=nproc, mp_context=mp.get_context("fork"), initializer=_init_worker) as pool:
            # corpus first
            for obj in load_corpus():
                replay(ctx, obj, pool=pool)
            phases = {"pool_start": round(time.time() - t_start, 1)}
            cleans = list(pool.map(_w_clean, configs))
            phases["clean_runs"] = round(time.time() - t_start, 1)
            # the retry after the death of a forked saver (a history outside the sweep and outside the model):
            # judged by the property predicate on the implementation
            left_cases = c04_leftover.cases(ctx.thorough or ctx.escalated())
            left_dist, left_reported = {}, 0
            for lc, (lkey, lnontriv, lfail) in zip(left_cases, pool.map(_w_left, left_cases)):
                left_dist[lkey] = left_dist.get(lkey, 0) + 1
                ctx.count(c04_leftover.UNIT, 1, 1 if lnontriv else 0)
                if lfail and left_reported < 3:
                    left_reported += 1
                    ctx.violation(c04_leftover.UNIT, lfail[0], lfail[1])
            ctx.coverage["distribution"][c04_leftover.UNIT] = left_dist
            phases["forked_leftover_retry"] = round(time.time() - t_start, 1)
            ev = Eval()
            all_cases = []
            for ci, (cfg, clean) in enumerate(zip(configs, cleans)):
                if not check_clean(ctx, ev, cfg, clean, stats):
                    continue
                ctx.sample({"config": cfg_name(cfg), "keys": clean["keys"],
                            "clean_trace": {k: ab.s_events(tup_events(v)) for k, v in clean["aevents"].items()}})
                cases = make_cases(ctx, ci, cfg, clean)
                for j, c in enumerate(cases):
                    c["id"] = (ci, j)
                all_cases.append(cases)
            ev.run()
            # order (deterministic for a given VERIF_SEED): first one case per (configuration, operation kind
            # [saver thread / pool worker, metadata / chunk file], fault action), so that even a run cut short by
            # the time budget has exercised every kind of operation with every kind of fault; then everything
            # else in a seeded shuffle
            first, rest, seen_cls = [], [], {}
            rank = {"raise": 0, "plugin_exception": 0, "exit_before": 1, "raise_mid": 2, "exit_mid": 2, "exit_after": 3,
                    "raise_after": 4, "multi": 5}
            for cases in all_cases:
                for c in cases:
                    sid = c["steps"][0]["plan"][0][0] if c["steps"][0].get("plan") else None
                    cls = (c["id"][0], c["kind"], c["worker"], bool(sid) and sid[2].endswith("metadata.json"), c["action"])
                    if cls not in seen_cls:
                        # sort key: fault action first (an OSError at every kind of operation of every
                        # configuration comes before the first process death), then round-robin over configurations
                        seen_cls[cls] = len([1 for k2 in seen_cls if k2[0] == cls[0] and k2[4] == cls[4]])
                        first.append((rank.get(c["action"], 9), seen_cls[cls], c["id"][0], c))
                    else:
                        rest.append(c)
            first = [x[3] for x in sorted(first, key=lambda x: x[:3])]
            ctx.rng.shuffle(rest)
            order = first + rest
            ctx.coverage["priority_cases"] = len(first)
            first_ids = {c["id"] for c in first}
            prio_done = 0
            by_id = {c["id"]: c for c in order}
            t_sweep = time.time()
            done_cases = 0
            skipped = 0
            ev = Eval()
            it = iter(order)
            inflight = set()
            exhausted = False
            while True:
                while not exhausted and len(inflight) < nproc + 2:
                    if time.time() - t_sweep > budget:
                        exhausted = True
                        break
                    c = next(it, None)
                    if c is None:
                        exhausted = True
                        break
                    f = pool.submit(_w_case, {k: v for k, v in c.items() if k != "_vis_before"})
                    inflight.add(f)
                if not inflight:
                    break
                fdone = next(iter(wait(inflight, return_when=FIRST_COMPLETED)[0]))
                inflight.discard(fdone)
                r = fdone.result()
                c = by_id[tuple(r["id"])]
                cfg = c["cfg"]
                clean = cleans[r["id"][0]]
                c["_vis_before"] = vis_chain(r["recs"])
                evaluate(ctx, ev, cfg, clean, c, r["recs"], stats)
                done_cases += 1
                if tuple(r["id"]) in first_ids:
                    prio_done += 1
                if done_cases % 200 == 0:
                    print("C04: %d/%d cases, %.0fs" % (done_cases, len(order), time.time() - t_sweep), file=sys.stderr)
                fired = bool(r["recs"] and (r["recs"][0]["fired"] or r["recs"][0].get("crash_at")))
                key = "%s|%s|%s" % (cfg_name(cfg), c["kind"], c["action"])
                dist[key] = dist.get(key, 0) + 1
                ctx.count("fault_sweep", len(r["recs"]), 1 if fired else 0)
                if len(crossx) < 40 and (r["id"][0] * 7919 + r["id"][1] * 31 + ctx.seed) % 37 == 0:
                    crossx.append((cfg, clean, c, r["recs"]))
            skipped = len(order) - done_cases
            phases["sweep_done"] = round(time.time() - t_start, 1)
            ev.run()
            phases["model_evaluated"] = round(time.time() - t_start, 1)
    finally:
        shutil.rmtree(TMP, ignore_errors=True)

    # extraction cross-check inside Coq on a sample of replay lines
    n_x, xfails = crosscheck(ctx, crossx)
    phases["coq_crosscheck"] = round(time.time() - t_start, 1)
    ctx.coverage["phase_seconds_since_start"] = phases
    ctx.count("trace_validation", len(configs), len(configs), {cfg_name(c): 1 for c in configs})
    ctx.coverage["distribution"]["fault_sweep"] = dist
    ctx.coverage["rule"] = ("fault_sweep: one evaluation = one Context.make run observed by a fresh Context; a case is non-trivial "
                            "when its first injected fault (or plugin exception) really fired; cases are distinct by "
                            "(configuration, operation point, fault action)")
    ctx.coverage["model_checks"] = stats
    ctx.coverage["cases_total"] = sum(len(c) for c in all_cases)
    ctx.coverage["cases_run"] = done_cases
    ctx.coverage["priority_cases_run"] = prio_done
    ctx.coverage["cases_skipped_by_time_budget"] = skipped
    ctx.coverage["coq_crosscheck"] = {"equations": n_x, "failures": len(xfails)}
    matches = "PINNED (failures of pooled chunk writes are swallowed: D3, the state before fix df54c5e)" if stats.get("variant_pinned") \
        else "Fixed, but a failing Saver.close is lost on the threaded processor (close_unrecorded)" if stats.get("variant_close_unrecorded") \
        else "Fixed with close failures reported (expected), %d faulted cases at pooled writes" % stats.get("worker_fault_expected", 0)
    ctx.coverage["save_from_variant_matched"] = matches
    ctx.notes.append("Saver.save_from matches model variant: " + matches)
    if skipped:
        ctx.notes.append("%d of %d cases were not run because the time budget of %ds was used up" % (skipped, len(order), budget))
    for f in xfails:
        ctx.violation("extraction", "Coq vm_compute and the extracted OCaml model disagree: " + f[-300:],
                      {"input": "corr:C04/extraction/crosscheck", "log": f}, no_failing_input=True)
    ctx.assumptions += [
        "file system: rename, mkdir, rmtree atomic; a write may leave any prefix; process death loses nothing already renamed; no power-loss reordering (no fsync modelled)",
        "one writer per data key; other backends (mongo, zip) and forked (multi-process) savers are outside the model (the retry after an abandoned forked saver is exercised on the implementation only: unit forked_leftover_retry)",
        "payload identity = sha1 of the bytes handed to write(); numpy/compressor round trip is C03's concern",
    ]


def crosscheck(ctx, crossx):
    eqs = []
    lines = []
    metas = []
    for cfg, clean, c, recs in crossx:
        vb = vis_chain(recs)
        for si, rec in enumerate(recs):
            for k, aevs in rec["aevents"].items():
                if k not in clean["expected"]:
                    continue
                aevs = tup_events(aevs)
                if any(oc == "partial" for _, oc, _ in aevs):
                    continue
                fs0 = _fs(rec["before"].get(k, EMPTY_FS))
                if not encodable(fs0):
                    continue
                allow = not vb[si].get(runner.key_dtype(k), False)
                lines.append(line_replay(allow, clean["expected"][k], fs0, aevs))
                metas.append((allow, clean["expected"][k], fs0, aevs))
    n_eq = 40 if ctx.thorough else 12
    lines, metas = lines[:n_eq], metas[:n_eq]
    outs = lib.run_model("C04", lines) if lines else []
    for (allow, expected, fs0, aevs), out in zip(metas, outs):
        m = parse_out(out)
        rej = "None" if m["rej"] == "-1" else "(Some %s%%nat)" % m["rej"]
        st = "None" if m.get("run") != "1" else "(Some %s)" % coq_state(m)
        ex = coq_list(["(%s, %s, %s)" % (coq_z(i), coq_z(n), coq_z(v)) for i, n, v in expected])
        eqs.append("c04_replay %s %s %s %s = (%s, %s)" % ("true" if allow else "false", ex, coq_fs(fs0), coq_events(aevs), rej, st))
    if not eqs:
        return 0, []
    return lib.coq_crosscheck("C04", "From SV Require Import Model.FsProtocol Model.SaverRun Model.C04Run.\nOpen Scope Z_scope.", eqs, shard=30)


def load_corpus():
    d = os.path.join(lib.VERIF, "corpus", "C04")
    out = []
    if os.path.isdir(d):
        for f in sorted(os.listdir(d)):
            if f.endswith(".json"):
                out.append(json.load(open(os.path.join(d, f))))
    return out


def replay(ctx, obj, pool=None):
    """Re-run one concrete case {"input": {"config":..., "steps":[...]}}; 1 if the property fails on it."""
    r = obj.get("replay", obj)
    inp = r.get("input")
    if inp == D3_INPUT or (isinstance(inp, dict) and "config" not in inp):
        case_desc = r.get("case") or {}
        cfg = case_desc.get("config") or QUICK_CONFIGS[1]
        steps = case_desc.get("case") or None
        if steps is None:
            # the canonical D3 witness: OSError in the write of chunk 1 on a worker thread
            os.makedirs(TMP, exist_ok=True)
            runner.warmup(TMP)
            clean = runner.clean_trace(cfg, TMP)
            pts = [p for p in op_points(clean) if p[1] == "write" and p[2]]
            steps = [{"plan": [[list(pts[min(1, len(pts) - 1)][0]), "raise"]]}]
    elif isinstance(inp, dict):
        cfg, steps = inp["config"], inp["steps"]
    else:
        print("replay: %r names a correspondence, not a concrete input" % (inp,))
        return 0
    os.makedirs(TMP, exist_ok=True)
    runner.warmup(TMP)
    case = {"id": (0, 0), "cfg": cfg, "steps": steps, "target": r.get("target")}
    recs = runner.run_case(case, TMP)
    bad = []
    for si, rec in enumerate(recs):
        last = si == len(steps) - 1
        bad += property_failures(cfg, case, si, rec, last)
    for unit, what, _ in bad:
        print("property fails (%s): %s" % (unit, what))
    if pool is not None and bad:
        for unit, what, _ in bad:
            ctx.violation(unit, what, {"input": {"config": cfg, "steps": steps}})
    return 1 if bad else 0
