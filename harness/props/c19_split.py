"""C19 units: PeakSplitter._split_peaks and LocalMinimumSplitter.find_split_points vs Model/Splitting.v.

split_points: _split_peaks driven by a numba split finder that yields a given list of split points.
local_minimum: _split_peaks with the real LocalMinimumSplitter.find_split_points on integer waveforms.
natural_breaks: implementation-only tiling predicate (the goodness-of-split floats are not modelled).
"""
import itertools
import os

import numba
import numpy as np
import strax
from strax.processing import peak_splitting as ps

from harness import lib
from harness.props.c19_common import Unit, big, crosscheck, peak_dt, zl

NS = 8


@numba.njit(nogil=True)
def fixed_finder(w, dt, peak_i, splits):
    for s in splits:
        yield s, 0.0
    yield ps.NO_MORE_SPLITS, 0.0


class _Quiet:
    """_split_peaks prints the waveform from numba before raising: keep our stdout clean."""

    def __enter__(self):
        self.saved = os.dup(1)
        self.null = os.open(os.devnull, os.O_WRONLY)
        os.dup2(self.null, 1)

    def __exit__(self, *a):
        os.dup2(self.saved, 1)
        os.close(self.null)
        os.close(self.saved)


def mk_peak(t, dt, area, w):
    p = np.zeros(1, dtype=peak_dt(2, NS))
    p["time"], p["dt"], p["length"], p["area"] = t, dt, len(w), area
    p["data"][0, :len(w)] = w
    return p


_SPLIT_RAW = ps.PeakSplitter._split_peaks.__wrapped__


def run_split(splitter, finder, p, orig_dt, min_area, args, public=False):
    is_split = np.zeros(len(p), dtype=bool)
    try:
        if public:
            new = splitter._split_peaks(split_finder=finder, peaks=p, is_split=is_split, orig_dt=orig_dt,
                                        min_area=min_area, args_options=args, result_dtype=p.dtype)
        else:
            # the numba generator under @growing_result, with a small result buffer of our own
            buf = np.zeros(3, dtype=p.dtype)
            saved = [buf[:k].copy() for k in _SPLIT_RAW(finder, p, orig_dt, is_split, min_area, args,
                                                        _result_buffer=buf)]
            new = np.concatenate(saved) if saved else np.zeros(0, dtype=p.dtype)
    except ValueError:
        return "err 1"
    return (bool(is_split[0]), [(int(x["time"]), int(x["length"]), int(x["dt"])) for x in new])


_LMS = ps.LocalMinimumSplitter()
_NBS = ps.NaturalBreaksSplitter()


def tiling_reason(t, dt, n, orig_dt, out):
    """children tile the parent [t, t + n*dt): consecutive, positive, first start = t, last end = parent end"""
    if not isinstance(out, tuple):
        return None
    is_split, ch = out
    if not is_split:
        return "children without is_split" if ch else None
    if not ch:
        return "is_split but no children"
    if ch[0][0] != t:
        return "first child starts at %d, parent at %d" % (ch[0][0], t)
    for a, b in zip(ch, ch[1:]):
        if a[0] + a[1] * a[2] != b[0]:
            return "child [%d,%d) is followed by a child starting at %d" % (a[0], a[0] + a[1] * a[2], b[0])
    if any(c[1] <= 0 for c in ch):
        return "child of non-positive length"
    last = ch[-1][0] + ch[-1][1] * ch[-1][2]
    if last != t + n * dt:
        return "children end at %d, parent [%d,%d) ends at %d" % (last, t, t + n * dt, t + n * dt)
    return None


def parse(mo):
    if mo.startswith("err"):
        return mo
    v = list(map(int, mo.split()[1:]))
    return (bool(v[0]), [tuple(v[2 + 3 * i: 5 + 3 * i]) for i in range(v[1])])


# ------------------------------------------------------------------------------------------------
NAME_SP = "split_points"
RULE_SP = ("split_points: _split_peaks on one parent of 1..7 (thorough 8) samples with dt in {1,2,4}, orig_dt in {1,2}, "
           "area above/below min_area, and EVERY increasing list of split points out of 0..n (plus a few "
           "non-increasing ones), fed through a numba split finder; non-trivial = >= 2 children; distinct by JSON.")


def unit_sp(ctx):
    with _Quiet():
        _unit_sp(ctx)


def _unit_sp(ctx):
    u = Unit(ctx, NAME_SP)
    cases = []
    nmax = 8 if big(ctx) else 7
    for n in range(1, nmax + 1):
        for k in range(0, n + 2):
            for splits in itertools.combinations(range(0, n + 1), k):
                for dt, orig_dt in ((1, 1), (2, 1), (4, 2), (2, 2), (1, 2)):
                    cases.append((100, dt, 5, 0, orig_dt, n, list(splits)))
        cases.append((100, 2, 5, 6, 1, n, [1, n]))       # area below min_area
        cases.append((100, 2, 5, 0, 1, n, [n, 1]))       # decreasing
        cases.append((100, 2, 5, 0, 1, n, [1, 1, n]))    # repeated
    lines = ["split %d %d %d %d %d %d %s" % (t, dt, area, mina, odt, len(s), " ".join(map(str, s)))
             for t, dt, area, mina, odt, n, s in cases]
    mout = lib.run_model_parallel("C19", lines)
    for (t, dt, area, mina, odt, n, splits), mo in zip(cases, mout):
        p = mk_peak(t, dt, area, [1] * n)
        out = run_split(_LMS, fixed_finder, p, odt, mina, (np.array(splits, dtype=np.int64),), public=(u.n % 40 == 0))
        mexp = parse(mo)
        u.n += 1
        u.tally("err" if out == "err 1" else ("children=%d" % min(len(out[1]), 3)))
        if isinstance(out, tuple) and len(out[1]) >= 2:
            u.nontriv.add(lib.canon([t, dt, odt, n, splits]))
        inp = {"t": t, "dt": dt, "area": area, "min_area": mina, "orig_dt": odt, "n": n, "splits": splits}
        good = dt % odt == 0 and splits and splits[-1] == n and all(a < b for a, b in zip([0] + splits, splits))
        reason = None
        if good:
            reason = tiling_reason(t, dt, n, odt, out) or ("raised on well-formed split points" if out == "err 1" else None)
        if out != mexp:
            u.report(inp, str(out), str(mexp), reason)
            if u.bad > 5:
                break
        elif reason:
            u.report(inp, str(out), str(mexp), "implementation AND model: " + reason)
    u.done()
    k = len(cases) // 2
    ctx.sample({"unit": u.name, "case(t,dt,area,min_area,orig_dt,n,splits)": cases[k], "model": mout[k]})


def replay_sp(inp):
    with _Quiet():
        out = _replay_out_sp(inp)
    reason = tiling_reason(inp["t"], inp["dt"], inp["n"], inp["orig_dt"], out)
    print("impl:", out, "spec:", reason or "holds")
    return 1 if reason else 0


def _replay_out_sp(inp):
    p = mk_peak(inp["t"], inp["dt"], inp["area"], [1] * inp["n"])
    return run_split(_LMS, fixed_finder, p, inp["orig_dt"], inp["min_area"], (np.array(inp["splits"], dtype=np.int64),))


# ------------------------------------------------------------------------------------------------
NAME_LM = "local_minimum_split"
RULE_LM = ("local_minimum_split: _split_peaks with LocalMinimumSplitter.find_split_points on all waveforms of 1..6 "
           "(thorough 7) samples over {0..3} with (min_height, min_ratio) in {(0,0),(1,0),(0,2),(1,2),(2,1)}, dt 2, "
           "orig_dt 1; plus the natural-breaks splitter on the same waveforms with threshold 0.4 for the tiling "
           "predicate only; non-trivial = at least one split; distinct by (waveform, options).")

NB_WITNESS = {"w": [3, 3, 0, 0, 0, 0, 3, 3], "threshold": 0.4, "t": 100, "dt": 2, "orig_dt": 1}


def nb_run(w, threshold, t=100, dt=2, orig_dt=1):
    p = mk_peak(t, dt, sum(w), w)
    return run_split(_NBS, _NBS.find_split_points, p, orig_dt, 0, (np.array([threshold]), False, False, 0))


def unit_lm(ctx):
    with _Quiet():
        _unit_lm(ctx)


def _unit_lm(ctx):
    u = Unit(ctx, NAME_LM)
    cases = []
    nmax = 7 if big(ctx) else 6
    opts = ((0, 0), (1, 0), (0, 2), (1, 2), (2, 1))
    for n in range(1, nmax + 1):
        for w in itertools.product(range(4), repeat=n):
            for mh, mr in (opts if n <= 5 or big(ctx) else opts[1:3]):
                cases.append((list(w), mh, mr))
    lines = ["split_lm 100 2 %d 0 1 %d %d %d %s" % (sum(w), mh, mr, len(w), " ".join(map(str, w))) for w, mh, mr in cases]
    mout = lib.run_model_parallel("C19", lines)
    for (w, mh, mr), mo in zip(cases, mout):
        p = mk_peak(100, 2, sum(w), w)
        out = run_split(_LMS, _LMS.find_split_points, p, 1, 0, (mh, mr), public=(u.n % 40 == 0))
        mexp = parse(mo)
        u.n += 1
        u.tally("err" if out == "err 1" else ("children=%d" % min(len(out[1]), 3)))
        if isinstance(out, tuple) and out[0]:
            u.nontriv.add((tuple(w), mh, mr))
        inp = {"w": w, "min_height": mh, "min_ratio": mr, "t": 100, "dt": 2, "orig_dt": 1}
        reason = tiling_reason(100, 2, len(w), 1, out) or ("ValueError from a split at index 0" if out == "err 1" else None)
        if out != mexp:
            u.report(inp, str(out), str(mexp), reason)
            if u.bad > 5:
                break
        elif reason:
            u.report(inp, str(out), str(mexp), "implementation AND model: " + reason)
    # natural breaks (theorem C19_natural_breaks_split_tiles_parent; the goodness-of-split floats are not modelled):
    # whenever the real splitter splits, it must produce two children tiling the parent
    n_nb = n_split = n_bad = 0
    for n in range(2, 6):
        for w in itertools.product((0, 1, 3), repeat=n):
            if sum(w) == 0:
                continue
            out = nb_run(list(w), 0.4)
            n_nb += 1
            reason = tiling_reason(100, 2, n, 1, out)
            if isinstance(out, tuple) and out[0]:
                n_split += 1
                if reason is None and len(out[1]) != 2:
                    reason = "%d children from one natural-breaks split" % len(out[1])
            if reason and n_bad < 3:
                n_bad += 1
                ctx.violation(u.name, "NaturalBreaksSplitter: " + reason + " %s" % (out,),
                              {"input": {"w": list(w), "threshold": 0.4, "t": 100, "dt": 2, "orig_dt": 1}})
    u.dist["natural_breaks_runs"] = n_nb
    u.dist["natural_breaks_splits"] = n_split
    wt = NB_WITNESS
    out = nb_run(wt["w"], wt["threshold"], wt["t"], wt["dt"], wt["orig_dt"])
    reason = tiling_reason(wt["t"], wt["dt"], len(wt["w"]), wt["orig_dt"], out)
    if reason:
        ctx.violation(u.name, "NaturalBreaksSplitter: " + reason + " %s" % (out,), {"input": wt})
    u.done()
    k = len(cases) // 2
    ctx.sample({"unit": u.name, "w": cases[k][0], "min_height": cases[k][1], "min_ratio": cases[k][2], "model": mout[k]})
    idxs = sorted(ctx.rng.sample(range(len(cases)), 80))
    eqs = []
    for i in idxs:
        w, mh, mr = cases[i]
        m = parse(mout[i])
        rhs = "Err (1)" if isinstance(m, str) else "Ok (%s, [%s])" % (
            "true" if m[0] else "false", "; ".join("mkchild (%d) (%d) (%d)" % c for c in m[1]))
        eqs.append("split_peak_local_minimum 100 2 (%d) 0 1 %s (%d) (%d) = %s" % (sum(w), zl(w), mh, mr, rhs))
    crosscheck(ctx, u.name, eqs, "From SV Require Import Model.Splitting.")


def replay_lm(inp):
    if "threshold" in inp:
        out = nb_run(inp["w"], inp["threshold"], inp["t"], inp["dt"], inp["orig_dt"])
    else:
        p = mk_peak(inp["t"], inp["dt"], sum(inp["w"]), inp["w"])
        out = run_split(_LMS, _LMS.find_split_points, p, inp["orig_dt"], 0, (inp["min_height"], inp["min_ratio"]))
    reason = tiling_reason(inp["t"], inp["dt"], len(inp["w"]), inp["orig_dt"], out)
    print("impl:", out, "spec:", reason or "holds")
    return 1 if reason else 0


class _U:
    def __init__(self, name, rule, unit, replay):
        self.NAME, self.RULE, self.unit, self.replay = name, rule, unit, replay


SP = _U(NAME_SP, RULE_SP, unit_sp, replay_sp)
LM = _U(NAME_LM, RULE_LM, unit_lm, replay_lm)
