"""C07 — laws of chunking: split_array, Chunk.split, concatenate, continuity_check, Rechunker."""
import itertools

import numpy as np
import strax

from harness import gen, impl, lib

MODEL_PROPS = ["C07"]
LEVEL = "proof"
NONE_RUN = -999999

ERRMAP = [
    ("negative start time", 1), ("negative length", 2), ("starts early", 3), ("ends late", 4),
    ("Need at least one chunk", 20), ("different data types", 21), ("different run ids", 22),
    ("overlapping or out-of-order", 23), ("Target size is too small", 30), ("infinite loop", 31),
    ("argmin of an empty", 32), ("at least one chunk to merge", 40), ("different data kinds", 41),
    ("different run_ids", 42), ("different number of items", 43), ("different time ranges", 44),
]


def err_code(e):
    if isinstance(e, strax.CannotSplit):
        return 10
    if isinstance(e, IndexError):
        return 33
    msg = str(e)
    for k, v in ERRMAP:
        if k in msg:
            return v
    return "%s:%s" % (type(e).__name__, msg[:80])


# ------------------------------------------------------------------------------------------
# abstract chunk <-> real chunk
# ------------------------------------------------------------------------------------------

def achunk(s, e, rows, dt=1, kind=1, run=7, tgt=4):
    return {"s": s, "e": e, "rows": [tuple(r) for r in rows], "dt": dt, "kind": kind, "run": run, "tgt": tgt}


def enc_chunk(c):
    return "%d %d %d %d %d %d %s" % (c["s"], c["e"], c["dt"], c["kind"],
                                     NONE_RUN if c["run"] is None else c["run"], c["tgt"], impl.enc_rows(c["rows"]))


def real_chunk(c, enc="endtime"):
    a = impl.mk_array(c["rows"], enc)
    return strax.Chunk(start=c["s"], end=c["e"], data=a, dtype=a.dtype, data_type="dt%d" % c["dt"],
                       data_kind="k%d" % c["kind"], run_id=None if c["run"] is None else str(c["run"]),
                       target_size_mb=(c["tgt"] + 0.5) * a.itemsize / 1e6)


def show_real(ch):
    run = NONE_RUN if ch.run_id is None else int(ch.run_id)
    return "[%d %d run=%d n=%d ids=%s]" % (ch.start, ch.end, run, len(ch), ",".join(str(x) for x in impl.ids_of(ch.data)))


def parse_show(s):
    """'[s e run=R n=N ids=a,b]' -> (s, e, run, [ids])"""
    s = s.strip("[]").split()
    ids = s[4][4:]
    return int(s[0]), int(s[1]), int(s[2][4:]), [int(x) for x in ids.split(",")] if ids else []


def parse_shows(out):
    return [parse_show(x) for x in out.replace("] [", "]|[").split("|")] if out else []


def straddled(rows, y):
    return any(r[0] < y < r[1] for r in rows)


def guarded(f):
    try:
        return f()
    except Exception as e:  # noqa
        return "err %s" % err_code(e)


# ------------------------------------------------------------------------------------------
# split_array
# ------------------------------------------------------------------------------------------

def spec_split_array(rows, t, early, out):
    """None if the implementation's output satisfies C07_split_array_spec, else a reason."""
    if out == "CannotSplit":
        if early:
            return "raised CannotSplit although early splitting was allowed"
        if not straddled(rows, t):
            return "refused to split at %d although no row straddles it" % t
        return None
    nl, nr, t2 = out
    if nl + nr != len(rows) or nl < 0:
        return "rows lost, duplicated or reordered"
    l, r = rows[:nl], rows[nl:]
    if any(q[1] > t2 for q in l):
        return "a left row ends after the split time"
    if any(q[0] < t2 for q in r):
        return "a right row starts before the split time"
    if t2 > t:
        return "split time moved later"
    if not early and t2 != t:
        return "split time moved although early splitting was not allowed"
    for y in range(t2 + 1, t + 1):
        if not straddled(rows, y):
            return "early split at %d although %d was admissible (later)" % (t2, y)
    return None


def impl_split_array(rows, t, early, enc):
    a = impl.mk_array(rows, enc)
    try:
        l, r, t2 = strax.split_array(a, t, allow_early_split=bool(early))
    except strax.CannotSplit:
        return "CannotSplit"
    if impl.ids_of(l) + impl.ids_of(r) != [q[2] for q in rows]:
        return (-1, -1, int(t2))
    return (len(l), len(r), int(t2))


def diff_unit(ctx, unit, cases, lines, impl_fn, spec_fn, nontrivial_fn, show_case, dist_fn=None, search_fn=None):
    """Generic correspondence loop: run model on `lines`, impl on `cases`, diff, evaluate spec.
    On a model/implementation disagreement without a failing input, `search_fn()` supplies further
    cases (the thorough generator) on which only the implementation and the law are evaluated."""
    mout = lib.run_model_parallel("C07", lines)
    nontriv = set()
    dist = {}
    bad = 0
    for idx, (case, mo) in enumerate(zip(cases, mout)):
        out = impl_fn(case, idx)
        if dist_fn:
            k = dist_fn(case, out)
            dist[k] = dist.get(k, 0) + 1
        if nontrivial_fn(case, out):
            nontriv.add(lib.canon(show_case(case)))
        reason = spec_fn(case, out)
        if reason:
            ctx.violation(unit, "%s violates the chunking law: %s (impl %s, model %s)" % (unit, reason, out, mo),
                          {"input": show_case(case), "impl": out, "model": mo, "unit": unit})
            bad += 1
        elif out != mo:
            ctx.violation(unit, "model/implementation disagree on %s (impl %s, model %s); the law itself holds "
                          "on this input" % (unit, out, mo),
                          {"input": "corr:C07/%s" % unit, "case": show_case(case), "impl": out, "model": mo,
                           "unit": unit}, no_failing_input=True)
            bad += 1
        if bad > 6:
            break
    n_search = 0
    if bad and search_fn and not any((not v["nfi"]) and v["unit"] == unit for v in ctx.violations):
        # search the implementation for a concrete failing input (DESIGN 2.2 step 5)
        for j, case in enumerate(search_fn()):
            n_search += 1
            out = impl_fn(case, j)
            reason = spec_fn(case, out)
            if reason:
                ctx.violation(unit, "%s violates the chunking law: %s (impl %s) [found by the escalated search]"
                              % (unit, reason, out), {"input": show_case(case), "impl": out, "unit": unit})
                break
        ctx.notes.append("%s: escalated search evaluated %d further cases" % (unit, n_search))
    ctx.count(unit, len(cases) + n_search, len(nontriv), dist)
    if cases:
        k = len(cases) // 3
        ctx.sample({"unit": unit, "case": show_case(cases[k]), "model": mout[k]})
    return mout


def unit_split_array(ctx):
    cases = []
    nmax = 4 if (ctx.thorough or ctx.escalated()) else 3
    grid = 6
    for rows in gen.sorted_row_lists(nmax, grid, 3):
        for t in range(-1, grid + 4):
            for early in (0, 1):
                cases.append((rows, t, early))
    for _ in range(30000 if ctx.thorough else 3000):
        n = ctx.rng.randint(1, 40)
        rows = gen.random_rows(ctx.rng, n, 200, 12)
        lo, hi = rows[0][0] - 2, max(r[1] for r in rows) + 2
        t = ctx.rng.choice([ctx.rng.randint(lo, hi), ctx.rng.choice(rows)[0], ctx.rng.choice(rows)[1]])
        cases.append((rows, t, ctx.rng.randint(0, 1)))
    lines = ["split_array %d %d %s" % (t, early, impl.enc_rows(rows)) for rows, t, early in cases]

    def impl_fn(case, idx):
        out = impl_split_array(case[0], case[1], case[2], "endtime" if idx % 2 == 0 else "length")
        return out if out == "CannotSplit" else "ok %d %d %d" % out

    def spec_fn(case, out):
        o = out if out == "CannotSplit" else tuple(int(x) for x in out.split()[1:])
        return spec_split_array(case[0], case[1], bool(case[2]), o)

    mout = diff_unit(
        ctx, "split_array", cases, lines, impl_fn, spec_fn,
        lambda c, o: len(c[0]) >= 2 and c[0][0][0] < c[1] <= max(r[1] for r in c[0]),
        lambda c: {"rows": c[0], "t": c[1], "early": c[2]},
        lambda c, o: "CannotSplit" if o == "CannotSplit" else ("ok_exact" if int(o.split()[3]) == c[1] else "ok_moved"))
    idxs = sorted(ctx.rng.sample(range(len(cases)), min(150, len(cases))))
    eqs = ["c07_split_array_str %s (%d) %s = %s" % (coq_rows(cases[i][0]), cases[i][1],
                                                    "true" if cases[i][2] else "false", coq_split_out(mout[i]))
           for i in idxs]
    n, fails = lib.coq_crosscheck("C07", "From SV Require Import Model.Rows Model.SplitArray Model.C07Run.", eqs)
    ctx.coverage.setdefault("kernel_crosscheck", {})["split_array"] = {"equations": n, "failed_files": len(fails)}
    if fails:
        ctx.violation("split_array", "extracted model and Coq vm_compute disagree: " + fails[0][-400:],
                      {"input": "corr:C07/split_array/extraction-crosscheck", "log": fails[0]}, no_failing_input=True)


def coq_rows(rows):
    return "[" + "; ".join("mkrow (%d) (%d) (%d) (%d)" % tuple(r) for r in rows) + "]"


def coq_split_out(s):
    if s == "CannotSplit":
        return "None"
    _, a, b, c = s.split()
    return "(Some (%s%%nat, %s%%nat, (%s)))" % (a, b, c)


# ------------------------------------------------------------------------------------------
# Chunk.split  (+ concatenate as its inverse)
# ------------------------------------------------------------------------------------------

def chunk_ranges(rows, slack=1):
    lo = min([r[0] for r in rows], default=2)
    hi = max([r[1] for r in rows], default=2)
    for s in sorted({max(0, lo - slack), lo}):
        for e in sorted({max(hi, s), max(hi, s) + slack}):
            yield s, e


def spec_chunk_split(case, out):
    c, t0, early = case
    rows = c["rows"]
    t = max(min(t0, c["e"]), c["s"])
    if out.startswith("err"):
        if out != "err 10":
            return "unexpected error %s from a valid chunk" % out
        if early:
            return "CannotSplit although early splitting was allowed"
        if not straddled(rows, t):
            return "refused to split at %d although no row straddles it" % t
        return None
    (s1, e1, r1, i1), (s2, e2, r2, i2) = parse_shows(out[3:])
    if i1 + i2 != [r[2] for r in rows]:
        return "rows not preserved by split"
    if s1 != c["s"] or e2 != c["e"] or e1 != s2:
        return "split chunks are not adjacent over the original range"
    t2 = e1
    if any(q[1] > t2 for q in rows[:len(i1)]) or any(q[0] < t2 for q in rows[len(i1):]):
        return "a row is not entirely on one side"
    if t2 > t or (not early and t2 != t):
        return "split time wrong"
    for y in range(t2 + 1, t + 1):
        if not straddled(rows, y):
            return "early split at %d although %d was admissible" % (t2, y)
    return None


def unit_chunk_split(ctx):
    cases = []
    nmax = 3 if (ctx.thorough or ctx.escalated()) else 2
    for rows in gen.sorted_row_lists(nmax, 5, 2):
        for s, e in chunk_ranges(rows):
            for t in range(s - 1, e + 2):
                for early in (0, 1):
                    cases.append((achunk(s, e, rows), t, early))
    for _ in range(6000 if ctx.thorough else 1000):
        rows = gen.random_rows(ctx.rng, ctx.rng.randint(0, 25), 150, 10)
        s, e = ctx.rng.choice(list(chunk_ranges(rows, slack=ctx.rng.randint(1, 5))))
        pts = [s, e] + [r[0] for r in rows] + [r[1] for r in rows]
        t = ctx.rng.choice([ctx.rng.randint(s - 2, e + 2), ctx.rng.choice(pts)])
        cases.append((achunk(s, e, rows), t, ctx.rng.randint(0, 1)))
    lines = ["chunk_split %d %d %s" % (t, early, enc_chunk(c)) for c, t, early in cases]

    def impl_fn(case, idx):
        c, t, early = case

        def f():
            ch = real_chunk(c, "endtime" if idx % 2 == 0 else "length")
            c1, c2 = ch.split(t, allow_early_split=bool(early))
            # concatenate must invert the split
            back = strax.Chunk.concatenate([c1, c2])
            if (back.start, back.end, impl.ids_of(back.data)) != (ch.start, ch.end, impl.ids_of(ch.data)):
                return "CONCAT-NOT-INVERSE " + show_real(back)
            return "ok " + show_real(c1) + " " + show_real(c2)
        return guarded(f)

    def spec_fn(case, out):
        if out.startswith("CONCAT-NOT-INVERSE"):
            return "concatenate([c1, c2]) does not give back the chunk that was split: " + out
        return spec_chunk_split(case, out)

    diff_unit(ctx, "chunk_split", cases, lines, impl_fn, spec_fn,
              lambda c, o: len(c[0]["rows"]) >= 1 and c[0]["s"] < c[1] < c[0]["e"],
              lambda c: {"chunk": c[0], "t": c[1], "early": c[2]},
              lambda c, o: o.split()[0] + (" " + o.split()[1] if o.startswith("err") else ""))


# ------------------------------------------------------------------------------------------
# concatenate: acceptance / rejection verdicts
# ------------------------------------------------------------------------------------------

def clean_cuts(rows):
    """indices i (0..n) where cutting before row i straddles nothing, with the admissible time interval"""
    out = []
    mx = None
    for i in range(len(rows) + 1):
        lo = mx
        hi = rows[i][0] if i < len(rows) else None
        if lo is None or hi is None or lo <= hi:
            out.append((i, lo, hi))
        if i < len(rows):
            mx = rows[i][1] if mx is None else max(mx, rows[i][1])
    return out


def partitions(rng, rows, s, e, exhaustive=True, kmax=3):
    """contiguous well-formed chunkings of [s,e) holding `rows`: lists of (start, end, rows)."""
    cuts = []
    for i, lo, hi in clean_cuts(rows):
        lo = s if lo is None else lo
        hi = e if hi is None else hi
        for t in sorted({lo, hi, (lo + hi) // 2}):
            if s <= t <= e:
                cuts.append((t, i))
    cuts = sorted(set(cuts))
    res = []
    for k in range(0, kmax):
        for combo in itertools.combinations_with_replacement(cuts, k):
            if any(combo[j][0] > combo[j + 1][0] or combo[j][1] > combo[j + 1][1] for j in range(len(combo) - 1)):
                continue
            # equal times must have equal or increasing indices consistent with rows (zero-length rows may sit on the cut)
            bounds = [(s, 0)] + list(combo) + [(e, len(rows))]
            ok = True
            parts = []
            for (t0, i0), (t1, i1) in zip(bounds[:-1], bounds[1:]):
                part = rows[i0:i1]
                if any(r[0] < t0 or r[1] > t1 for r in part):
                    ok = False
                    break
                parts.append((t0, t1, part))
            if ok:
                res.append(parts)
    if not exhaustive and len(res) > 6:
        res = rng.sample(res, 6)
    return res


def spec_concat(case, out):
    allow, cs = case
    cs = [c for c in cs if c is not None]
    valid = (len(cs) >= 1 and len({c["dt"] for c in cs}) == 1 and (len({c["run"] for c in cs}) == 1 or allow)
             and all(a["e"] <= b["s"] for a, b in zip(cs[:-1], cs[1:])))
    if out.startswith("err"):
        if valid and len(cs) > 0:
            return "rejected a valid ordered, non-overlapping, same-type input: " + out
        return None
    if not valid:
        return "accepted out-of-order / overlapping / mismatched input"
    s, e, run, ids = parse_show(out[3:])
    if ids != [r[2] for c in cs for r in c["rows"]]:
        return "rows of the concatenation are not the concatenated rows"
    if (s, e) != (cs[0]["s"], cs[-1]["e"]):
        return "range of the concatenation is not first start .. last end"
    return None


def unit_concat(ctx):
    cases = []
    nmax = 4 if ctx.thorough else 3
    for rows in gen.sorted_row_lists(nmax, 5, 2):
        for s, e in list(chunk_ranges(rows))[:2]:
            for parts in partitions(ctx.rng, rows, s, e, exhaustive=ctx.thorough):
                if len(parts) < 2:
                    continue
                cs = [achunk(a, b, p) for a, b, p in parts]
                cases.append((0, cs))
                v = ctx.rng.random()
                if v < 0.10:
                    cases.append((0, cs[::-1]))                                   # out of order
                elif v < 0.18:
                    cs2 = [dict(c) for c in cs]
                    cs2[-1]["dt"] = 2
                    cases.append((0, cs2))                                        # other data type
                elif v < 0.28:
                    cs2 = [dict(c) for c in cs]
                    cs2[-1]["run"] = 8
                    cases.append((ctx.rng.randint(0, 1), cs2))                    # other run id
                elif v < 0.36 and cs[0]["e"] > cs[0]["s"]:
                    cs2 = [dict(c) for c in cs]
                    if all(r[1] <= cs2[1]["e"] for r in cs2[1]["rows"]) and cs2[1]["s"] - 1 >= 0 and \
                            all(r[0] >= cs2[1]["s"] - 1 for r in cs2[1]["rows"]):
                        cs2[1]["s"] -= 1                                          # overlapping ranges
                        cases.append((0, cs2))
                elif v < 0.44:
                    cs2 = [dict(c) for c in cs]
                    cs2[-1]["s"] += 0
                    cs2[-1]["e"] += 3
                    cs2 = cs2[:1] + [achunk(c["s"] + 3, c["e"] + 3, [(r[0] + 3, r[1] + 3, r[2], r[3]) for r in c["rows"]])
                                     for c in cs2[1:]]                            # gap between chunks: accepted
                    cases.append((0, cs2))
    lines = ["concat %d %d %s" % (allow, len(cs), " ".join(enc_chunk(c) for c in cs)) for allow, cs in cases]

    def impl_fn(case, idx):
        allow, cs = case
        return guarded(lambda: "ok " + show_real(strax.Chunk.concatenate(
            [real_chunk(c, "endtime" if idx % 2 == 0 else "length") for c in cs], allow_superrun=bool(allow))))

    def spec_fn(case, out):
        # with allow_superrun and different run ids strax builds superrun annotations (C14); only the
        # row / range part is judged here
        return spec_concat(case, out)

    diff_unit(ctx, "concatenate", cases, lines, impl_fn, spec_fn,
              lambda c, o: sum(len(x["rows"]) for x in c[1]) >= 2,
              lambda c: {"allow_superrun": c[0], "chunks": c[1]},
              lambda c, o: o.split()[0] + (" " + o.split()[1] if o.startswith("err") else ""))


# ------------------------------------------------------------------------------------------
# Rechunker
# ------------------------------------------------------------------------------------------

def spec_rechunk(case, out):
    cs = case
    if out.startswith("err"):
        return "the rechunker failed on a valid contiguous stream: " + out
    outs = parse_shows(out[3:])
    rows = [r for c in cs for r in c["rows"]]
    if [i for (_, _, _, ids) in outs for i in ids] != [r[2] for r in rows]:
        return "rows changed by rechunking"
    if not outs:
        return "no output chunk"
    if outs[0][0] != cs[0]["s"] or outs[-1][1] != cs[-1]["e"]:
        return "overall range changed by rechunking"
    for a, b in zip(outs[:-1], outs[1:]):
        if a[1] != b[0]:
            return "rechunked stream is not contiguous"
    in_bounds = {c["s"] for c in cs} | {c["e"] for c in cs}
    k = 0
    for (s, e, _, ids) in outs:
        part = rows[k:k + len(ids)]
        k += len(ids)
        if any(r[0] < s or r[1] > e for r in part):
            return "a row lies outside the chunk that carries it"
    for (s, e, _, ids) in outs[:-1]:
        if e not in in_bounds and straddled(rows, e):
            return "cut at %d straddles a row" % e
    return None


def rechunk_impl(cs, enc):
    rc = strax.Rechunker(rechunk=True, run_id="7")
    outs = []
    for c in cs:
        outs += rc.receive(real_chunk(c, enc))
    outs += rc.flush()
    return "ok " + " ".join(show_real(o) for o in outs)


def rechunk_cases(ctx, thorough):
    cases = []
    nmax = 5 if thorough else 4
    # starts are multiples of 600 ns so gaps fall on both sides of the 1000 ns threshold; lengths up to
    # 1500 ns so that a long early row can span a later inter-row distance
    for n in range(1, nmax + 1):
        for steps in itertools.product([0, 1, 2, 3], repeat=n - 1):
            for lens in itertools.product([0, 100, 700, 1500], repeat=n):
                if not thorough and ctx.rng.random() < (0.0 if n <= 3 else 0.9):
                    continue
                t = 600
                rows = []
                for i in range(n):
                    if i:
                        t += 600 * steps[i - 1]
                    rows.append((t, t + lens[i], i, 0))
                e = max(r[1] for r in rows)
                for parts in partitions(ctx.rng, rows, 0, e + 100, exhaustive=False, kmax=3):
                    for tgt in ([1, 2, 3] if thorough else [1, 2]):
                        cases.append([achunk(a, b, p, tgt=tgt) for a, b, p in parts])
    for _ in range(4000 if thorough else 400):
        n = ctx.rng.randint(1, 30)
        t = ctx.rng.randint(0, 50)
        rows = []
        for i in range(n):
            t += ctx.rng.choice([0, 3, 400, 900, 1001, 1500, 5000])
            rows.append((t, t + ctx.rng.choice([0, 1, 50, 600, 1200, 2500]), i, 0))
        e = max(r[1] for r in rows) + ctx.rng.choice([0, 7])
        parts = ctx.rng.choice(partitions(ctx.rng, rows, 0, e, exhaustive=False, kmax=4))
        tgt = ctx.rng.randint(1, 8)
        cases.append([achunk(a, b, p, tgt=tgt) for a, b, p in parts])
    return cases


def unit_rechunk(ctx):
    cases = rechunk_cases(ctx, ctx.thorough or ctx.escalated())
    lines = ["rechunk %d %s" % (len(cs), " ".join(enc_chunk(c) for c in cs)) for cs in cases]

    def impl_fn(case, idx):
        return guarded(lambda: rechunk_impl(case, "endtime" if idx % 2 == 0 else "length"))

    diff_unit(ctx, "rechunk", cases, lines, impl_fn, spec_rechunk,
              lambda c, o: sum(len(x["rows"]) for x in c) >= 2 and o.count("[") >= 2,
              lambda c: {"stream": c},
              lambda c, o: ("%d->%d chunks" % (len(c), o.count("["))) if o.startswith("ok") else o,
              search_fn=lambda: rechunk_cases(ctx, True))


# ------------------------------------------------------------------------------------------
# constructor range checks and continuity_check
# ------------------------------------------------------------------------------------------

def unit_mk_chunk(ctx):
    cases = []
    for _ in range(4000 if ctx.thorough else 800):
        rows = gen.random_rows(ctx.rng, ctx.rng.randint(0, 6), 30, 5)
        lo = min([r[0] for r in rows], default=3)
        hi = max([r[1] for r in rows], default=3)
        s = ctx.rng.choice([lo - 1, lo, lo + 1, 0, -1])
        e = ctx.rng.choice([hi - 1, hi, hi + 1, s - 1, s])
        cases.append(achunk(s, e, rows))
    lines = ["mk_chunk " + enc_chunk(c) for c in cases]

    def spec_fn(c, out):
        rows = c["rows"]
        bad = c["s"] < 0 or c["s"] > c["e"] or any(r[0] < c["s"] or r[1] > c["e"] for r in rows)
        if out.startswith("ok") and bad:
            return "constructor accepted rows outside the chunk range / invalid range"
        if out.startswith("err") and not bad:
            return "constructor rejected a valid chunk"
        return None

    diff_unit(ctx, "mk_chunk", cases, lines,
              lambda c, idx: guarded(lambda: "ok " + show_real(real_chunk(c, "endtime" if idx % 2 == 0 else "length"))),
              spec_fn, lambda c, o: len(c["rows"]) >= 1, lambda c: {"chunk": c},
              lambda c, o: o if o.startswith("err") else "ok")


def unit_continuity(ctx):
    cases = []
    for _ in range(1500 if ctx.thorough else 400):
        k = ctx.rng.randint(1, 5)
        t = ctx.rng.randint(0, 5)
        cs = []
        run = 7
        for i in range(k):
            d = ctx.rng.randint(0, 4)
            u = ctx.rng.random()
            s = t if u < 0.75 else t + ctx.rng.choice([-1, 1, 2])
            s = max(0, s)
            if ctx.rng.random() < 0.15:
                run += 1
            cs.append(achunk(s, s + d, [], run=run))
            t = s + d
        cases.append(cs)
    lines = ["continuity %d %s" % (len(cs), " ".join(enc_chunk(c) for c in cs)) for cs in cases]

    def impl_fn(cs, idx):
        n = 0
        try:
            for _ in strax.continuity_check(iter([real_chunk(c) for c in cs])):
                n += 1
            return "ok"
        except ValueError as e:
            if "not continuous" in str(e):
                return "bad %d" % n
            raise

    def spec_fn(cs, out):
        first_bad = None
        for i in range(1, len(cs)):
            if cs[i]["run"] == cs[i - 1]["run"] and cs[i]["s"] != cs[i - 1]["e"]:
                first_bad = i
                break
        want = "ok" if first_bad is None else "bad %d" % first_bad
        return None if out == want else "continuity_check gave %s, a gap/overlap scan gives %s" % (out, want)

    diff_unit(ctx, "continuity_check", cases, lines, impl_fn, spec_fn, lambda c, o: len(c) >= 2,
              lambda c: {"stream": c}, lambda c, o: o.split()[0])


# ------------------------------------------------------------------------------------------
# Chunk.merge (same-kind, column-wise)
# ------------------------------------------------------------------------------------------

def fname(fid):
    return {1: "time", 2: "endtime"}.get(fid, "f%d" % fid)


def real_kchunk(k):
    names = [fid for fid, _ in k["cols"]]
    dt = np.dtype([(fname(f), np.int64) for f in names])
    a = np.zeros(k["len"], dtype=dt)
    for fid, col in k["cols"]:
        a[fname(fid)] = col
    return strax.Chunk(start=k["s"], end=k["e"], data=a, dtype=dt, data_type="dt%03d" % k["dt"],
                       data_kind="k%d" % k["kind"], run_id=str(k["run"]))


def enc_kchunk(k):
    out = [k["s"], k["e"], k["len"], k["kind"], k["run"], k["dt"], len(k["cols"])]
    for fid, col in k["cols"]:
        out += [fid, len(col)] + list(col)
    return " ".join(str(int(x)) for x in out)


def unit_merge(ctx):
    cases = []
    for _ in range(4000 if ctx.thorough else 1200):
        k = ctx.rng.randint(2, 4)
        n = ctx.rng.randint(0, 4)
        t = sorted(ctx.rng.randint(0, 20) for _ in range(n))
        e = [x + ctx.rng.randint(0, 3) for x in t]
        s, end = 0, 30
        dts = ctx.rng.sample(range(1, 40), k)
        cs = []
        for j in range(k):
            extra = ctx.rng.sample([10, 11, 12, 13], ctx.rng.randint(0, 2))
            cols = [(1, list(t)), (2, list(e))]
            if ctx.rng.random() < 0.3:
                cols = cols[::-1]
            cols += [(f, [ctx.rng.randint(0, 99) for _ in range(n)]) for f in extra]
            cs.append({"s": s, "e": end, "len": n, "kind": 1, "run": 7, "dt": dts[j], "cols": cols})
        u = ctx.rng.random()
        if u < 0.08:
            cs[-1]["kind"] = 2
        elif u < 0.16:
            cs[-1]["run"] = 8
        elif u < 0.24 and n > 0:
            cs[-1]["len"] = n - 1
            cs[-1]["cols"] = [(f, col[:-1]) for f, col in cs[-1]["cols"]]
        elif u < 0.32:
            cs[-1]["e"] = end + 1
        cases.append((99, cs))
    lines = ["merge %d %d %s" % (newdt, len(cs), " ".join(enc_kchunk(k) for k in cs)) for newdt, cs in cases]

    def impl_fn(case, idx):
        newdt, cs = case

        def f():
            m = strax.Chunk.merge([real_kchunk(k) for k in cs], data_type="dt%03d" % newdt)
            inv = {"time": 1, "endtime": 2}
            cols = ["%d:%s" % (inv.get(nm, int(nm[1:]) if nm[0] == "f" else -1), ",".join(str(int(v)) for v in m.data[nm]))
                    for nm in m.data.dtype.names]
            return "ok %d %d %s" % (m.start, m.end, ";".join(cols))
        return guarded(f)

    def spec_fn(case, out):
        newdt, cs = case
        valid = all(len({k[key] for k in cs}) == 1 for key in ("kind", "run", "len", "s", "e"))
        if out.startswith("err"):
            return "merge rejected equal-kind, equal-run, equal-length, equal-range inputs: " + out if valid else None
        if not valid:
            return "merge accepted mismatched inputs"
        got = {}
        for part in out.split(" ", 3)[3].split(";") if len(out.split(" ", 3)) > 3 and out.split(" ", 3)[3] else []:
            f, col = part.split(":")
            if int(f) in got:
                return "duplicate column in merged chunk"
            got[int(f)] = [int(v) for v in col.split(",")] if col else []
        want = {}
        for k in cs:                       # later inputs win on collisions
            for f, col in k["cols"]:
                want[f] = list(col)
        if got != want:
            return "merged columns are not the union with the last input winning"
        return None

    diff_unit(ctx, "merge", cases, lines, impl_fn, spec_fn, lambda c, o: c[1][0]["len"] >= 1,
              lambda c: {"new_dtype": c[0], "chunks": c[1]}, lambda c, o: o.split()[0] + (" " + o.split()[1] if o.startswith("err") else ""))


UNITS = {"merge": unit_merge, "split_array": unit_split_array, "chunk_split": unit_chunk_split, "concatenate": unit_concat,
         "rechunk": unit_rechunk, "mk_chunk": unit_mk_chunk, "continuity_check": unit_continuity}


def run(ctx):
    ctx.coverage["rule"] = (
        "Per unit: exhaustive small scope (all start-sorted row lists of <=3/4 rows on a 5-6 point grid with lengths "
        "0..3, all split times from one below to one above the range, both allow_early_split; all contiguous "
        "partitions at admissible cut times for concatenate / rechunker with starts on multiples of 600 ns and "
        "targets 1..3 rows) plus seeded random clustered rows (<=40) and a malformed stream (out-of-order, "
        "overlapping, mismatched type/run, rows outside range). Non-trivial: >=2 rows and a split time strictly "
        "inside the data (split units); >=2 rows in >=2 chunks (concatenate/rechunk). Distinct by canonical JSON.")
    ctx.assumptions += ["rows carry (time, endtime|length*dt, id, channel); both endtime encodings alternate",
                        "sub-run/super-run annotations are covered by property C14's model"]
    for name, fn in UNITS.items():
        fn(ctx)


def replay(ctx, obj):
    r = obj["replay"]
    unit = r.get("unit") or obj.get("unit")
    case = r.get("case") if isinstance(r.get("input"), str) else r.get("input")
    if unit == "split_array":
        rows = [tuple(x) for x in case["rows"]]
        out = impl_split_array(rows, case["t"], case["early"], "endtime")
        reason = spec_split_array(rows, case["t"], bool(case["early"]), out)
    elif unit == "chunk_split":
        c = case["chunk"]
        c["rows"] = [tuple(x) for x in c["rows"]]
        def f():
            c1, c2 = real_chunk(c).split(case["t"], allow_early_split=bool(case["early"]))
            return "ok " + show_real(c1) + " " + show_real(c2)
        out = guarded(f)
        reason = spec_chunk_split((c, case["t"], case["early"]), out)
    elif unit == "rechunk":
        cs = case["stream"]
        for c in cs:
            c["rows"] = [tuple(x) for x in c["rows"]]
        out = guarded(lambda: rechunk_impl(cs, "endtime"))
        reason = spec_rechunk(cs, out)
    elif unit == "concatenate":
        cs = case["chunks"]
        for c in cs:
            c["rows"] = [tuple(x) for x in c["rows"]]
        out = guarded(lambda: "ok " + show_real(strax.Chunk.concatenate([real_chunk(c) for c in cs],
                                                                        allow_superrun=bool(case["allow_superrun"]))))
        reason = spec_concat((case["allow_superrun"], cs), out)
    else:
        print("replay not supported for unit", unit)
        return 0
    print("impl:", out, "| law:", reason or "holds")
    return 1 if reason else 0
