"""C07 — laws of chunking: split_array, Chunk.split, concatenate, merge, Rechunker."""
import json

import numpy as np
import strax

from harness import gen, impl, lib

MODEL_PROPS = ["C07"]
LEVEL = "proof"


# ------------------------------------------------------------------------------------------
# property predicates (spec side of the theorems) evaluated on the implementation's behaviour
# ------------------------------------------------------------------------------------------

def straddled(rows, y):
    return any(r[0] < y < r[1] for r in rows)


def spec_split_array(rows, t, early, out):
    """Returns None if the implementation's output satisfies C07_split_array_spec, else a reason."""
    if out == "CannotSplit":
        if early:
            return "raised CannotSplit although early splitting was allowed"
        if not straddled(rows, t):
            return "refused to split at %d although no row straddles it" % t
        return None
    nl, nr, t2 = out
    if nl + nr != len(rows):
        return "rows lost or duplicated"
    l, r = rows[:nl], rows[nl:]
    if any(q[1] > t2 for q in l):
        return "a left row ends after the split time"
    if any(q[0] < t2 for q in r):
        return "a right row starts before the split time"
    if t2 > t:
        return "split time moved later"
    if not early and t2 != t:
        return "split time moved although early splitting was not allowed"
    for y in range(t2 + 1, t + 1):
        if not straddled(rows, y):
            return "early split at %d although %d was admissible (later)" % (t2, y)
    return None


def impl_split_array(rows, t, early, enc):
    a = impl.mk_array(rows, enc)
    try:
        l, r, t2 = strax.split_array(a, t, allow_early_split=early)
    except strax.CannotSplit:
        return "CannotSplit"
    if impl.ids_of(l) + impl.ids_of(r) != [q[2] for q in rows]:
        return (-1, -1, int(t2))
    return (len(l), len(r), int(t2))


def unit_split_array(ctx):
    cases = []
    nmax = 4 if ctx.thorough else 3
    grid = 6 if ctx.thorough else 6
    if ctx.thorough or ctx.escalated():
        nmax = 4
    for rows in gen.sorted_row_lists(nmax, grid, 3):
        for t in range(-1, grid + 4):
            for early in (0, 1):
                cases.append((rows, t, early))
    n_rand = 30000 if ctx.thorough else 3000
    for _ in range(n_rand):
        n = ctx.rng.randint(1, 40)
        rows = gen.random_rows(ctx.rng, n, 200, 12)
        lo, hi = rows[0][0] - 2, max(r[1] for r in rows) + 2
        t = ctx.rng.choice([ctx.rng.randint(lo, hi), ctx.rng.choice(rows)[0], ctx.rng.choice(rows)[1]])
        cases.append((rows, t, ctx.rng.randint(0, 1)))
    lines = ["split_array %d %d %s" % (t, early, impl.enc_rows(rows)) for rows, t, early in cases]
    mout = lib.run_model_parallel("C07", lines)
    nontriv = set()
    dist = {"CannotSplit": 0, "ok_exact": 0, "ok_early_moved": 0}
    bad = 0
    for idx, ((rows, t, early), mo) in enumerate(zip(cases, mout)):
        enc = "endtime" if idx % 2 == 0 else "length"
        out = impl_split_array(rows, t, early, enc)
        ostr = "CannotSplit" if out == "CannotSplit" else "ok %d %d %d" % out
        if out == "CannotSplit":
            dist["CannotSplit"] += 1
        elif out[2] != t:
            dist["ok_early_moved"] += 1
        else:
            dist["ok_exact"] += 1
        if rows and rows[0][0] < t <= max(r[1] for r in rows) and len(rows) >= 2:
            nontriv.add(lib.canon([rows, t, early]))
        if ostr != mo:
            bad += 1
            reason = spec_split_array(rows, t, bool(early), out)
            inp = {"rows": rows, "t": t, "early": early, "enc": enc}
            if reason:
                ctx.violation("split_array", "strax.split_array violates the split law: %s (impl %s, model %s)"
                              % (reason, ostr, mo), {"input": inp, "impl": ostr, "model": mo})
            else:
                ctx.violation("split_array", "model/implementation disagree (impl %s, model %s) but the split "
                              "law holds on this input" % (ostr, mo),
                              {"input": "corr:C07/split_array", "case": inp, "impl": ostr, "model": mo},
                              no_failing_input=True)
            if bad > 5:
                break
        else:
            # agreement: still evaluate the property predicate on the implementation (cheap)
            reason = spec_split_array(rows, t, bool(early), out)
            if reason:
                ctx.violation("split_array", "split law violated on the implementation AND the model: " + reason,
                              {"input": {"rows": rows, "t": t, "early": early, "enc": enc}, "impl": ostr})
    ctx.count("split_array", len(cases), len(nontriv), dist)
    ctx.sample({"unit": "split_array", "rows": cases[len(cases) // 3][0], "t": cases[len(cases) // 3][1],
                "early": cases[len(cases) // 3][2], "model": mout[len(cases) // 3]})
    # kernel cross-check of the extraction on a sample
    idxs = sorted(ctx.rng.sample(range(len(cases)), min(150, len(cases))))
    eqs = []
    for i in idxs:
        rows, t, early = cases[i]
        eqs.append("c07_split_array_str %s (%d) %s = %s" % (coq_rows(rows), t, "true" if early else "false",
                                                           coq_split_out(mout[i])))
    n, fails = lib.coq_crosscheck("C07", "From SV Require Import Model.Rows Model.SplitArray Model.C07Run.", eqs)
    ctx.coverage.setdefault("kernel_crosscheck", {})["split_array"] = {"equations": n, "failed_files": len(fails)}
    if fails:
        ctx.violation("split_array", "extracted model and Coq vm_compute disagree: " + fails[0][-400:],
                      {"input": "corr:C07/split_array/extraction-crosscheck", "log": fails[0]},
                      no_failing_input=True)


def coq_rows(rows):
    return "[" + "; ".join("mkrow (%d) (%d) (%d) (%d)" % tuple(r) for r in rows) + "]"


def coq_split_out(s):
    if s == "CannotSplit":
        return "None"
    _, a, b, c = s.split()
    return "(Some (%s%%nat, %s%%nat, (%s)))" % (a, b, c)


def run(ctx):
    ctx.coverage["rule"] = (
        "split_array: exhaustive over all start-sorted row lists of <=3 (thorough 4) rows on a 6-point grid with "
        "lengths 0..3, every split time -1..9, both allow_early_split, plus seeded random clustered rows (<=40); "
        "non-trivial = at least two rows and the split time strictly after the first start and not beyond the "
        "last end; distinct by canonical JSON of (rows, t, early).")
    unit_split_array(ctx)


def replay(ctx, obj):
    r = obj["replay"]
    inp = r.get("case") or r.get("input")
    rows = [tuple(x) for x in inp["rows"]]
    out = impl_split_array(rows, inp["t"], inp["early"], inp.get("enc", "endtime"))
    reason = spec_split_array(rows, inp["t"], bool(inp["early"]), out)
    print("impl:", out, "spec:", reason or "holds")
    return 1 if reason else 0
