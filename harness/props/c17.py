"""C17 — interval primitives agree with their set-theoretic definitions.

Three-way correspondence on every case: real strax  vs  extracted algorithmic model
(coq/Model/Intervals.v)  vs  extracted quadratic spec (coq/Spec/IntervalDefs.v).
The driver prints "model | spec [| spec2]" per case; the implementation result is rendered in
the same format as the model segment.
"""
import gc
import itertools
import multiprocessing
import os
import warnings
from collections import Counter

import numpy as np
import strax
from strax.processing import general as G

from harness import gen, impl, lib

MODEL_PROPS = ["C17"]
LEVEL = "proof"

WINDOWS = (-2, -1, 0, 1, 2, 3)
KINDS = {0: "mergesort", 1: "quicksort", 2: "heapsort", 3: "stable"}
ENCS = ("endtime", "length")

# ------------------------------------------------------------------------------------------
# documented preconditions (Python side, used to decide which comparison is a property claim)
# ------------------------------------------------------------------------------------------


def sorted_starts(rows):
    return all(a[0] <= b[0] for a, b in zip(rows, rows[1:]))


def sorted_ends(rows):
    return all(a[1] <= b[1] for a, b in zip(rows, rows[1:]))


def nonneg(rows):
    return all(r[0] <= r[1] for r in rows)


def nonoverlap(rows):
    return all(b[0] >= a[1] for a, b in zip(rows, rows[1:]))


def pre_fc(things, cs):
    return sorted_starts(things) and nonneg(things) and nonneg(cs) and nonoverlap(cs)


def zero_on_end(things, cs):
    ends = {c[1] for c in cs}
    return any(t[0] == t[1] and t[1] in ends for t in things)


def pre_tw(things, cs):
    return (sorted_starts(things) and sorted_ends(things) and sorted_starts(cs)
            and nonneg(things) and nonneg(cs))


def sbt_fast(rows):
    """sort_by_time takes the single-key path (exact rational form of the float comparison)"""
    if not rows:
        return True
    chs = [r[3] for r in rows]
    shift = -min(chs) if min(chs) < 0 else 0
    ts = [r[0] for r in rows]
    return (max(ts) - min(ts)) * (max(chs) + shift + 1) <= 2 ** 63 - 11


def pre_atp(things, ivs):
    return sorted_starts(things) and nonneg(things) and nonneg(ivs) and nonoverlap(ivs)


# ------------------------------------------------------------------------------------------
# line protocol
# ------------------------------------------------------------------------------------------

def E(rows):
    return impl.enc_rows(rows)


def line_of(case):
    u = case[0]
    if u in ("fc", "sbc", "atp", "fccore"):
        return "%s %s %s" % (u, E(case[1]), E(case[2]))
    if u in ("tw", "stw"):
        return "%s %d %s %s" % (u, case[1], E(case[2]), E(case[3]))
    if u == "twk":
        return "twk %d %d %s %s" % (case[1], case[2], E(case[3]), E(case[4]))
    if u == "oi":
        return "oi %d %d %d %d" % case[1:]
    if u in ("diff", "sbt"):
        return "%s %s" % (u, E(case[1]))
    if u == "fb":
        return "fb %d %d %s" % (case[1], case[2], E(case[3]))
    if u == "frb":
        return "frb %d %d %d %d %s" % (case[1], case[2], case[3], case[4], E(case[5]))
    if u in ("ssort", "sargsort"):
        return "%s %d %s" % (u, case[1], " ".join(str(k) for k in case[2]))
    raise ValueError(u)


def J(xs):
    return " ".join(str(int(x)) for x in xs)


def okj(*parts):
    return " ".join(p for p in ("ok",) + tuple(parts) if p != "")


# ------------------------------------------------------------------------------------------
# implementation drivers: render the real strax result in the model's format
# ------------------------------------------------------------------------------------------

VALUE_ERRORS = {
    "time of things should be sorted!": "E1",
    "time of containers should be sorted!": "E2",
    "time of intervals should be sorted!": "E2",
    "things should have non-negative length!": "E3",
    "containers should have non-negative length!": "E4",
}


def exc_code(e):
    if isinstance(e, strax.NoBreakFound):
        return "E1"
    if isinstance(e, NotImplementedError):
        return "E2"
    if isinstance(e, AssertionError):
        return "E3"
    if isinstance(e, strax.sort_enforcement.SortingError):
        return "E5"
    if isinstance(e, ValueError):
        msg = str(e)
        if msg in VALUE_ERRORS:
            return VALUE_ERRORS[msg]
        if "Negative interval length" in msg:
            return "E6"
    return "EXC:%s:%s" % (type(e).__name__, str(e)[:60])


def groups_str(gs):
    return " ".join(J([len(g)] + impl.ids_of(g)) for g in gs)


def impl_run(case, enc):
    u = case[0]
    A = lambda rows: impl.mk_array(rows, enc)  # noqa: E731
    try:
        with warnings.catch_warnings(record=True) as wl:
            warnings.simplefilter("always")
            if u == "fc":
                r = strax.fully_contained_in(A(case[1]), A(case[2]))
                w = int(any("Overlapping of containers" in str(x.message) for x in wl))
                return okj(str(w), J(r))
            if u == "fccore":
                return J(G._fully_contained_in(A(case[1]), A(case[2])))
            if u == "sbc":
                things = A(case[1])
                r = strax.split_by_containment(things, A(case[2]))
                w = int(any("Overlapping of containers" in str(x.message) for x in wl))
                gs = [g for g in r]
                for g in gs:
                    if g.dtype != things.dtype:
                        return "EXC:dtype-changed"
                return okj(str(w), str(len(gs)), groups_str(gs))
            if u == "tw":
                r = strax.touching_windows(A(case[2]), A(case[3]), window=case[1])
                w = int(any("endtime of things is not sorted" in str(x.message) for x in wl))
                if r.shape != (len(case[3]), 2):
                    return "EXC:shape %s" % (r.shape,)
                return okj(str(w), J(r.reshape(-1)))
            if u == "stw":
                r = strax.split_touching_windows(A(case[2]), A(case[3]), window=case[1])
                w = int(any("endtime of things is not sorted" in str(x.message) for x in wl))
                return okj(str(w), str(len(r)), groups_str(r))
            if u == "twk":
                th, cs = A(case[3]), A(case[4])
                r = G._touching_windows(th["time"], strax.endtime(th), cs["time"], strax.endtime(cs),
                                        case[1], KINDS[case[2]])
                return okj(J(r.reshape(-1)))
            if u == "atp":
                p, n = strax.abs_time_to_prev_next_interval(A(case[1]), A(case[2]))
                w = int(any("endtime of things is not sorted" in str(x.message) for x in wl))
                return okj(str(w), J(x for pn in zip(p, n) for x in pn))
            if u == "oi":
                (a, b), (c, d) = strax.overlap_indices(*case[1:])
                return okj(J([a, b, c, d]))
            if u == "diff":
                return okj(J(strax.diff(A(case[1]))))
            if u == "fb":
                return okj(str(int(strax._find_break_i(A(case[3]), safe_break=case[1], not_before=case[2]))))
            if u == "frb":
                x = A(case[5])
                part, t = strax.from_break(x, case[1], case[2], bool(case[3]), bool(case[4]))
                return okj(str(int(t)), J([len(part)] + impl.ids_of(part)))
            if u == "sbt":
                return okj(J(impl.ids_of(strax.sort_by_time(A(case[1])))))
            if u == "ssort":
                return okj(J(strax.stable_sort(np.array(case[2], dtype=np.int64), kind=KINDS[case[1]])))
            if u == "sargsort":
                return okj(J(strax.stable_argsort(np.array(case[2], dtype=np.int64), kind=KINDS[case[1]])))
    except Exception as e:  # noqa: BLE001
        return exc_code(e)
    raise ValueError(u)


# ------------------------------------------------------------------------------------------
# judging one case: returns (list of (severity, what), dist-key, nontrivial?)
#   severity 'concrete' : the property predicate fails on the implementation for this input
#   severity 'nfi'      : model / implementation / spec disagree but the predicate holds here
# ------------------------------------------------------------------------------------------

def toks(s):
    return s.split()


def tw_ranges(seg):
    """model/impl 'ok w lo hi lo hi ...' -> list of index lists"""
    t = toks(seg)[2:]
    out = []
    for i in range(0, len(t), 2):
        lo, hi = int(t[i]), int(t[i + 1])
        out.append(list(range(lo, hi)))
    return out


def tw_spec_lists(seg):
    t = [int(x) for x in toks(seg)]
    out, i = [], 0
    while i < len(t):
        k = t[i]
        out.append(t[i + 1:i + 1 + k])
        i += 1 + k
    return out


def judge(case, im, mo):
    """im: implementation string; mo: full model line."""
    segs = [s.strip() for s in mo.split("|")]
    m = segs[0]
    u = case[0]
    f = []
    dist = "ok" if im.startswith("ok") else im.split(":")[0]
    nontriv = False

    def claim(holds, what):
        # a property claim about the implementation
        if not holds:
            f.append(("concrete", what))

    if im != m:
        f.append(("nfi", "model/implementation disagree: impl '%s' model '%s'" % (im[:120], m[:120])))

    if u in ("fc", "sbc"):
        things, cs = case[1], case[2]
        bad_input = not (sorted_starts(things) and sorted_starts(cs) and nonneg(things) and nonneg(cs))
        if bad_input:
            dist = "rejected" if im.startswith("E") else "malformed-accepted"
            claim(im.startswith("E") and not im.startswith("EXC"),
                  "%s accepted an input violating a checked precondition (unsorted / negative length): %s"
                  % (u, im[:80]))
            nontriv = True
        elif pre_fc(things, cs):
            strict, lit = segs[1], segs[2]
            if u == "fc":
                body_m = " ".join(toks(m)[2:]) if m.startswith("ok") else m
                body_i = " ".join(toks(im)[2:]) if im.startswith("ok") else im
            else:
                body_m = " ".join(toks(m)[3:]) if m.startswith("ok") else m
                body_i = " ".join(toks(im)[3:]) if im.startswith("ok") else im
            if body_m != strict:
                f.append(("nfi", "theorem re-test failed: algorithmic model '%s' vs quadratic spec '%s'" % (body_m, strict)))
            claim(body_i == strict, "%s differs from the quadratic definition (container.time <= thing.time < "
                  "container.endtime and thing.endtime <= container.endtime): impl '%s' spec '%s'" % (u, body_i, strict))
            z = zero_on_end(things, cs)
            if not z:
                claim(body_i == lit, "%s differs from the literal documented formula (no zero-length thing on a "
                      "container end involved): impl '%s' spec '%s'" % (u, body_i, lit))
                if strict != lit:
                    f.append(("nfi", "strict and literal spec differ outside the zero-on-end class"))
            elif body_i != lit:
                dist = "T1-literal-differs"
            nontriv = bool(things) and bool(cs) and any(cs[0][0] <= t[0] <= cs[-1][1] for t in things)
        else:
            dist = "overlapping-containers"
            claim(im.startswith("ok 1"), "%s did not warn about overlapping containers: %s" % (u, im[:60]))
    elif u == "tw":
        w, things, cs = case[1], case[2], case[3]
        bad_input = not (sorted_starts(things) and sorted_starts(cs) and nonneg(things) and nonneg(cs))
        if bad_input:
            dist = "rejected" if im.startswith("E") else "malformed-accepted"
            claim(im.startswith("E") and not im.startswith("EXC"),
                  "touching_windows accepted an input violating a checked precondition: %s" % im[:80])
            nontriv = True
        elif sorted_ends(things):
            spec = tw_spec_lists(segs[1])
            if m.startswith("ok") and [r for r in tw_ranges(m)] != spec:
                f.append(("nfi", "theorem re-test failed: model windows %s vs touching sets %s" % (tw_ranges(m), spec)))
            claim(im.startswith("ok 0") and tw_ranges(im) == spec,
                  "touching_windows(window=%d) index ranges differ from the sets {k : thing k touches container i}: "
                  "impl '%s' spec %s" % (w, im, spec))
            nontriv = bool(things) and bool(cs)
        else:
            dist = "ends-unsorted"
            claim(im.startswith("ok 1"), "touching_windows did not warn about unsorted endtimes: %s" % im[:60])
    elif u == "atp":
        things, ivs = case[1], case[2]
        if not (sorted_starts(things) and sorted_starts(ivs)):
            dist = "rejected" if im.startswith("E") else "malformed-accepted"
            claim(im.startswith("E") and not im.startswith("EXC"),
                  "abs_time_to_prev_next_interval accepted unsorted input: %s" % im[:80])
            nontriv = True
        elif pre_atp(things, ivs):
            spec = segs[1]
            body_m = " ".join(toks(m)[2:]) if m.startswith("ok") else m
            body_i = " ".join(toks(im)[2:]) if im.startswith("ok") else im
            if body_m != spec:
                f.append(("nfi", "theorem re-test failed: model '%s' vs spec '%s'" % (body_m, spec)))
            claim(body_i == spec, "abs_time_to_prev_next_interval differs from min distance to previous / next "
                  "interval: impl '%s' spec '%s'" % (body_i, spec))
            if all(iv[0] < iv[1] for iv in ivs):
                # positive-length intervals: the natural definition of "previous" coincides
                prevs = " ".join(toks(body_i)[0::2])
                claim(prevs == segs[2], "time to previous interval differs from the natural definition: impl '%s' "
                      "spec '%s'" % (prevs, segs[2]))
            nontriv = bool(things) and bool(ivs)
        else:
            dist = "outside-preconditions"
    elif u == "oi":
        if case[2] < 0 or case[4] < 0:
            dist = "rejected" if im == "E6" else "malformed-accepted"
            claim(im == "E6", "overlap_indices accepted a negative length: %s" % im)
        else:
            if m != "ok " + segs[1]:
                f.append(("nfi", "theorem re-test failed: model '%s' vs spec '%s'" % (m, segs[1])))
            claim(im == "ok " + segs[1], "overlap_indices differs from the enumerated intersection: impl '%s' spec '%s'"
                  % (im, segs[1]))
            nontriv = segs[1] != "0 0 0 0"
            dist = "overlap" if nontriv else "disjoint"
    elif u == "diff":
        if m != ("ok " + segs[1]).strip():
            f.append(("nfi", "theorem re-test failed: model '%s' vs spec '%s'" % (m, segs[1])))
        claim(im == ("ok " + segs[1]).strip(), "diff differs from start minus running maximum endtime: impl '%s' spec '%s'"
              % (im, segs[1]))
        nontriv = len(case[1]) >= 3
    elif u == "fb":
        rows = case[3]
        if len(rows) < 2:
            dist = "too-short"
            claim(im == "E3", "_find_break_i on fewer than two rows did not assert: %s" % im)
        else:
            exp = "E1" if segs[1] == "none" else "ok " + segs[1].split()[1]
            if m != exp:
                f.append(("nfi", "theorem re-test failed: model '%s' vs spec '%s'" % (m, exp)))
            claim(im == exp, "_find_break_i differs from the first index clearing the running maximum end + "
                  "safe_break: impl '%s' spec '%s'" % (im, exp))
            dist = "break" if exp.startswith("ok") else "NoBreakFound"
            nontriv = len(rows) >= 3
    elif u == "sbt":
        rows = case[1]
        nontriv = len(rows) >= 3 and len({(r[0], r[3]) for r in rows}) < len(rows)
        dist = "fast-key" if sbt_fast(rows) else "fallback"
        if im.startswith("ok"):
            byid = {r[2]: r for r in rows}
            ids_ = [int(x) for x in toks(im)[1:]]
            if len(byid) == len(rows):      # ids identify rows
                if sorted(ids_) != sorted(byid):
                    claim(False, "sort_by_time lost or duplicated rows: " + im[:80])
                else:
                    out = [byid[i] for i in ids_]
                    claim(all((a[0], a[3]) <= (b[0], b[3]) for a, b in zip(out, out[1:])),
                          "sort_by_time output is not sorted by (time, channel): " + im[:80])
                    if sbt_fast(rows):
                        claim(out == sorted(rows, key=lambda r: (r[0], r[3])),
                              "sort_by_time is not the stable sort by (time, channel): " + im[:80])
        else:
            claim(False, "sort_by_time raised: " + im[:80])
    elif u in ("ssort", "sargsort"):
        if case[1] != 0:
            dist = "rejected" if im == "E5" else "malformed-accepted"
            claim(im == "E5", "%s accepted sort kind %s" % (u, KINDS[case[1]]))
        else:
            keys = case[2]
            exp = sorted(range(len(keys)), key=lambda i: keys[i]) if u == "sargsort" else sorted(keys)
            claim(im == okj(J(exp)), "%s is not the stable sort: %s" % (u, im))
        nontriv = len(set(case[2])) < len(case[2])
    elif u == "twk":
        if case[2] != 0:
            dist = "rejected" if im == "E5" else "malformed-accepted"
            claim(im == "E5", "_touching_windows accepted sort kind %s" % KINDS[case[2]])
        nontriv = True
    elif u == "frb":
        sb, nb, left, tol, rows = case[1:]
        if tol or not rows:
            claim(im == "E2", "from_break: expected NotImplementedError, got %s" % im)
            dist = "NotImplemented"
        elif im.startswith("ok"):
            t = toks(im)
            bt, k, ids_ = int(t[1]), int(t[2]), [int(x) for x in t[3:]]
            all_ids = [r[2] for r in rows]
            i = k if left else len(rows) - k
            claim(0 < i < len(rows) and bt == rows[i][0] and ids_ == (all_ids[:i] if left else all_ids[i:]),
                  "from_break returned a part / break time inconsistent with a break index: %s" % im)
            nontriv = len(rows) >= 3
    elif u == "stw":
        nontriv = bool(case[2]) and bool(case[3])
    return f, dist, nontriv


# ------------------------------------------------------------------------------------------
# evaluation of case lists (runs in pool workers)
# ------------------------------------------------------------------------------------------

def _ckey(c):
    k = lib.canon(c)
    return (len(k), k)


def evaluate(cases, enc_shift=0, both_enc=False):
    lines = [line_of(c) for c in cases]
    mout = lib.run_model("C17", lines)
    res = {"n": 0, "dist": Counter(), "nontriv": {}, "findings": [], "t1": None, "sbt": [], "samples": []}
    nt = {}
    fcount = Counter()
    for idx, (c, mo) in enumerate(zip(cases, mout)):
        encs = ENCS if both_enc else (ENCS[(idx + enc_shift) % 2],)
        if c[0] in ("oi", "ssort", "sargsort"):
            encs = ("endtime",)
        for enc in encs:
            im = impl_run(c, enc)
            f, dist, nontriv = judge(c, im, mo)
            res["n"] += 1
            res["dist"][c[0] + ":" + dist] += 1
            if nontriv:
                nt.setdefault(c[0], set()).add(hash(lib.canon(c)))
            if dist == "T1-literal-differs" and (res["t1"] is None or _ckey(c) < _ckey(res["t1"][0])):
                res["t1"] = (c, im, mo)
            if c[0] == "sbt":
                res["sbt"].append((c, im, mo))
            for sev, what in f:
                if fcount[(c[0], sev)] < 3:
                    fcount[(c[0], sev)] += 1
                    res["findings"].append((sev, what, c, enc, im, mo))
    if cases:
        res["samples"].append((cases[len(cases) // 2], mout[len(cases) // 2]))
    res["nontriv"] = {u: np.fromiter(v, dtype=np.int64, count=len(v)) for u, v in nt.items()}
    return res


_G = {}


def _pair_cases(things, cs, idx, sbc_every, all_windows=True):
    out = [("fc", things, cs), ("atp", things, cs)]
    for w in (WINDOWS if all_windows else WINDOWS[idx % 2::2]):
        out.append(("tw", w, things, cs))
    if idx % sbc_every == 0:
        out.append(("sbc", things, cs))
        out.append(("stw", WINDOWS[idx // sbc_every % len(WINDOWS)], things, cs))
    return out


def _pair_task(args):
    name, lo, hi = args
    TH, CS, sbc_every, units, all_windows = _G[name]
    cases = []
    for ti in range(lo, hi):
        for ci, cs in enumerate(CS):
            idx = ti * len(CS) + ci
            pc = _pair_cases(TH[ti], cs, idx, sbc_every, all_windows)
            if units:
                pc = [c for c in pc if c[0] in units and (c[0] != "tw" or c[1] in units[c[0]])]
            cases += pc
    return evaluate(cases, enc_shift=lo)


def _list_task(args):
    name, lo, hi, both = args
    return evaluate(_G[name][lo:hi], enc_shift=lo, both_enc=both)


def merge(acc, r):
    acc["n"] += r["n"]
    acc["dist"].update(r["dist"])
    for u, arr in r["nontriv"].items():
        acc["nontriv"].setdefault(u, []).append(arr)
    for x in r["findings"]:
        k = (x[2][0], x[0])
        cur = [y for y in acc["findings"] if (y[2][0], y[0]) == k]
        if len(cur) < 6:
            acc["findings"].append(x)
        else:
            # keep the smallest inputs (deterministic whatever the task order)
            worst = max(cur, key=lambda y: (len(lib.canon(y[2])), lib.canon(y[2])))
            if (len(lib.canon(x[2])), lib.canon(x[2])) < (len(lib.canon(worst[2])), lib.canon(worst[2])):
                acc["findings"].remove(worst)
                acc["findings"].append(x)
    if r["t1"] is not None and (acc["t1"] is None or _ckey(r["t1"][0]) < _ckey(acc["t1"][0])):
        acc["t1"] = r["t1"]
    acc["sbt"] += r["sbt"]
    acc["samples"] += r["samples"][:1]


def _dispatch(task):
    return task[0](task[1])


def _worker_init():
    gc.disable()


def run_pool(tasks, nproc):
    """tasks: list of (function, args); one fork pool for all of them"""
    acc = {"n": 0, "dist": Counter(), "nontriv": {}, "findings": [], "t1": None, "sbt": [], "samples": []}
    if not tasks:
        return acc
    gc.collect()
    gc.freeze()
    ctxm = multiprocessing.get_context("fork")
    with ctxm.Pool(nproc, initializer=_worker_init) as pool:
        for r in pool.imap_unordered(_dispatch, tasks, chunksize=1):
            merge(acc, r)
    gc.unfreeze()
    acc["findings"].sort(key=lambda x: (x[0], len(lib.canon(x[2])), lib.canon(x[2])))
    acc["sbt"].sort(key=lambda x: lib.canon(x[0]))
    acc["samples"].sort(key=lambda x: lib.canon(x[0]))
    return acc


def chunks(n, k):
    step = max(1, (n + k - 1) // k)
    return [(i, min(n, i + step)) for i in range(0, n, step)]


# ------------------------------------------------------------------------------------------
# generators
# ------------------------------------------------------------------------------------------

def all_row_lists(nmax, cells):
    """every list (sorted or not) of <= nmax intervals drawn from cells"""
    for n in range(nmax + 1):
        for combo in itertools.product(cells, repeat=n):
            yield [(t, e, i, 0) for i, (t, e) in enumerate(combo)]


def rand_things(rng, n, tmax, maxlen, ends_sorted):
    rows = gen.random_rows(rng, n, tmax, maxlen)
    if ends_sorted:
        m = -10
        out = []
        for (t, e, i, ch) in rows:
            e = max(e, m)
            m = e
            out.append((t, e, i, ch))
        rows = out
    return rows


def rand_containers(rng, n, tmax, maxlen, overlap):
    rows = []
    t = rng.randint(0, 3)
    for i in range(n):
        ln = 0 if rng.random() < 0.15 else rng.randint(1, maxlen)
        rows.append((t, t + ln, i, 0))
        u = rng.random()
        if overlap and u < 0.3:
            t = t + rng.randint(0, ln)
        elif u < 0.6:
            t = t + ln                      # shared endpoint / zero gap
        else:
            t = t + ln + rng.randint(1, max(1, tmax // max(n, 1)))
    return rows


def mutate(rng, rows):
    """break a checked precondition: swap two rows or make a length negative"""
    rows = list(rows)
    if len(rows) >= 2 and rng.random() < 0.6:
        i = rng.randrange(len(rows) - 1)
        j = rng.randrange(i + 1, len(rows))
        rows[i], rows[j] = rows[j], rows[i]
    elif rows:
        i = rng.randrange(len(rows))
        t, e, rid, ch = rows[i]
        rows[i] = (t, t - rng.randint(1, 3), rid, ch)
    return rows


def shrink(case, still_fails):
    """greedy row deletion on the array arguments of a case"""
    case = list(case)
    pos = [i for i, a in enumerate(case) if isinstance(a, list) and a and isinstance(a[0], tuple)]
    changed = True
    while changed:
        changed = False
        for p in pos:
            i = 0
            while i < len(case[p]):
                cand = list(case)
                cand[p] = case[p][:i] + case[p][i + 1:]
                if still_fails(tuple(cand)):
                    case = cand
                    changed = True
                else:
                    i += 1
    return tuple(case)


def fails_concretely(case):
    for enc in ENCS:
        mo = lib.run_model("C17", [line_of(case)])[0]
        f, _, _ = judge(case, impl_run(case, enc), mo)
        if any(s == "concrete" for s, _ in f):
            return enc, [w for s, w in f if s == "concrete"][0]
    return None


def case_json(case, enc):
    return {"unit": case[0], "args": [list(map(list, a)) if isinstance(a, list) and a and isinstance(a[0], tuple)
                                      else a for a in case[1:]], "enc": enc}


def case_from_json(o):
    args = []
    for a in o["args"]:
        if isinstance(a, list) and (not a or isinstance(a[0], list)):
            args.append([tuple(x) for x in a])
        else:
            args.append(a)
    return (o["unit"],) + tuple(args)


UNIT_NAMES = {"fc": "fully_contained_in", "sbc": "split_by_containment", "tw": "touching_windows",
              "stw": "split_touching_windows", "twk": "_touching_windows", "atp": "abs_time_to_prev_next_interval",
              "oi": "overlap_indices", "diff": "diff", "fb": "_find_break_i", "frb": "from_break",
              "sbt": "sort_by_time", "ssort": "stable_sort", "sargsort": "stable_argsort", "fccore": "_fully_contained_in"}


def report(ctx, acc):
    """turn findings into VIOLATION records (concrete ones shrunk first)"""
    done = Counter()
    seen_small = set()
    conc = [x for x in acc["findings"] if x[0] == "concrete"]
    nfi = [x for x in acc["findings"] if x[0] == "nfi"]
    for sev, what, c, enc, im, mo in conc:
        unit = UNIT_NAMES[c[0]]
        if done[unit] >= 2:
            continue
        small = shrink(c, lambda cc: fails_concretely(cc) is not None)
        r = fails_concretely(small)
        if r is None:
            small, r = c, (enc, what)
        if (unit, lib.canon(small)) in seen_small:
            continue
        seen_small.add((unit, lib.canon(small)))
        done[unit] += 1
        ctx.violation(unit, r[1], {"input": case_json(small, r[0]), "original": case_json(c, enc)})
    for sev, what, c, enc, im, mo in nfi:
        unit = UNIT_NAMES[c[0]]
        if done[unit] >= 2:
            continue
        done[unit] += 1
        ctx.violation(unit, what, {"input": "corr:C17/" + unit, "case": case_json(c, enc), "impl": im, "model": mo},
                      no_failing_input=True)


# ------------------------------------------------------------------------------------------
# kernel cross-check rendering
# ------------------------------------------------------------------------------------------

def coq_rows(rows):
    return "[" + "; ".join("mkrow (%d) (%d) (%d) (%d)" % tuple(r) for r in rows) + "]"


def coq_zlist(seg):
    if seg.startswith("E"):
        return "[-100; %s]" % seg[1:]
    return "[" + "; ".join("(%s)" % t for t in toks(seg)[1:]) + "]"


def coq_equation(case, mo):
    m = mo.split("|")[0].strip()
    u = case[0]
    if u == "fc":
        lhs = "c17_fc %s %s" % (coq_rows(case[1]), coq_rows(case[2]))
    elif u == "sbc":
        lhs = "c17_sbc %s %s" % (coq_rows(case[1]), coq_rows(case[2]))
    elif u == "tw":
        lhs = "c17_tw (%d) %s %s" % (case[1], coq_rows(case[2]), coq_rows(case[3]))
    elif u == "atp":
        lhs = "c17_atp %s %s" % (coq_rows(case[1]), coq_rows(case[2]))
    elif u == "oi":
        lhs = "c17_oi (%d) (%d) (%d) (%d)" % case[1:]
    elif u == "diff":
        lhs = "c17_diff %s" % coq_rows(case[1])
    elif u == "fb":
        lhs = "c17_fb (%d) (%d) %s" % (case[1], case[2], coq_rows(case[3]))
    elif u == "sbt":
        lhs = "c17_sbt %s" % coq_rows(case[1])
    else:
        return None
    return "%s = %s" % (lhs, coq_zlist(m))


# ------------------------------------------------------------------------------------------
# run
# ------------------------------------------------------------------------------------------

def warm_up():
    a = [(0, 1, 0, 0), (1, 3, 1, 1), (2, 2, 2, 0)]
    b = [(0, 2, 0, 0), (2, 4, 1, 0)]
    for enc in ENCS:
        for c in [("fc", a, b), ("sbc", a, b), ("tw", 0, a, b), ("stw", 0, a, b), ("twk", 0, 0, a, b), ("atp", a, b),
                  ("oi", 1, 2, 3, 4), ("diff", a), ("fb", 1, 0, a), ("frb", 1, 0, 1, 0, a), ("frb", 1, 0, 0, 0, a),
                  ("sbt", a), ("ssort", 0, [2, 1]), ("sargsort", 0, [2, 1]), ("sbc", [], b), ("sbc", a, []),
                  ("tw", 0, [], b), ("diff", [])]:
            impl_run(c, enc)


def run(ctx):
    thorough = ctx.thorough
    # C17 uses none of the regenerated source constants: only drift of its own anchors escalates
    big = thorough or bool(ctx.drift)
    nproc = min(16, os.cpu_count() or 4)
    rng = ctx.rng
    import sys
    import time
    t0 = time.time()
    phases = {}

    def mark(name):
        phases[name] = round(time.time() - t0, 1)
        print("[c17] %s at %.1fs" % (name, time.time() - t0), file=sys.stderr)

    warm_up()
    mark("warm-up")
    ctx.coverage["rule"] = (
        "Three-way comparison (real strax / extracted two-pointer model / extracted quadratic spec) per call. "
        "Exhaustive pairs: every start-sorted list of <=3 things x every start-sorted list of <=2 containers on a "
        "4-point grid with lengths 0..2 (thorough: <=4 x <=2 and <=3 x <=3 on the 4-point grid, <=3 x <=2 on a "
        "5-point grid), for "
        "fully_contained_in, abs_time_to_prev_next_interval and touching_windows (quick: three of the six windows "
        "-2..3 per pair, alternating (-2,0,2)/(-1,1,3); thorough: all six per pair) "
        "(split_by_containment / split_touching_windows on every 7th pair); a seeded random sample of the stated "
        "scope (<=4 things x <=3 containers, 6-point grid, lengths 0..3) and of larger arrays (<=60 x <=20, "
        "clustered overlaps, shared endpoints, zero gaps, zero lengths); a malformed stream (every unsorted / "
        "negative-length list of <=2 x <=2 and <=3 x <=1 intervals on a 3-point grid with lengths -1, 0, 2 "
        "(thorough: <=3 x <=2), plus mutated random arrays) for the "
        "rejection verdicts; both endtime encodings alternate (random cases run in both). Non-trivial = the "
        "per-unit rule in harness/props/c17.py:judge (e.g. containment: both arrays non-empty and some thing "
        "starts within the span of the containers; malformed: a checked precondition is violated); distinct by "
        "canonical JSON of (unit, arguments).")
    tasks = []

    # --- A. exhaustive pairs -------------------------------------------------------------
    if thorough:
        scopes = [("A1", 4, 2, 4, 2, 7), ("A2", 3, 3, 4, 2, 7), ("A3", 3, 2, 5, 2, 7)]
    elif big:
        scopes = [("A1", 3, 2, 5, 2, 7)]
    else:
        scopes = [("A1", 3, 2, 4, 2, 7)]
    for name, nth, nc, grid, ml, sbc_every in scopes:
        TH = list(gen.sorted_row_lists(nth, grid, ml))
        CS = list(gen.sorted_row_lists(nc, grid, ml))
        _G[name] = (TH, CS, sbc_every, None, thorough)
        tasks += [(_pair_task, (name, a, b)) for a, b in chunks(len(TH), nproc * 4)]

    # --- B. malformed exhaustive (unsorted, negative lengths) ------------------------------
    cells = [(t, t + ln) for t in range(3) for ln in (-1, 0, 2)]
    bunits = {"fc": 1, "atp": 1, "tw": (0,), "sbc": 1, "stw": 1}
    if big:
        bscopes = [("B", 3, 2)]
    else:
        bscopes = [("B1", 2, 2), ("B2", 3, 1)]
    for name, nth, nc in bscopes:
        TH = list(all_row_lists(nth, cells))
        CS = list(all_row_lists(nc, cells))
        _G[name] = (TH, CS, 11, bunits, True)
        tasks += [(_pair_task, (name, a, b)) for a, b in chunks(len(TH), nproc)]

    # --- C. random: stated scope, larger arrays, mutated ----------------------------------
    cases = []
    corpus = os.path.join(lib.VERIF, "corpus", "C17", "seeds.json")
    if os.path.exists(corpus):
        import json
        seeds = [case_from_json(o) for o in json.load(open(corpus))["cases"]]
        cases += seeds
        ctx.coverage["corpus_cases"] = len(seeds)
    n_scope = 60000 if thorough else 6000
    cells6 = [(t, t + ln) for t in range(6) for ln in range(4)]
    for k in range(n_scope):
        th = sorted((rng.choice(cells6) for _ in range(rng.randint(0, 4))), key=lambda x: x[0])
        cs = sorted((rng.choice(cells6) for _ in range(rng.randint(0, 3))), key=lambda x: x[0])
        th = [(t, e, i, 0) for i, (t, e) in enumerate(th)]
        cs = [(t, e, i, 0) for i, (t, e) in enumerate(cs)]
        cases += _pair_cases(th, cs, k, 5)
    n_big = 20000 if thorough else 1500
    for k in range(n_big):
        nt, ncs = rng.randint(1, 60), rng.randint(1, 20)
        th = rand_things(rng, nt, 150, 10, ends_sorted=rng.random() < 0.6)
        cs = rand_containers(rng, ncs, 150, 14, overlap=rng.random() < 0.25)
        if rng.random() < 0.12:
            if rng.random() < 0.5:
                th = mutate(rng, th)
            else:
                cs = mutate(rng, cs)
        w = rng.choice(WINDOWS)
        cases += [("fc", th, cs), ("atp", th, cs), ("tw", w, th, cs), ("tw", rng.choice(WINDOWS), th, cs)]
        if k % 3 == 0:
            cases += [("sbc", th, cs), ("stw", w, th, cs)]
        if k % 10 == 0:
            cases.append(("twk", w, rng.choice([0, 0, 1, 2, 3]), th, cs))
    # single-array units
    n_one = 40000 if thorough else 6000
    for rows in gen.sorted_row_lists(4 if thorough else 3, 5, 3):
        cases.append(("diff", rows))
        for sb in (0, 1, 2):
            for nb in (0, 3):
                cases.append(("fb", sb, nb, rows))
        cases.append(("frb", 1, 0, len(rows) % 2, 0, rows))
    for k in range(n_one):
        rows = gen.random_rows(rng, rng.randint(0, 40), 200, 12)
        if rng.random() < 0.2:
            rng.shuffle(rows)       # diff / _find_break_i do not check sortedness: compared as they are
        sb, nb = rng.choice([0, 1, 2, 5, 12]), rng.choice([0, 0, 7, 60, 250])
        cases += [("diff", rows), ("fb", sb, nb, rows),
                  ("frb", sb, nb, rng.randint(0, 1), int(rng.random() < 0.05), rows)]
    # overlap_indices: exhaustive small + random
    for a1 in range(-2, 5):
        for na in range(-1, 5):
            for b1 in range(-2, 5):
                for nb in range(-1, 5):
                    cases.append(("oi", a1, na, b1, nb))
    for k in range(20000 if thorough else 3000):
        cases.append(("oi", rng.randint(-50, 50), rng.randint(-2, 40), rng.randint(-50, 50), rng.randint(-2, 40)))
    # sort_by_time and the kind guards
    for k in range(30000 if thorough else 4000):
        n = rng.randint(0, 6) if k % 2 else rng.randint(0, 40)
        rows = [(rng.randint(0, 5 if k % 2 else 30), 0, i, rng.choice([-2, -1, 0, 1, 2, 3])) for i in range(n)]
        rows = [(t, t + rng.randint(0, 3), i, ch) for (t, e, i, ch) in rows]
        if k % 9 == 0 and rows:
            # huge time range: the fallback branch (np.sort with order=)
            # offset 3 * 2**60: fallback iff max channel + 1 >= 3, far from the float rounding boundary
            B = 3 * 2 ** 60
            rows = [((t % 2) * B + t // 2, (t % 2) * B + t // 2 + 1, i, abs(ch)) for (t, e, i, ch) in rows]
        cases.append(("sbt", rows))
    for k in range(3000 if thorough else 600):
        keys = [rng.randint(0, 6) for _ in range(rng.randint(0, 12))]
        kind = rng.choice([0, 0, 0, 1, 2, 3])
        cases += [("ssort", kind, keys), ("sargsort", kind, keys)]
    _G["C"] = cases
    tasks += [(_list_task, ("C", a, b, True)) for a, b in chunks(len(cases), nproc * 3)]
    mark("cases generated (%d tasks)" % len(tasks))
    total = run_pool(tasks, nproc)
    mark("pool done")

    # --- sort_by_time: spec predicate on the implementation's output -----------------------
    sbt = total["sbt"]
    chk_lines, chk_cases = [], []
    for (c, im, mo) in sbt:
        if not im.startswith("ok"):
            total["findings"].append(("concrete", "sort_by_time raised: " + im, c, "endtime", im, mo))
            continue
        ids_ = [int(x) for x in toks(im)[1:]]
        byid = {r[2]: r for r in c[1]}
        if sorted(ids_) != sorted(byid):
            total["findings"].append(("concrete", "sort_by_time lost or duplicated rows: " + im, c, "endtime", im, mo))
            continue
        chk_lines.append("sbtchk %s %s" % (E(c[1]), E([byid[i] for i in ids_])))
        chk_cases.append((c, im, mo))
    for (c, im, mo), out in zip(chk_cases, lib.run_model_parallel("C17", chk_lines)):
        stable, sortedperm = out.split()
        fast = sbt_fast(c[1])
        if sortedperm != "1":
            total["findings"].append(("concrete", "sort_by_time output is not sorted by (time, channel): " + im,
                                      c, "endtime", im, mo))
        elif fast and stable != "1":
            total["findings"].append(("concrete", "sort_by_time is not stable on the single-key path: " + im,
                                      c, "endtime", im, mo))

    mark("sort_by_time spec check")
    report(ctx, total)

    # --- T1: literal formula vs code on a zero-length thing at a container's end ------------
    if total["t1"] is not None:
        c, im, mo = total["t1"]
        wit = ("fc", [(5, 5, 0, 0)], [(3, 5, 0, 0)])
        im_w = impl_run(wit, "endtime")
        ctx.notes.append(
            "T1: under the documented preconditions fully_contained_in differs from the literal formula "
            "'c.time <= t.time and t.endtime <= c.endtime' exactly for zero-length things sitting on a container's "
            "exclusive end (%d such calls in this run; smallest seen: %s -> %s; canonical witness [5,5) in [3,5) -> %s). "
            "The check's predicate is the exact characterisation proved in C17_fc_in_exact (thing start strictly "
            "before the container end); the literal formula is claimed only where no such thing exists."
            % (sum(v for k, v in total["dist"].items() if k.endswith("T1-literal-differs")),
               case_json(c, "endtime")["args"], im, im_w))
        if any(k.get("unit") == "fully_contained_in/literal" for k in ctx.known) and im_w == "ok 0 -1":
            ctx.violation("fully_contained_in/literal", "zero-length thing on a container's exclusive end is reported "
                          "as not contained although the literal documented formula contains it",
                          {"input": case_json(wit, "endtime")})

    # --- accounting -------------------------------------------------------------------------
    per_unit = {}
    for k, v in total["dist"].items():
        u, d = k.split(":", 1)
        per_unit.setdefault(UNIT_NAMES[u], Counter())[d] += v
    nt = Counter()
    for u, arrs in total["nontriv"].items():
        nt[UNIT_NAMES[u]] += len(np.unique(np.concatenate(arrs)))
    for u, d in sorted(per_unit.items()):
        ctx.count(u, sum(d.values()), nt.get(u, 0), dict(d))
    for c, mo in total["samples"][:10]:
        ctx.sample({"unit": UNIT_NAMES[c[0]], "case": case_json(c, "endtime")["args"], "model|spec": mo})

    # --- kernel cross-check of the extraction ------------------------------------------------
    cand = _G["C"] if len(_G["C"]) <= 6000 else [_G["C"][i] for i in sorted(rng.sample(range(len(_G["C"])), 6000))]
    pool_cases = [c for c in cand if c[0] in ("fc", "sbc", "tw", "atp", "oi", "diff", "fb", "sbt")
                  and all(not isinstance(a, list) or len(a) <= 12 for a in c[1:])
                  and all(abs(x) < 2 ** 40 for a in c[1:] if isinstance(a, list) for r in a
                          for x in (r if isinstance(r, tuple) else (r,)))]
    idxs = sorted(rng.sample(range(len(pool_cases)), min(240 if thorough else 120, len(pool_cases))))
    sel = [pool_cases[i] for i in idxs]
    mouts = lib.run_model("C17", [line_of(c) for c in sel])
    eqs = [e for e in (coq_equation(c, mo) for c, mo in zip(sel, mouts)) if e]
    mark("accounting")
    n, fails = lib.coq_crosscheck("C17", "From SV Require Import Model.Rows Model.Intervals Model.C17Run.", eqs, shard=120)
    mark("kernel cross-check")
    ctx.coverage["phase_seconds"] = phases
    ctx.coverage.setdefault("kernel_crosscheck", {})["C17"] = {"equations": n, "failed_files": len(fails)}
    if fails:
        ctx.violation("extraction", "extracted model and Coq vm_compute disagree: " + fails[0][-400:],
                      {"input": "corr:C17/extraction-crosscheck", "log": fails[0]}, no_failing_input=True)
    ctx.assumptions += [
        "numba execution, numpy mergesort (np.argsort/np.sort kind='mergesort') and numba.typed.List are exercised, "
        "not modelled; stability of the C routine is checked against the model's insertion sort",
        "sort_by_time: the float comparison with max_time_difference is modelled by the exact rational comparison; "
        "arrays without a 'channel' field (float64 sort key) are outside the model",
        "time values are far from the int64 range except in the sort_by_time fallback cases",
    ]


def replay(ctx, obj):
    r = obj["replay"]
    o = r.get("case") or r.get("input")
    if not isinstance(o, dict):
        print("not a concrete input:", o)
        return 0
    case = case_from_json(o)
    mo = lib.run_model("C17", [line_of(case)])[0]
    bad = 0
    for enc in ENCS:
        im = impl_run(case, enc)
        f, dist, _ = judge(case, im, mo)
        print("enc=%s impl: %s\n  model|spec: %s\n  verdict: %s" % (enc, im, mo, f or "holds"))
        if any(s == "concrete" for s, _ in f):
            bad = 1
    return bad
