"""C10 — time-range, row and column selections commute with chunking and storage.

Correspondence: the real ``Context.get_array`` on small stored runs (source plugins that emit
prescribed chunks, so the on-disk layout is controlled; a second copy written through the
Rechunker) against the extracted model ``get_array1`` / ``get_array2`` of coq/Model/Selection.v;
property predicate: the result equals an independent (pure python) selection of the full result.

The real work runs in forked worker processes (one temporary DataDirectory each, under
build/tmp/c10_*), removed afterwards.
"""
import contextlib
import io
import itertools
import json
import multiprocessing
import os
import random
import shutil
import sys
import threading
import traceback

import numpy as np

from harness import impl, lib

MODEL_PROPS = ["C10"]
LEVEL = "proof"
NONE_RUN = -999999
NS = 10 ** 9

# field ids shared with coq/Model/Selection.v (row_fields / pair_fields)
FID = {"time": 0, "endtime": 1, "id": 2, "channel": 3, "idb": 4, "x": 5, "nope": 99}
FNAME = {v: k for k, v in FID.items()}
MODES = {"fully_contained": 0, "touching": 1, "skip": 2, "bogus": 3}

ERRMAP = [
    ("returned no chunks", 40), ("No data returned", 41), ("both keep_columns and drop_columns", 42),
    ("Unknown time_selection", 43), ("no field of name", 44), ("Pass no more than one", 45),
    ("not continuous", 46), ("empty input buffer", 50), ("ended prematurely", 51),
    ("time-consistent", 52), ("terminated without fetching", 53), ("different number of items", 54),
    ("different time ranges", 55), ("forbids saving", 60), ("Time range selection assumes", 61),
]

# the two failure classes found on the unchanged tree (design_notes/C10.md); canonical witnesses
W_ZERO = {
    "rows": [[1, 3, 0, 0], [4, 6, 1, 1], [10, 10, 2, 0], [12, 15, 3, 1]],
    "A": [[0, 10, 2], [10, 20, 2]], "targets": ["aa"], "time_range": [0, 10],
    "mode": "fully_contained", "proc": "single_thread",
}
W_STRADDLE = {
    "rows": [[1, 3, 0, 0], [4, 6, 1, 1], [13, 15, 2, 0], [18, 19, 3, 1]],
    "A": [[0, 17, 3], [17, 20, 1]], "B": [[0, 12, 2], [12, 20, 2]], "targets": ["aa", "bb"],
    "time_range": [5, 14], "mode": "touching", "proc": "single_thread",
}
UNIT_ZERO = "zero_length_row_on_range_edge"
UNIT_STRADDLE = "two_targets_right_edge_straddled"


def err_code(e):
    msg = str(e)
    for k, v in ERRMAP:
        if k in msg:
            return v
    return "%s:%s" % (type(e).__name__, msg[:80].replace("\n", " "))


# ------------------------------------------------------------------------------------------
# predicates: AST <-> model encoding / numexpr string / callable / python oracle
#   ["cmp", field, op, k] | ["and", a, b] | ["or", a, b] | ["not", a]
# ------------------------------------------------------------------------------------------
OPS = ["==", "!=", "<", "<=", ">", ">="]


def pred_enc(q):
    if q[0] == "cmp":
        return "1 %d %d %d" % (FID[q[1]], OPS.index(q[2]), q[3])
    if q[0] == "and":
        return "2 %s %s" % (pred_enc(q[1]), pred_enc(q[2]))
    if q[0] == "or":
        return "3 %s %s" % (pred_enc(q[1]), pred_enc(q[2]))
    return "4 %s" % pred_enc(q[1])


def pred_str(q):
    if q[0] == "cmp":
        return "(%s %s %d)" % (q[1], q[2], q[3])
    if q[0] == "and":
        return "(%s & %s)" % (pred_str(q[1]), pred_str(q[2]))
    if q[0] == "or":
        return "(%s | %s)" % (pred_str(q[1]), pred_str(q[2]))
    return "(~%s)" % pred_str(q[1])


def pred_np(q, x):
    if q[0] == "cmp":
        a, k = x[q[1]], q[3]
        return {"==": a == k, "!=": a != k, "<": a < k, "<=": a <= k, ">": a > k, ">=": a >= k}[q[2]]
    if q[0] == "and":
        return pred_np(q[1], x) & pred_np(q[2], x)
    if q[0] == "or":
        return pred_np(q[1], x) | pred_np(q[2], x)
    return ~pred_np(q[1], x)


def pred_py(q, rec):
    """rec: dict field name -> int"""
    if q[0] == "cmp":
        a, k = rec[q[1]], q[3]
        return {"==": a == k, "!=": a != k, "<": a < k, "<=": a <= k, ">": a > k, ">=": a >= k}[q[2]]
    if q[0] == "and":
        return pred_py(q[1], rec) and pred_py(q[2], rec)
    if q[0] == "or":
        return pred_py(q[1], rec) or pred_py(q[2], rec)
    return not pred_py(q[1], rec)


def selection_arg(sel):
    """sel = None | {"form": "str"|"list"|"callable"|"empty", "preds": [ast..]} -> get_array argument"""
    if sel is None:
        return None
    if sel["form"] == "empty":
        return ""
    if sel["form"] == "str":
        return " & ".join(pred_str(q) for q in sel["preds"])
    if sel["form"] == "list":
        return [pred_str(q) for q in sel["preds"]]
    preds = sel["preds"]

    def f(x):
        m = np.ones(len(x), dtype=bool)
        for q in preds:
            m &= pred_np(q, x)
        return m
    return f


# ------------------------------------------------------------------------------------------
# the property's own predicate: an independent selection of the full result (pure python)
# ------------------------------------------------------------------------------------------
def records_of(case):
    """full result as a list of dicts, for one or two targets"""
    recs = []
    two = len(case["targets"]) == 2
    for (t, e, i, ch) in case["rows"]:
        r = {"time": t, "endtime": e, "id": i, "channel": ch}
        if two:
            r.update({"idb": i + 100, "x": ch + 10})
        recs.append(r)
    return recs


def names_of(case):
    return ["time", "endtime", "id", "channel"] + (["idb", "x"] if len(case["targets"]) == 2 else [])


def oracle(case, tr):
    """Selection of the FULL result by the documented semantics of the request (None if the request
    itself is invalid: both keep and drop, unknown column to keep, unknown mode)."""
    recs = records_of(case)
    names = names_of(case)
    keep, drop = case.get("keep"), case.get("drop")
    if keep and drop:
        return "err 42"
    mode = case["mode"]
    if tr is not None and mode not in ("fully_contained", "touching", "skip"):
        return "err 43"
    if tr is not None and mode == "fully_contained":
        recs = [r for r in recs if tr[0] <= r["time"] and r["endtime"] <= tr[1]]
    elif tr is not None and mode == "touching":
        recs = [r for r in recs if r["endtime"] > tr[0] and r["time"] < tr[1]]
    sel = case.get("sel")
    if sel is not None:
        recs = [r for r in recs if all(pred_py(q, r) for q in sel["preds"])]
    out = names
    if drop:
        keep = [n for n in names if n not in drop]
    if keep:
        if any(k not in names for k in keep):
            return "err 44"
        out = [n for n in names if n in keep]
    return "ok %s|%s" % (",".join(str(FID[n]) for n in out),
                         ";".join(",".join(str(r[n]) for n in out) for r in recs))


def abs_range(case, layout_first_start):
    """to_absolute_time_range for the request forms the harness uses (one form at a time)"""
    if case.get("time_within") is not None:
        return tuple(case["time_within"])
    if case.get("seconds_range") is not None:
        md = case.get("md_start")
        t0 = md * NS if md is not None else (layout_first_start // NS) * NS
        return (t0 + NS * case["seconds_range"][0], t0 + NS * case["seconds_range"][1])
    if case.get("time_range") is not None:
        return tuple(case["time_range"])
    return None


# ------------------------------------------------------------------------------------------
# model line encoding
# ------------------------------------------------------------------------------------------
def layout_chunks(rows, layout):
    """layout = [(start, end, n)..] -> [(start, end, rows)..]"""
    out, i = [], 0
    for s, e, n in layout:
        out.append((s, e, rows[i:i + n]))
        i += n
    return out


def enc_chunks(rows, layout, dt):
    parts = [str(len(layout))]
    for s, e, part in layout_chunks(rows, layout):
        parts.append("%d %d %d 1 7 4 %s" % (s, e, dt, impl.enc_rows(part)))
    return " ".join(parts)


def enc_pair(p):
    return "0" if p is None else "1 %d %d" % tuple(p)


def enc_optlist(l):
    return "-1" if l is None else " ".join([str(len(l))] + [str(FID[x]) for x in l])


def rows_b(rows):
    return [(t, e, i + 100, ch + 10) for (t, e, i, ch) in rows]


def model_line(case):
    sel = case.get("sel")
    preds = [] if sel is None else sel["preds"]
    req = "%d %s %s %s %d %s %s %d %s" % (
        -1 if case.get("md_start") is None else case["md_start"],
        enc_pair(case.get("time_range")), enc_pair(case.get("seconds_range")), enc_pair(case.get("time_within")),
        MODES.get(case["mode"], 3), enc_optlist(case.get("keep")), enc_optlist(case.get("drop")),
        len(preds), " ".join(pred_enc(q) for q in preds))
    rows = [tuple(r) for r in case["rows"]]
    if len(case["targets"]) == 1:
        return "get1 %s %s" % (req, enc_chunks(rows, case["A"], 1))
    return "get2 %s %s %s" % (req, enc_chunks(rows, case["A"], 1), enc_chunks(rows_b(rows), case["B"], 2))


# ------------------------------------------------------------------------------------------
# the real strax side (runs inside worker processes)
# ------------------------------------------------------------------------------------------
SCEN = {}   # run_id -> {"aa": chunks, "ar": chunks, "bb": chunks, ...}   (per worker process)


def _strax():
    import strax
    return strax


def make_plugins():
    strax = _strax()
    DT_A = impl.DT_ENDTIME
    DT_B = np.dtype([(("Start time", "time"), np.int64), (("End time", "endtime"), np.int64),
                     ("idb", np.int64), ("x", np.int16)])

    def source(name, dtype, rechunk, target_rows=None):
        class Src(strax.Plugin):
            provides = name
            data_kind = "k"
            depends_on = tuple()
            rechunk_on_save = rechunk
            parallel = False
            save_when = strax.SaveWhen.ALWAYS

            def source_finished(self):
                return True

            def is_ready(self, chunk_i):
                return chunk_i < len(SCEN[self.run_id][name])

            def compute(self, chunk_i):
                s, e, rows = SCEN[self.run_id][name][chunk_i]
                a = np.zeros(len(rows), dtype)
                for i, r in enumerate(rows):
                    a[i] = tuple(r)
                return self.chunk(start=s, end=e, data=a)
        Src.dtype = dtype
        Src.__name__ = "Src_" + name
        if target_rows:
            Src.chunk_target_size_mb = (target_rows + 0.5) * dtype.itemsize / 1e6
        return Src

    plugins = [source("aa", DT_A, False), source("ar", DT_A, True, target_rows=2), source("bb", DT_B, False),
               source("br", DT_B, True, target_rows=3)]

    # derived plugins for the saver guard (one per SaveWhen value)
    def derived(name, sw):
        class Der(strax.Plugin):
            provides = name
            data_kind = "k"
            depends_on = ("aa",)
            parallel = False
            save_when = sw
            dtype = DT_A

            def compute(self, k):
                return k.copy()
        Der.__name__ = "Der_" + name
        return Der
    for nm, sw in (("dnever", strax.SaveWhen.NEVER), ("dexplicit", strax.SaveWhen.EXPLICIT),
                   ("dtarget", strax.SaveWhen.TARGET), ("dalways", strax.SaveWhen.ALWAYS)):
        plugins.append(derived(nm, sw))
    return plugins


def make_context(path):
    strax = _strax()
    st = strax.Context(storage=[strax.DataDirectory(path, provide_run_metadata=True)], register=make_plugins(), config={},
                       allow_multiprocess=False, allow_lazy=True)
    return st


def store_scenario(st, run_id, rows, A, B=None, md_start=None):
    """store aa (layout A), ar (rechunked by the saver), bb (layout B), br; returns actual layouts"""
    import datetime
    rows = [tuple(r) for r in rows]
    SCEN[run_id] = {"aa": layout_chunks(rows, A), "ar": layout_chunks(rows, A)}
    names = ["aa", "ar"]
    if B is not None:
        SCEN[run_id]["bb"] = layout_chunks(rows_b(rows), B)
        SCEN[run_id]["br"] = layout_chunks(rows_b(rows), B)
        names += ["bb", "br"]
    if md_start is not None:
        st.storage[0].write_run_metadata(run_id, {
            "name": run_id,
            "start": datetime.datetime.fromtimestamp(md_start, datetime.timezone.utc).replace(tzinfo=None),
            "end": datetime.datetime.fromtimestamp(md_start + 100, datetime.timezone.utc).replace(tzinfo=None)})
    lay = {}
    for n in names:
        st.make(run_id, n, progress_bar=False, processor="single_thread")
        md = st.get_metadata(run_id, n)
        lay[n] = [(int(c["start"]), int(c["end"]), int(c["n"])) for c in md["chunks"]]
    return lay


def canon_array(r):
    names = list(r.dtype.names)
    return "ok %s|%s" % (",".join(str(FID[n]) for n in names),
                         ";".join(",".join(str(int(r[n][i])) for n in names) for i in range(len(r))))


def run_request(st, run_id, case):
    """one real get_array call -> canonical string"""
    kw = {}
    for k in ("time_range", "seconds_range"):
        if case.get(k) is not None:
            kw[k] = tuple(case[k])
    if case.get("time_within") is not None:
        tw = np.zeros(1, impl.DT_ENDTIME)
        tw["time"], tw["endtime"] = case["time_within"]
        kw["time_within"] = tw[0]
    if case.get("sel") is not None:
        kw["selection"] = selection_arg(case["sel"])
    for k in ("keep", "drop"):
        if case.get(k) is not None:
            kw[k + "_columns"] = tuple(case[k])
    tg = case["targets"]
    tg = tg[0] if len(tg) == 1 else tuple(tg)
    try:
        r = st.get_array(run_id, tg, time_selection=case["mode"], processor=case["proc"], progress_bar=False, **kw)
        return canon_array(r)
    except Exception as e:  # noqa
        return "err %s" % err_code(e)


def quiet():
    sys.stdout = open(os.devnull, "w")
    sys.stderr = open(os.devnull, "w")
    threading.excepthook = lambda a: None
    import logging
    logging.disable(logging.CRITICAL)
    import warnings
    warnings.filterwarnings("ignore")


# ------------------------------------------------------------------------------------------
# scenario and request generation (deterministic from the seed)
# ------------------------------------------------------------------------------------------
def clean_cut_positions(rows, s, e):
    """(t, i): cutting before row i at time t straddles nothing"""
    out = []
    mx = s
    for i in range(len(rows) + 1):
        lo = mx
        hi = rows[i][0] if i < len(rows) else e
        if lo <= hi:
            for t in sorted({lo, hi, (lo + hi) // 2}):
                out.append((t, i))
        if i < len(rows):
            mx = max(mx, rows[i][1])
    return sorted(set(out))


def random_layout(rng, rows, s, e, kmax=3):
    """a contiguous well-formed chunking of [s, e): [(start, end, n)..]; zero-length rows sitting on
    a cut may go to either side; zero-length chunks are possible"""
    cuts = clean_cut_positions(rows, s, e)
    k = rng.randint(0, kmax)
    for _ in range(30):
        pick = sorted(rng.sample(cuts, min(k, len(cuts))), key=lambda c: (c[1], c[0]))
        bounds = [(s, 0)] + pick + [(e, len(rows))]
        ok = all(b0[0] <= b1[0] and b0[1] <= b1[1] for b0, b1 in zip(bounds, bounds[1:]))
        lay = []
        for (t0, i0), (t1, i1) in zip(bounds, bounds[1:]):
            if any(r[0] < t0 or r[1] > t1 for r in rows[i0:i1]):
                ok = False
            lay.append((t0, t1, i1 - i0))
        if ok:
            return lay
    return [(s, e, len(rows))]


def random_rows(rng, n, t_lo, span, scale=1):
    """n start-sorted rows with overlaps, shared endpoints and zero-length rows"""
    rows, t = [], t_lo + rng.randint(0, 2)
    for i in range(n):
        u = rng.random()
        if u < 0.35 and rows:
            p = rows[-1]
            t = max(t, rng.choice([p[0], p[1], p[1], max(p[0], p[1] - 1)]))
        else:
            t += rng.randint(0, max(1, span // max(n, 1)))
        ln = 0 if rng.random() < 0.3 else rng.randint(1, 4)
        rows.append((t, t + ln, i, rng.randint(0, 2)))
    return [(t * scale, e * scale, i, ch) for (t, e, i, ch) in rows]


def make_scenarios(rng, n, scaled_every=4):
    scen = []
    for k in range(n):
        scaled = scaled_every and k % scaled_every == scaled_every - 1
        scale = NS if scaled else 1
        base = 3 if scaled else 2
        nrows = rng.randint(1, 5)
        rows = random_rows(rng, nrows, base, 14, scale)
        s = (base - rng.randint(0, 1)) * scale if rows[0][0] >= base * scale else rows[0][0]
        s = min(s, rows[0][0])
        e = max(r[1] for r in rows) + rng.randint(0, 2) * scale
        A = random_layout(rng, rows, s, e)
        B = random_layout(rng, rows, s, e)
        md = None
        if scaled and rng.random() < 0.4:
            md = s // NS - rng.randint(0, 1)
        scen.append({"rows": rows, "A": A, "B": B, "scale": scale, "md_start": md, "id": k})
    return scen


def sweep_points(rows, layouts, scale):
    b = set()
    for r in rows:
        b.update([r[0], r[1]])
    for lay in layouts:
        for s, e, _ in lay:
            b.update([s, e])
    pts = set()
    for x in b:
        pts.update([x - 1, x, x + 1])
        if scale > 1:
            pts.update([x - scale, x + scale])
    return sorted(p for p in pts if p >= -1)


def random_pred(rng, rows, two, depth=0):
    fields = ["time", "endtime", "id", "channel"] + (["idb", "x"] if two else [])
    u = rng.random()
    if depth >= 2 or u < 0.55:
        f = rng.choice(fields)
        if f in ("time", "endtime"):
            k = rng.choice(rows)[rng.randint(0, 1)] + rng.randint(-1, 1)
        elif f == "id":
            k = rng.randint(0, len(rows))
        elif f == "idb":
            k = 100 + rng.randint(0, len(rows))
        elif f == "x":
            k = 10 + rng.randint(0, 2)
        else:
            k = rng.randint(0, 2)
        return ["cmp", f, rng.choice(OPS), k]
    if u < 0.75:
        return ["and", random_pred(rng, rows, two, depth + 1), random_pred(rng, rows, two, depth + 1)]
    if u < 0.9:
        return ["or", random_pred(rng, rows, two, depth + 1), random_pred(rng, rows, two, depth + 1)]
    return ["not", random_pred(rng, rows, two, depth + 1)]


def random_extras(rng, rows, two):
    """selection / keep / drop decoration of a request"""
    ex = {}
    u = rng.random()
    if u < 0.6:
        form = rng.choice(["str", "list", "callable", "callable", "str", "empty"])
        preds = [] if form == "empty" else [random_pred(rng, rows, two) for _ in range(rng.randint(1, 2))]
        ex["sel"] = {"form": form, "preds": preds}
    names = ["time", "endtime", "id", "channel"] + (["idb", "x"] if two else [])
    u = rng.random()
    if u < 0.3:
        ex["keep"] = rng.sample(names, rng.randint(1, len(names)))
        if rng.random() < 0.1:
            ex["keep"].append("nope")
    elif u < 0.55:
        ex["drop"] = rng.sample(names, rng.randint(1, len(names)))   # may drop every column
        if rng.random() < 0.15:
            ex["drop"].append("nope")
    elif u < 0.6:
        ex["keep"], ex["drop"] = ["time"], ["id"]
    elif u < 0.65:
        ex["keep"] = []
    return ex


def requests_for(rng, sc, lay, budget):
    """the request list of one stored scenario. lay: actual layouts {"aa","ar","bb","br"}"""
    rows, scale = sc["rows"], sc["scale"]
    reqs = []
    base = {"rows": rows, "md_start": sc["md_start"]}
    pts = sweep_points(rows, [lay["aa"], lay["ar"], lay["bb"]], scale)
    pairs = [(a, b) for a in pts for b in pts if a <= b]
    inverted = [(b, a) for (a, b) in pairs if a < b]

    def two_ok(targets):
        """Two targets are requested together only on layouts that Plugin.iter can align at all:
        no zero-length chunk and no zero-length row sitting exactly on a chunk boundary (which side of a
        boundary such a row belongs to is decided by where it is stored; the merge of two differently
        chunked inputs then fails with 'different number of items' / 'terminated without fetching last'
        depending on which input becomes the pacemaker -- property C08's domain, see design_notes/C10.md)."""
        if len(targets) < 2:
            return True
        for tg in targets:
            bounds = set()
            for s, e, _ in lay[tg]:
                if s == e:
                    return False
                bounds.update([s, e])
            if any(r[0] == r[1] and r[0] in bounds for r in rows):
                return False
        return True

    def mk(targets, tr, mode, proc, **kw):
        c = dict(base)
        c.update({"targets": list(targets), "A": lay[targets[0]], "mode": mode, "proc": proc})
        if len(targets) == 2:
            c["B"] = lay[targets[1]]
        c.update(tr)
        c.update(kw)
        return c

    # 1. exhaustive endpoint sweep, one target, prescribed layout, both modes
    ex_pairs = pairs if len(pairs) <= budget["sweep"] else rng.sample(pairs, budget["sweep"])
    for tr in ex_pairs:
        for mode in ("fully_contained", "touching"):
            reqs.append(("sweep1", mk(["aa"], {"time_range": list(tr)}, mode, "single_thread")))
    # 2. the other dimensions on samples of the sweep
    def some(n, pool=pairs):
        return [pool[rng.randrange(len(pool))] for _ in range(n)] if pool else []
    for tr in some(budget["rechunked"]):
        reqs.append(("rechunked", mk(["ar"], {"time_range": list(tr)}, rng.choice(["fully_contained", "touching"]),
                                     rng.choice(["single_thread", "threaded_mailbox"]))))
    for tr in some(budget["mailbox"]):
        reqs.append(("mailbox", mk(["aa"], {"time_range": list(tr)}, rng.choice(["fully_contained", "touching"]),
                                   "threaded_mailbox")))
    for tr in some(budget["two"]):
        tg = rng.choice([["aa", "bb"], ["aa", "bb"], ["ar", "bb"], ["aa", "br"], ["bb", "aa"]])
        if tg == ["bb", "aa"]:
            continue   # field order / collision winner differ; kept out of the model's pair encoding
        reqs.append(("two_targets", mk(tg, {"time_range": list(tr)}, rng.choice(["fully_contained", "touching"]),
                                       rng.choice(["single_thread", "single_thread", "threaded_mailbox"]))))
    for tr in some(budget["extras"]):
        two = rng.random() < 0.3
        tg = ["aa", "bb"] if two else [rng.choice(["aa", "ar"])]
        reqs.append(("selection_columns", mk(tg, {"time_range": list(tr)},
                                             rng.choice(["fully_contained", "touching", "skip"]),
                                             rng.choice(["single_thread", "single_thread", "threaded_mailbox"]),
                                             **random_extras(rng, rows, two))))
    for tr in some(budget["odd"], inverted or pairs):
        reqs.append(("inverted_or_odd_mode", mk([rng.choice(["aa", "ar"])], {"time_range": list(tr)},
                                                rng.choice(["fully_contained", "touching", "skip", "bogus"]),
                                                "single_thread")))
    # 3. no time range at all (selection / columns only) and the other range forms
    for _ in range(budget["norange"]):
        two = rng.random() < 0.3
        reqs.append(("no_time_range", mk(["aa", "bb"] if two else ["aa"], {}, "fully_contained", "single_thread",
                                         **random_extras(rng, rows, two))))
    for _ in range(budget["within"]):
        r = rng.choice(rows)
        tw = [r[0] - rng.randint(0, 1) * max(1, scale // NS), r[1] + rng.randint(0, 1)]
        if rng.random() < 0.3:
            tw = list(rng.choice(pairs))
        reqs.append(("time_within", mk([rng.choice(["aa", "ar"])], {"time_within": tw},
                                       rng.choice(["fully_contained", "touching"]), "single_thread")))
    if scale == NS:
        first = lay["aa"][0][0]
        t0 = sc["md_start"] if sc["md_start"] is not None else first // NS
        secs = sorted({p // NS - t0 for p in pts} | {p // NS - t0 + 1 for p in pts})
        spairs = [(a, b) for a in secs for b in secs if a <= b]
        for sr in some(budget["seconds"], spairs):
            two = rng.random() < 0.25
            reqs.append(("seconds_range", mk(["aa", "bb"] if two else [rng.choice(["aa", "ar"])],
                                             {"seconds_range": list(sr)},
                                             rng.choice(["fully_contained", "touching"]),
                                             rng.choice(["single_thread", "threaded_mailbox"]))))
    if rng.random() < 0.5 and pairs:
        a, b = rng.choice(pairs), rng.choice(pairs)
        reqs.append(("many_ranges", mk(["aa"], {"time_range": list(a), "seconds_range": [0, 1],
                                                "time_within": list(b)}, "fully_contained", "single_thread")))
        reqs.append(("two_ranges", mk(["aa"], {"time_range": list(a), "time_within": list(b)}, "touching",
                                      "single_thread")))
    return [(g, c) for (g, c) in reqs if two_ok(c["targets"])]


BUDGET_QUICK = {"sweep": 50, "rechunked": 12, "mailbox": 4, "two": 18, "extras": 18, "odd": 4, "norange": 3,
                "within": 4, "seconds": 10}
# anchors / constants drifted: a wider generator even in the quick tier
BUDGET_ESCALATED = {"sweep": 200, "rechunked": 40, "mailbox": 12, "two": 60, "extras": 60, "odd": 10, "norange": 8,
                    "within": 10, "seconds": 40}
BUDGET_THOROUGH = {"sweep": 400, "rechunked": 100, "mailbox": 30, "two": 120, "extras": 120, "odd": 16,
                   "norange": 12, "within": 16, "seconds": 60}


# ------------------------------------------------------------------------------------------
# worker: store scenarios, run requests
# ------------------------------------------------------------------------------------------
def tmp_root():
    return os.path.join(lib.BUILD, "tmp", "c10_%d" % os.getpid())


def worker(args):
    root, wid, scen, seed, budget = args
    quiet()
    path = os.path.join(root, "w%d" % wid)
    os.makedirs(path, exist_ok=True)
    out = []
    tm = {"setup": 0.0, "store": 0.0, "requests": 0.0, "n": 0}
    try:
        t = lib.now()
        st = make_context(path)
        tm["setup"] = lib.now() - t
        for sc in scen:
            rng = random.Random(seed * 7919 + sc["id"])
            run_id = "%d" % (sc["id"] + 1)
            t = lib.now()
            try:
                lay = store_scenario(st, run_id, sc["rows"], sc["A"], sc["B"], sc["md_start"])
            except Exception as e:  # noqa
                out.append(("store", {"rows": sc["rows"], "A": sc["A"], "B": sc["B"]},
                            "store-failed %s" % err_code(e), None))
                continue
            tm["store"] += lib.now() - t
            t = lib.now()
            reqs = requests_for(rng, sc, lay, budget)
            # the canonical witnesses of the known findings are requested verbatim on every run
            for w in sc.get("witness_requests", ()):
                c = dict(w, rows=sc["rows"], md_start=None, A=lay[w["targets"][0]])
                if len(w["targets"]) == 2:
                    c["B"] = lay[w["targets"][1]]
                reqs.append(("witness", c))
            # the stored full result must be the prescribed rows
            base = {}
            for group, case in reqs:
                tg = tuple(case["targets"])
                if tg not in base:
                    # the full result of this target combination (no range, no selection)
                    base[tg] = run_request(st, run_id, {"targets": list(tg), "mode": "fully_contained",
                                                        "proc": "single_thread"})
                out.append((group, case, run_request(st, run_id, case), base[tg]))
            tm["requests"] += lib.now() - t
            tm["n"] += len(reqs)
    except Exception:  # noqa
        out.append(("worker", {}, "worker-crash " + traceback.format_exc()[-1500:], None))
    finally:
        shutil.rmtree(path, ignore_errors=True)
    out.append(("timing", tm, "", None))
    return out


def run_pool(tasks):
    # The work is cut into the same 14 slices on every run (so the cases do not depend on the machine);
    # only the number of processes executing them adapts: on a busy machine more processes than free
    # cores lower the throughput (measured: 14 workers at load 90 are slower than 3).
    ncpu = os.cpu_count() or 4
    try:
        free = int(ncpu - os.getloadavg()[0])
    except OSError:
        free = ncpu - 2
    nproc = max(1, min(14, ncpu - 2, max(3, free), len(tasks)))
    ctxmp = multiprocessing.get_context("fork")
    with ctxmp.Pool(nproc) as pool:
        res = pool.map(worker, tasks, chunksize=1)
    return [x for r in res for x in r]


# ------------------------------------------------------------------------------------------
# comparison
# ------------------------------------------------------------------------------------------
def first_start(case):
    return case["A"][0][0]


def straddled_right(case, tr):
    return tr is not None and any(r[0] < tr[1] < r[1] for r in case["rows"])


def verdict(case, got):
    """The property's own predicate on one real request: None if it holds, else (what was expected, tr).
    Independent of strax and of the model: pure-python selection of the prescribed rows; an explicit error
    iff the range overlaps no stored chunk of some requested target."""
    many = sum(case.get(k) is not None for k in ("time_range", "seconds_range", "time_within"))
    if many >= 3:
        return None if got.startswith("err") else "err 45"
    tr = abs_range(case, first_start(case))
    want = oracle(case, tr)
    if want.startswith("err"):
        # an invalid request (both keep and drop, unknown column / mode): any explicit error satisfies the
        # property; which of several errors comes first is not compared
        return None if got.startswith("err") else want
    skip = tr is not None and case["mode"] == "skip"   # returns what the loaded chunks hold: layout dependent
    lays = [case["A"]] + ([case["B"]] if "B" in case else [])
    nochunk = tr is not None and any(all(e <= tr[0] or tr[1] <= s for s, e, _ in lay) for lay in lays)
    if nochunk:
        if got in ("err 40", "err 50") and (skip or want.endswith("|")):
            return None
        if not got.startswith("err"):
            return "an explicit error: the range %s overlaps no stored chunk" % (list(tr),)
        return want    # rows of the full selection replaced by an error
    if skip:
        return None if not got.startswith("err") else "a result: time_selection='skip' on a range overlapping a chunk"
    return None if got == want else want


def judge(ctx, group, case, got, model_out):
    """compare implementation / model / oracle for one request; returns a tag for the distribution"""
    parts = [x.strip() for x in model_out.split("#")]
    mget, mfull = parts[0], parts[1]
    lost = parts[2] if len(parts) > 2 else ""
    many = sum(case.get(k) is not None for k in ("time_range", "seconds_range", "time_within"))
    tr = abs_range(case, first_start(case)) if many < 3 else None
    # the model's own oracle must be the python oracle (keeps the two specifications tied)
    pyfull = oracle(case, tr) if many < 3 else "err 45"
    if not pyfull.startswith("err") and not (tr is not None and case["mode"] == "skip") and mfull != pyfull:
        ctx.violation("oracle", "python oracle and the model's selection of the full result differ: %s vs %s"
                      % (pyfull, mfull), {"input": "corr:C10/oracle", "case": case, "python": pyfull, "model": mfull},
                      no_failing_input=True)
        return "oracle-mismatch"
    want = verdict(case, got)
    if want is None:
        if got != mget and not pyfull.startswith("err"):
            ctx.violation(group, "model/implementation disagree (impl %s, model %s); the property itself holds on "
                          "this request" % (got[:120], mget[:120]),
                          {"input": "corr:C10/%s" % group, "case": case, "impl": got, "model": mget, "unit": group},
                          no_failing_input=True)
            return "corr-mismatch"
        return "agree"
    # the property fails on the real code for this request
    what = "get_array returned %s but the selection of the full result is %s" % (got[:160], want[:160])
    if got == mget:
        lost_sets = [s.split("=")[1] for s in lost.split() if "=" in s]
        if case["mode"] == "fully_contained" and any(lost_sets) and \
                (not got.startswith("err") or got in ("err 40", "err 50", "err 54", "err 55")):
            ctx.violation(UNIT_ZERO, what, {"input": W_ZERO, "case": case, "impl": got, "oracle": want, "unit": group})
            return "known:zero-length-edge"
        if got == "err 51" and len(case["targets"]) == 2 and straddled_right(case, tr) and case["A"] != case.get("B"):
            ctx.violation(UNIT_STRADDLE, what, {"input": W_STRADDLE, "case": case, "impl": got, "oracle": want,
                                                "unit": group})
            return "known:two-targets-straddle"
    return _violate(ctx, group, case, got, want, mget)


def _violate(ctx, group, case, got, want, mget):
    what = "get_array returned %s but the selection of the full result is %s" % (got[:160], want[:160])
    ctx.violation(group, what, {"input": case, "impl": got, "oracle": want, "model": mget, "unit": group})
    return "VIOLATION"


def nontrivial(case, got):
    """a request is non-trivial when its range cuts the data: at least one row selected and one not, or
    an error / empty result next to a chunk boundary"""
    if not got.startswith("ok"):
        return True
    n = len([x for x in got.split("|")[1].split(";") if x])
    return 0 < n < len(case["rows"]) or (n == 0 and len(case["rows"]) > 0)


def unit_get_array(ctx):
    if ctx.thorough:
        nscen, budget = 90, BUDGET_THOROUGH
    elif ctx.escalated():
        nscen, budget = 56, BUDGET_ESCALATED
    else:
        nscen, budget = 22, BUDGET_QUICK
    scen = make_scenarios(ctx.rng, nscen)
    # canonical witnesses are always part of the scope
    def wreq(w):
        return {k: w[k] for k in ("targets", "time_range", "mode", "proc")}
    scen.append({"rows": [tuple(r) for r in W_ZERO["rows"]], "A": [tuple(x) for x in W_ZERO["A"]],
                 "B": [(0, 20, 4)], "scale": 1, "md_start": None, "id": nscen,
                 "witness_requests": [wreq(W_ZERO), dict(wreq(W_ZERO), proc="threaded_mailbox")]})
    scen.append({"rows": [tuple(r) for r in W_STRADDLE["rows"]], "A": [tuple(x) for x in W_STRADDLE["A"]],
                 "B": [tuple(x) for x in W_STRADDLE["B"]], "scale": 1, "md_start": None, "id": nscen + 1,
                 "witness_requests": [wreq(W_STRADDLE), dict(wreq(W_STRADDLE), mode="fully_contained"),
                                      dict(wreq(W_STRADDLE), proc="threaded_mailbox")]})
    root = tmp_root()
    shutil.rmtree(root, ignore_errors=True)
    os.makedirs(root, exist_ok=True)
    nw = 14
    tasks = [(root, w, scen[w::nw], ctx.seed, budget) for w in range(nw) if scen[w::nw]]
    t_pool = lib.now()
    try:
        results = run_pool(tasks)
    finally:
        shutil.rmtree(root, ignore_errors=True)
    timing = [case for group, case, _, _ in results if group == "timing"]
    results = [r for r in results if r[0] != "timing"]
    ctx.notes.append(
        "get_array: %d real requests in %.1f s wall (forked workers; slowest worker: setup %.1f s, storing %.1f s, "
        "requests %.1f s; all workers together: storing %.1f s, requests %.1f s)"
        % (len(results), lib.now() - t_pool,
           max([t["setup"] for t in timing] or [0]), max([t["store"] for t in timing] or [0]),
           max([t["requests"] for t in timing] or [0]),
           sum(t["store"] for t in timing), sum(t["requests"] for t in timing)))
    cases, lines, skipped = [], [], {}
    for group, case, got, full in results:
        if group in ("store", "worker"):
            ctx.violation("store", "could not store / run a scenario: %s" % got,
                          {"input": "corr:C10/store", "case": case, "what": got}, no_failing_input=True)
            continue
        want_full = oracle({"rows": case["rows"], "targets": case["targets"], "mode": "fully_contained"}, None)
        if full != want_full:
            if len(case["targets"]) == 2 and full.startswith("err"):
                # the two targets cannot even be loaded together in full with these layouts (zero-length
                # chunks / zero-length rows on differing chunk boundaries make Plugin.iter fail: property
                # C08's domain); there is no full result to commute with
                skipped[full] = skipped.get(full, 0) + 1
                continue
            ctx.violation("store", "the stored full result differs from the prescribed rows: %s vs %s" % (full, want_full),
                          {"input": "corr:C10/store", "case": case}, no_failing_input=True)
            continue
        cases.append((group, case, got))
        lines.append(model_line(case))
    mout = lib.run_model_parallel("C10", lines)
    dist, nontriv, per_group = {}, {}, {}
    for (group, case, got), mo in zip(cases, mout):
        tag = judge(ctx, group, case, got, mo)
        dist[group + ":" + tag] = dist.get(group + ":" + tag, 0) + 1
        per_group[group] = per_group.get(group, 0) + 1
        if nontrivial(case, got):
            key = dict(case)
            key.pop("proc", None)
            nontriv.setdefault(group, set()).add(lib.canon(key))
    for g, n in per_group.items():
        ctx.count("get_array/" + g, n, len(nontriv.get(g, ())), {k: v for k, v in dist.items() if k.startswith(g + ":")})
    for i in (len(cases) // 7, len(cases) // 2, (4 * len(cases)) // 5):
        if cases:
            g, c, got = cases[i]
            ctx.sample({"unit": "get_array/" + g, "case": c, "impl": got, "model": mout[i]})
    ctx.coverage.setdefault("layouts", {})["scenarios"] = len(scen)
    ctx.coverage["layouts"]["two_target_requests_skipped_because_full_load_fails"] = skipped
    return cases, mout


# ------------------------------------------------------------------------------------------
# direct units: strax.apply_selection and StorageBackend.apply_time_range (cheap, exhaustive)
# ------------------------------------------------------------------------------------------
def small_row_lists(nmax, grid, maxlen):
    cells = [(t, t + ln) for t in range(grid) for ln in range(maxlen + 1)]

    def rec(prefix, n, min_t):
        if len(prefix) == n:
            yield [(t, e, i, i % 3) for i, (t, e) in enumerate(prefix)]
            return
        for (t, e) in cells:
            if t >= min_t:
                yield from rec(prefix + [(t, e)], n, t)
    for n in range(nmax + 1):
        yield from rec([], n, 0)


def unit_apply_selection(ctx):
    strax = _strax()
    thorough = ctx.thorough or ctx.escalated()
    cases = []
    for rows in small_row_lists(3 if thorough else 2, 4, 2):
        rows = [(t + 1, e + 1, i, ch) for (t, e, i, ch) in rows]
        for t0 in range(0, 7):
            for t1 in range(0, 8):
                for mode in ("fully_contained", "touching"):
                    cases.append({"rows": rows, "A": [(0, 9, len(rows))], "targets": ["aa"], "mode": mode,
                                  "time_range": [t0, t1]})
    for _ in range(6000 if thorough else 1200):
        rows = random_rows(ctx.rng, ctx.rng.randint(1, 6), 1, 12)
        pts = sweep_points(rows, [], 1)
        c = {"rows": rows, "A": [(0, max(r[1] for r in rows) + 1, len(rows))], "targets": ["aa"],
             "mode": ctx.rng.choice(["fully_contained", "touching", "skip", "bogus"]),
             "time_range": sorted([ctx.rng.choice(pts), ctx.rng.choice(pts)])}
        if ctx.rng.random() < 0.15:
            c.pop("time_range")
        c.update(random_extras(ctx.rng, rows, False))
        cases.append(c)
    lines = [model_line(c) for c in cases]
    mout = lib.run_model_parallel("C10", lines)
    dist, nontriv, bad = {}, set(), 0
    for c, mo in zip(cases, mout):
        a = impl.mk_array(c["rows"])
        kw = {}
        if c.get("sel") is not None:
            kw["selection"] = selection_arg(c["sel"])
        try:
            r = strax.apply_selection(a, time_range=tuple(c["time_range"]) if "time_range" in c else None,
                                      time_selection=c["mode"], keep_columns=c.get("keep"), drop_columns=c.get("drop"),
                                      **kw)
            got = canon_array(r)
        except Exception as e:  # noqa
            got = "err %s" % err_code(e)
        mfull = mo.split("#")[1].strip()
        tr = tuple(c["time_range"]) if "time_range" in c else None
        want = oracle(c, tr)
        if tr is not None and c["mode"] == "skip":
            want = got if got == mfull else None
        tag = "agree"
        if want is not None and got != want:
            tag = "VIOLATION"
            ctx.violation("apply_selection", "strax.apply_selection returned %s, the documented selection is %s"
                          % (got[:160], want[:160]),
                          {"input": {k: v for k, v in c.items() if k not in ("A", "targets")}, "impl": got,
                           "oracle": want, "unit": "apply_selection"})
            bad += 1
        elif got != mfull:
            tag = "corr-mismatch"
            ctx.violation("apply_selection", "model/implementation disagree on apply_selection (impl %s, model %s)"
                          % (got[:120], mfull[:120]),
                          {"input": "corr:C10/apply_selection", "case": c, "impl": got, "model": mfull,
                           "unit": "apply_selection"}, no_failing_input=True)
            bad += 1
        k = c["mode"] + ":" + ("err" if got.startswith("err") else "ok") + ":" + tag
        dist[k] = dist.get(k, 0) + 1
        if nontrivial(c, got):
            nontriv.add(lib.canon(c))
        if bad > 6:
            break
    ctx.count("apply_selection", len(cases), len(nontriv), dist)
    ctx.sample({"unit": "apply_selection", "case": cases[len(cases) // 2], "model": mout[len(cases) // 2]})


def unit_apply_time_range(ctx):
    strax = _strax()
    thorough = ctx.thorough or ctx.escalated()
    cases = []
    for rows in small_row_lists(3 if thorough else 2, 4, 2):
        rows = [(t + 1, e + 1, i, ch) for (t, e, i, ch) in rows]
        hi = max([r[1] for r in rows] + [1])
        for (s, e) in ((0, hi + 1), (1 if rows and rows[0][0] >= 1 else 0, hi)):
            for t0 in range(0, hi + 3):
                for t1 in range(0, hi + 3):
                    cases.append((rows, s, e, t0, t1))
    for _ in range(8000 if thorough else 1500):
        rows = random_rows(ctx.rng, ctx.rng.randint(0, 8), 1, 14)
        s = min([r[0] for r in rows] + [2]) - ctx.rng.randint(0, 1)
        e = max([r[1] for r in rows] + [s]) + ctx.rng.randint(0, 2)
        pts = sweep_points(rows, [[(s, e, 0)]], 1)
        cases.append((rows, s, e, ctx.rng.choice(pts), ctx.rng.choice(pts)))
    lines = ["atr %d %d %d %d 1 1 7 4 %s" % (t0, t1, s, e, impl.enc_rows(rows)) for rows, s, e, t0, t1 in cases]
    mout = lib.run_model_parallel("C10", lines)
    dist, nontriv, bad = {}, set(), 0
    for (rows, s, e, t0, t1), mo in zip(cases, mout):
        a = impl.mk_array(rows)
        try:
            ch = strax.Chunk(start=s, end=e, data=a, dtype=a.dtype, data_type="aa", data_kind="k", run_id="7",
                             target_size_mb=1)
            r = strax.StorageBackend.apply_time_range(ch, (t0, t1))
            got = "ok %d %d %s" % (r.start, r.end, ",".join(str(x) for x in impl.ids_of(r.data)))
        except Exception as ex:  # noqa
            got = "err %s" % ("10" if isinstance(ex, strax.CannotSplit) else err_code(ex))
        # property side: no row that the time selection would keep may be dropped, unless it is a
        # zero-length row on the edge (the known class); nothing is invented or reordered
        reason = None
        if got.startswith("err"):
            # every generated chunk is well formed: apply_time_range must not raise on it
            # (CannotSplit on the right edge is to be swallowed, the left split is an early split)
            reason = "raised (%s) on a well-formed chunk" % got
        if got.startswith("ok"):
            ids = [int(x) for x in got.split()[3].split(",")] if len(got.split()) > 3 else []
            allids = [r[2] for r in rows]
            if ids != [i for i in allids if i in ids]:
                reason = "rows reordered or invented"
            for (t, en, i, _) in rows:
                touching = en > t0 and t < t1
                fc = t0 <= t and en <= t1
                if (touching or (fc and not (t == en and t in (t0, t1)))) and i not in ids \
                        and not (e <= t0 or t1 <= s):
                    reason = "row %d is selected by the range but was dropped" % i
        tag = "agree"
        if reason:
            tag = "VIOLATION"
            ctx.violation("apply_time_range", "StorageBackend.apply_time_range: %s (impl %s)" % (reason, got),
                          {"input": {"rows": rows, "start": s, "end": e, "time_range": [t0, t1]}, "impl": got,
                           "unit": "apply_time_range"})
            bad += 1
        elif got != mo:
            tag = "corr-mismatch"
            ctx.violation("apply_time_range", "model/implementation disagree on apply_time_range (impl %s, model %s)"
                          % (got, mo), {"input": "corr:C10/apply_time_range",
                                        "case": {"rows": rows, "start": s, "end": e, "time_range": [t0, t1]},
                                        "impl": got, "model": mo, "unit": "apply_time_range"}, no_failing_input=True)
            bad += 1
        dist[tag] = dist.get(tag, 0) + 1
        if rows and s < t0 < e or s < t1 < e:
            nontriv.add(lib.canon([rows, s, e, t0, t1]))
        if bad > 6:
            break
    ctx.count("apply_time_range", len(cases), len(nontriv), dist)
    ctx.sample({"unit": "apply_time_range", "case": cases[len(cases) // 2], "model": mout[len(cases) // 2]})


# ------------------------------------------------------------------------------------------
# saver guard: a partial request never creates savers / never stores anything
# ------------------------------------------------------------------------------------------
def saver_worker(args):
    root, seed, n = args
    quiet()
    strax = _strax()
    path = os.path.join(root, "savers")
    os.makedirs(path, exist_ok=True)
    out = []
    try:
        rng = random.Random(seed * 31 + 5)
        st = make_context(path)
        rows = [(1, 3, 0, 0), (4, 6, 1, 1), (10, 10, 2, 0), (12, 15, 3, 1)]
        SCEN["1"] = {"aa": layout_chunks(rows, [(0, 10, 2), (10, 20, 2)])}
        st.make("1", "aa", progress_bar=False, processor="single_thread")
        names = ["dnever", "dexplicit", "dtarget", "dalways"]
        sw = {"dnever": 0, "dexplicit": 1, "dtarget": 2, "dalways": 3}
        combos = []
        for tgt in names:
            for save in ((), (tgt,)):
                for part in ({}, {"time_range": (0, 20)}, {"time_range": (2, 13)}, {"selection": "channel == 1"},
                             {"selection": ""}, {"keep_columns": ("time", "id")}, {"drop_columns": ("channel",)},
                             {"keep_columns": ()}, {"time_range": (2, 13), "selection": "id > 0"}):
                    combos.append((tgt, save, part))
        rng.shuffle(combos)
        for tgt, save, part in combos[:n]:
            rec = {"target": tgt, "save": list(save), "partial": {k: (list(v) if isinstance(v, tuple) else v)
                                                                  for k, v in part.items()}}
            # (a) the planner: which savers does get_components create?
            try:
                comps = st.get_components("1", targets=(tgt,), save=save,
                                          time_range=part.get("time_range"), selection=part.get("selection"),
                                          keep_columns=part.get("keep_columns"), drop_columns=part.get("drop_columns"))
                rec["savers"] = "ok " + ",".join(sorted(k for k, v in comps.savers.items() if v))
            except Exception as e:  # noqa
                rec["savers"] = "err %s" % err_code(e)
            # (b) end to end: run the request, then look at the storage
            before = sorted(os.listdir(path))
            try:
                st.get_array("1", tgt, save=save, progress_bar=False, **part)
                rec["ran"] = "ok"
            except Exception as e:  # noqa
                rec["ran"] = "err %s" % err_code(e)
            after = sorted(os.listdir(path))
            rec["new_dirs"] = [d for d in after if d not in before]
            rec["stored_after"] = bool(st.is_stored("1", tgt))
            # forget what a full request stored, so every combination starts from "not stored"
            for d in rec["new_dirs"]:
                shutil.rmtree(os.path.join(path, d), ignore_errors=True)
            rec["model_line"] = "savers 0 0 0 %d %d %d %d 2 %d %d 1 %d 0 0 1 3 0 0 0 1" % (
                "time_range" in part, "selection" in part, "keep_columns" in part, "drop_columns" in part,
                10 + sw[tgt], sw[tgt], 1 if save else 0)
            out.append(rec)
    except Exception:  # noqa
        out.append({"crash": traceback.format_exc()[-1500:]})
    finally:
        shutil.rmtree(path, ignore_errors=True)
    return out


def unit_saver_guard(ctx):
    root = tmp_root() + "_s"
    shutil.rmtree(root, ignore_errors=True)
    os.makedirs(root, exist_ok=True)
    try:
        with multiprocessing.get_context("fork").Pool(1) as pool:
            recs = pool.map(saver_worker, [(root, ctx.seed, 72 if (ctx.thorough or ctx.escalated()) else 40)])[0]
    finally:
        shutil.rmtree(root, ignore_errors=True)
    recs_ok = [r for r in recs if "crash" not in r]
    for r in recs:
        if "crash" in r:
            ctx.violation("saver_guard", "saver-guard worker crashed: " + r["crash"][-300:],
                          {"input": "corr:C10/saver_guard", "traceback": r["crash"]}, no_failing_input=True)
    mout = lib.run_model("C10", [r["model_line"] for r in recs_ok])
    names = {10: "dnever", 11: "dexplicit", 12: "dtarget", 13: "dalways"}
    dist, nontriv = {}, set()
    for r, mo in zip(recs_ok, mout):
        if mo.startswith("ok"):
            mo = "ok " + ",".join(sorted(names[int(x)] for x in mo[3:].split(",") if x))
        case = {k: r[k] for k in ("target", "save", "partial")}
        partial = bool(r["partial"])
        tag = "agree"
        if partial and (r["new_dirs"] or r["stored_after"] or (r["savers"].startswith("ok") and r["savers"] != "ok ")):
            tag = "VIOLATION"
            ctx.violation("saver_guard", "a partial request (%s) saved data: savers=%s new storage entries=%s"
                          % (r["partial"], r["savers"], r["new_dirs"]),
                          {"input": case, "impl": r, "unit": "saver_guard"})
        elif r["savers"] != mo:
            tag = "corr-mismatch"
            ctx.violation("saver_guard", "model/implementation disagree on the savers of get_components "
                          "(impl %s, model %s)" % (r["savers"], mo),
                          {"input": "corr:C10/saver_guard", "case": case, "impl": r["savers"], "model": mo,
                           "unit": "saver_guard"}, no_failing_input=True)
        k = ("partial" if partial else "full") + ":" + r["savers"].split()[0] + ":" + tag
        dist[k] = dist.get(k, 0) + 1
        if partial:
            nontriv.add(lib.canon(case))
    ctx.count("saver_guard", len(recs_ok), len(nontriv), dist)
    if recs_ok:
        ctx.sample({"unit": "saver_guard", "case": {k: recs_ok[0][k] for k in ("target", "save", "partial", "savers")}})


# ------------------------------------------------------------------------------------------
# extraction cross-check inside Coq
# ------------------------------------------------------------------------------------------
def coq_rows(rows):
    return "[" + "; ".join("mkrow (%d) (%d) (%d) (%d)" % tuple(r) for r in rows) + "]"


def coq_chunks(rows, layout, dt):
    return "[" + "; ".join("mkchunk (%d) (%d) %s %d 1 (Some 7) 4" % (s, e, coq_rows(part), dt)
                           for s, e, part in layout_chunks(rows, layout)) + "]"


def coq_result(s):
    if s.startswith("err"):
        return "Err (%s)" % s.split()[1]
    fs, rows = s[3:].split("|")
    return "Ok ([%s], [%s])" % ("; ".join(fs.split(",")),
                                "; ".join("[" + "; ".join("(%s)" % v for v in r.split(",")) + "]"
                                          for r in rows.split(";") if r))


def unit_crosscheck(ctx, cases, mout):
    idx = [i for i, (g, c, _) in enumerate(cases)
           if c.get("time_range") is not None and c.get("seconds_range") is None and c.get("time_within") is None
           and c.get("sel") is None and c["mode"] in ("fully_contained", "touching")]
    idx = sorted(ctx.rng.sample(idx, min(120, len(idx))))
    eqs = []
    for i in idx:
        _, c, _ = cases[i]
        rows = [tuple(r) for r in c["rows"]]
        mode = "FC" if c["mode"] == "fully_contained" else "Touching"

        def ol(l):
            return "None" if l is None else "(Some [%s])" % "; ".join(str(FID[x]) for x in l)
        tr = "(Some ((%d), (%d)))" % tuple(c["time_range"])
        got = coq_result(mout[i].split("#")[0].strip())
        if len(c["targets"]) == 1:
            eqs.append("get_array_abs %s %s %s (fun _ => true) %s %s = %s"
                       % (coq_chunks(rows, c["A"], 1), tr, mode, ol(c.get("keep")), ol(c.get("drop")), got))
        else:
            eqs.append("get_array2_abs %s %s %s %s (fun _ => true) %s %s = %s"
                       % (coq_chunks(rows, c["A"], 1), coq_chunks(rows_b(rows), c["B"], 2), tr, mode,
                          ol(c.get("keep")), ol(c.get("drop")), got))
    n, fails = lib.coq_crosscheck("C10", "From SV Require Import Model.Rows Model.Chunk Model.Selection.", eqs)
    ctx.coverage.setdefault("kernel_crosscheck", {})["get_array"] = {"equations": n, "failed_files": len(fails)}
    if fails:
        ctx.violation("get_array", "extracted model and Coq vm_compute disagree: " + fails[0][-400:],
                      {"input": "corr:C10/get_array/extraction-crosscheck", "log": fails[0]}, no_failing_input=True)


# ------------------------------------------------------------------------------------------
def run(ctx):
    ctx.coverage["rule"] = (
        "get_array: seeded random small runs (1-5 rows with overlaps, shared endpoints, zero-length rows; every 4th "
        "run on a 1 s grid for seconds_range) stored with a prescribed random well-formed chunking (zero-length rows "
        "on a cut on either side, zero-length chunks), a Rechunker-written copy and a second same-kind target with an "
        "independent chunking; per run: every range with both endpoints in {b-1, b, b+1 : b a row or chunk boundary of "
        "any stored layout} (capped per tier) x {fully_contained, touching} on one target, and samples of that sweep "
        "for the rechunked layout, the threaded_mailbox processor, two targets, selection strings / lists / "
        "callables, keep / drop columns (incl. both, unknown, all), skip / unknown mode, inverted ranges, "
        "time_within, seconds_range (with and without run metadata), several range arguments at once. "
        "apply_selection / apply_time_range: all start-sorted lists of <=2/3 rows on a 4-point grid with lengths 0..2 "
        "x all ranges x modes, plus random. saver_guard: 4 SaveWhen values x save list x 9 request shapes. "
        "Non-trivial: the range cuts the data (some but not all rows selected, an empty result or an error); "
        "distinct by canonical JSON of the request without the processor.")
    ctx.assumptions += [
        "integer time ranges only (float seconds_range is outside the exact comparison)",
        "numexpr evaluation of selection strings is exercised, not modelled (predicate language of comparisons)",
        "Plugin.iter for the merge of two targets is modelled for two loader-fed inputs (C08 owns the general proof)",
        "the stored full result equals the rows handed to the saver (property C03); checked per run",
    ]
    unit_apply_selection(ctx)
    unit_apply_time_range(ctx)
    cases, mout = unit_get_array(ctx)
    unit_saver_guard(ctx)
    unit_crosscheck(ctx, cases, mout)


def replay(ctx, obj):
    r = obj["replay"]
    case = r.get("case") if (isinstance(r.get("input"), str) or "case" in r) else r.get("input")
    unit = r.get("unit") or obj.get("unit")
    if unit == "apply_selection" or (isinstance(case, dict) and "targets" not in case and "start" not in case):
        strax = _strax()
        a = impl.mk_array([tuple(x) for x in case["rows"]])
        kw = {"selection": selection_arg(case["sel"])} if case.get("sel") is not None else {}
        c = dict(case, targets=["aa"])
        try:
            got = canon_array(strax.apply_selection(
                a, time_range=tuple(case["time_range"]) if "time_range" in case else None,
                time_selection=case["mode"], keep_columns=case.get("keep"), drop_columns=case.get("drop"), **kw))
        except Exception as e:  # noqa
            got = "err %s" % err_code(e)
        want = oracle(c, tuple(case["time_range"]) if "time_range" in case else None)
        print("impl:", got, "| documented selection:", want)
        return 0 if got == want else 1
    if unit == "apply_time_range" or (isinstance(case, dict) and "start" in case):
        strax = _strax()
        a = impl.mk_array([tuple(x) for x in case["rows"]])
        ch = strax.Chunk(start=case["start"], end=case["end"], data=a, dtype=a.dtype, data_type="aa", data_kind="k",
                         run_id="7", target_size_mb=1)
        try:
            res = strax.StorageBackend.apply_time_range(ch, tuple(case["time_range"]))
        except Exception as e:  # noqa
            print("impl: raised %s: %s on a well-formed chunk" % (type(e).__name__, str(e)[:100]))
            return 1
        print("impl: [%d, %d) ids %s" % (res.start, res.end, impl.ids_of(res.data)))
        t0, t1 = case["time_range"]
        ids = impl.ids_of(res.data)
        bad = [i for (t, e, i, _) in case["rows"]
               if ((e > t0 and t < t1) or (t0 <= t and e <= t1 and not (t == e and t in (t0, t1)))) and i not in ids]
        print("selected rows that were dropped:", bad)
        return 1 if bad else 0
    if unit == "saver_guard":
        print("replay of saver_guard cases: run bin/check C10 (the unit is cheap and deterministic)")
        return 0
    # a get_array request
    root = tmp_root() + "_r"
    shutil.rmtree(root, ignore_errors=True)
    os.makedirs(root, exist_ok=True)
    try:
        stdout = sys.stdout
        with contextlib.redirect_stdout(io.StringIO()):
            import logging
            logging.disable(logging.CRITICAL)
            threading.excepthook = lambda a: None
            st = make_context(root)
            rows = [tuple(x) for x in case["rows"]]
            SCEN["1"] = {}
            if case.get("md_start") is not None:
                import datetime
                utc = datetime.timezone.utc
                st.storage[0].write_run_metadata("1", {
                    "name": "1",
                    "start": datetime.datetime.fromtimestamp(case["md_start"], utc).replace(tzinfo=None),
                    "end": datetime.datetime.fromtimestamp(case["md_start"] + 100, utc).replace(tzinfo=None)})
            for tg, key in zip(case["targets"], ("A", "B")):
                src = rows_b(rows) if tg.startswith("b") else rows
                base = tg[0] + tg[0]       # aa / bb: write the recorded layout with the non-rechunking source
                SCEN["1"][base] = layout_chunks(src, [tuple(x) for x in case[key]])
                st.make("1", base, progress_bar=False, processor="single_thread")
            c = dict(case, targets=[t[0] + t[0] for t in case["targets"]])
            got = run_request(st, "1", c)
        sys.stdout = stdout
        want = verdict(case, got)
        print("impl:", got, "| property:", "holds" if want is None else "FAILS, expected " + want)
        return 0 if want is None else 1
    finally:
        shutil.rmtree(root, ignore_errors=True)
