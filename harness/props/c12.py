"""C12 — outputs that violate a plugin's declared contract are rejected, not stored.

Units
  ctor        strax.Chunk(...) against Model mk_xchunk: dtype comparison + range checks, chunks of up to
              (and a few beyond) 500 time-sorted rows
  continuity  strax.continuity_check against Model continuity_check
  timefields  Plugin.fix_dtype (required time fields) against Model time_fields_ok
  matrix      real Context.get_array / make with misbehaving harness plugins of every plugin kind
              (harness/props/c12_impl.py) against Model run_cell, for every cell
              (violation kind x plugin kind x variant) x position x number of chunks x rechunk_on_save
              x api x processor; afterwards is_stored / loadability from a fresh Context
"""
import itertools
import multiprocessing
import os
import shutil
import sys

import numpy as np
import strax

from harness import gen, lib
from harness.props import c12_impl as I

MODEL_PROPS = ["C12"]
LEVEL = "proof"
PROPERTY_WINDOW = 500   # the bound in the statement of C12 (not read from the source on purpose)
TMP = os.path.join(lib.BUILD, "tmp", "c12")


# ------------------------------------------------------------------------------------------
# ctor
# ------------------------------------------------------------------------------------------

def enc_adt(adt):
    return " ".join([str(len(adt))] + ["%d %d" % p for p in adt])


def enc_rows3(rows):
    return " ".join([str(len(rows))] + ["%d %d %d 0" % (t, e, i) for (t, e, i) in rows])


def fill_fast(adt, rows, titles):
    a = np.zeros(len(rows), dtype=I.np_dtype(adt, titles))
    if rows:
        arr = np.array(rows, dtype=np.int64)
        a["time"] = arr[:, 0]
        if "endtime" in a.dtype.names:
            a["endtime"] = arr[:, 1]
        if "id" in a.dtype.names:
            a["id"] = arr[:, 2]
    return a


def impl_ctor(case):
    decl, dt, titles, s, e, rows = case
    data = fill_fast(dt, rows, titles)
    try:
        strax.Chunk(start=s, end=e, data=data, dtype=I.np_dtype(decl), data_type="tt", data_kind="tt", run_id="0")
    except Exception as ex:  # noqa
        return "err %s" % I.err_code(ex)
    return "ok"


def spec_ctor(case, out):
    """C12 for the constructor: within the property's window a chunk is accepted iff its dtype is the
    declared one, its range is valid and every row lies inside it."""
    decl, dt, titles, s, e, rows = case
    if len(rows) > PROPERTY_WINDOW or "endtime" not in [I.FNAME[f] for f, _ in dt]:
        return None
    bad = []
    if decl != dt:
        bad.append("data of another dtype than declared")
    if s < 0 or s > e:
        bad.append("invalid range")
    if any(r[0] < s for r in rows):
        bad.append("a row starts before the chunk")
    if any(r[1] > e for r in rows):
        bad.append("a row ends after the chunk")
    if bad and out == "ok":
        return "the constructor accepted a chunk with " + ", ".join(bad)
    if not bad and out != "ok":
        return "the constructor rejected a valid chunk: " + out
    return None


def ctor_cases(ctx):
    rng = ctx.rng
    cases = []
    decl = I.ADT_T
    dts = [(decl, True), (decl, False)] + [(I.wrong_dtype(decl, dv), True) for dv in range(5)]
    nmax = 3 if (ctx.thorough or ctx.escalated()) else 2
    for rows4 in gen.sorted_row_lists(nmax, 4, 2):
        rows = [(t, e, i) for (t, e, i, _) in rows4]
        lo = min([r[0] for r in rows], default=1)
        hi = max([r[1] for r in rows], default=1)
        for s in sorted({lo - 1, lo, lo + 1, -1, 0}):
            for e in sorted({hi - 1, hi, hi + 1, s - 1, s}):
                cases.append((decl, decl, True, s, e, rows))
        for dt, titles in dts[1:]:
            cases.append((decl, dt, titles, lo, hi, rows))
            cases.append((decl, dt, titles, lo + 1, hi, rows))
    nrand = 1500 if ctx.thorough else 260
    for k in range(nrand):
        big = k % 9 == 0
        n = rng.randint(PROPERTY_WINDOW + 1, PROPERTY_WINDOW + 120) if big else rng.choice(
            [rng.randint(1, 12), rng.randint(1, 80), rng.randint(300, PROPERTY_WINDOW), PROPERTY_WINDOW])
        r4 = gen.random_rows(rng, n, 10 * n, 12)
        rows = [(t, e, i) for (t, e, i, _) in r4]
        lo, hi = rows[0][0], max(r[1] for r in rows)
        s, e = lo - rng.choice([0, 0, 0, 1, 3]), hi + rng.choice([0, 0, 0, 2])
        s = max(s, -1)
        v = rng.random()
        if v < 0.30:
            # one row sticks out at the end: anywhere in the chunk (possibly hidden before the window)
            j = rng.choice([0, rng.randrange(n), n - 1, max(0, n - PROPERTY_WINDOW - 1), max(0, n - PROPERTY_WINDOW)])
            rows[j] = (rows[j][0], e + rng.randint(1, 3), rows[j][2])
        elif v < 0.45:
            s = lo + rng.randint(1, 2)     # first row(s) start early
        elif v < 0.52:
            e = s - 1
        dt, titles = rng.choice(dts) if rng.random() < 0.3 else (decl, True)
        cases.append((decl, dt, titles, s, e, rows))
    return cases


def unit_ctor(ctx):
    cases = ctor_cases(ctx)
    lines = ["ctor 0 %s %s %d %d %s" % (enc_adt(c[0]), enc_adt(c[1]), c[3], c[4], enc_rows3(c[5])) for c in cases]
    mout = lib.run_model_parallel("C12", lines)
    dist, nontriv, bad = {}, set(), 0

    def show(c):
        return {"declared": c[0], "data_dtype": c[1], "titles": c[2], "start": c[3], "end": c[4],
                "rows": c[5] if len(c[5]) <= 40 else {"n": len(c[5]), "first": c[5][:3], "last": c[5][-3:],
                                                      "all": c[5]}}
    for c, mo in zip(cases, mout):
        out = impl_ctor(c)
        k = ("n>W " if len(c[5]) > PROPERTY_WINDOW else "") + out
        dist[k] = dist.get(k, 0) + 1
        if len(c[5]) >= 1 and (out != "ok" or len(c[5]) >= 2):
            nontriv.add(lib.canon([c[0] == c[1], c[3], c[4], c[5][:50], len(c[5])]))
        reason = spec_ctor(c, out)
        if reason:
            ctx.violation("ctor", reason + " (impl %s, model %s)" % (out, mo),
                          {"input": show(c), "impl": out, "model": mo, "unit": "ctor"})
            bad += 1
        elif out != mo:
            ctx.violation("ctor", "model/implementation disagree on Chunk.__init__ (impl %s, model %s); the "
                          "property itself holds on this input" % (out, mo),
                          {"input": "corr:C12/ctor", "case": show(c), "impl": out, "model": mo, "unit": "ctor"},
                          no_failing_input=True)
            bad += 1
        if bad > 6:
            break
    ctx.count("ctor", len(cases), len(nontriv), dist)
    ctx.sample({"unit": "ctor", "case": show(cases[len(cases) // 3]), "model": mout[len(cases) // 3]})
    # kernel cross-check of the extraction on small cases
    small = [i for i, c in enumerate(cases) if len(c[5]) <= 6]
    idxs = sorted(ctx.rng.sample(small, min(120, len(small))))

    def coq_adt(a):
        return "[" + "; ".join("(%d, %d)" % p for p in a) + "]"

    def coq_rows(rows):
        return "[" + "; ".join("mkrow (%d) (%d) (%d) 0" % r for r in rows) + "]"
    eqs = ["c12_ctor_code %s %s (%d) (%d) %s = %s" % (
        coq_adt(cases[i][0]), coq_adt(cases[i][1]), cases[i][3], cases[i][4], coq_rows(cases[i][5]),
        "0" if mout[i] == "ok" else mout[i].split()[1]) for i in idxs]
    return eqs


# ------------------------------------------------------------------------------------------
# continuity
# ------------------------------------------------------------------------------------------

def impl_continuity(ranges):
    chunks = [strax.Chunk(start=s, end=e, data=np.zeros(0, I.np_dtype(I.ADT_T)), dtype=I.np_dtype(I.ADT_T),
                          data_type="tt", data_kind="tt", run_id="0") for s, e in ranges]
    n = 0
    try:
        for _ in strax.continuity_check(iter(chunks)):
            n += 1
    except ValueError as ex:
        if "not continuous" in str(ex):
            return "bad %d" % n
        return "err %s" % ex
    return "ok"


def unit_continuity(ctx):
    rng = ctx.rng
    cases = []
    # exhaustive: up to 3 chunks with boundaries on a small grid
    for k in range(0, 4):
        for pts in itertools.product(range(0, 4), repeat=2 * k):
            rs = [(pts[2 * i], pts[2 * i + 1]) for i in range(k)]
            if all(s <= e for s, e in rs):
                cases.append(rs)
    for _ in range(3000 if ctx.thorough else 600):
        k = rng.randint(1, 7)
        t = rng.randint(0, 5)
        rs = []
        for i in range(k):
            e = t + rng.choice([0, 1, 5, 100])
            rs.append((t, e))
            t = e
        v = rng.random()
        if v < 0.55 and k >= 2:
            j = rng.randrange(1, k)
            d = rng.choice([-1, 1, 2])
            s2 = max(0, rs[j][0] + d)
            rs[j] = (s2, max(s2, rs[j][1]))
        cases.append(rs)
    lines = ["continuity %d %s" % (len(rs), " ".join("%d %d" % r for r in rs)) for rs in cases]
    mout = lib.run_model_parallel("C12", lines)
    dist, nontriv, bad = {}, set(), 0
    for rs, mo in zip(cases, mout):
        out = impl_continuity(rs)
        dist[out.split()[0]] = dist.get(out.split()[0], 0) + 1
        if len(rs) >= 2:
            nontriv.add(lib.canon(rs))
        contiguous = all(a[1] == b[0] for a, b in zip(rs[:-1], rs[1:]))
        reason = None
        if contiguous and out != "ok":
            reason = "continuity_check rejected a contiguous stream"
        if not contiguous and out == "ok":
            reason = "continuity_check accepted a stream with a gap or an overlap"
        if reason:
            ctx.violation("continuity", reason + " (impl %s, model %s)" % (out, mo),
                          {"input": {"ranges": rs}, "impl": out, "model": mo, "unit": "continuity"})
            bad += 1
        elif out != mo:
            ctx.violation("continuity", "model/implementation disagree on continuity_check (impl %s, model %s)"
                          % (out, mo), {"input": "corr:C12/continuity", "case": rs, "impl": out, "model": mo,
                                        "unit": "continuity"}, no_failing_input=True)
            bad += 1
        if bad > 6:
            break
    ctx.count("continuity", len(cases), len(nontriv), dist)
    ctx.sample({"unit": "continuity", "case": cases[len(cases) // 2], "model": mout[len(cases) // 2]})


# ------------------------------------------------------------------------------------------
# timefields  (Plugin.fix_dtype)
# ------------------------------------------------------------------------------------------

def impl_timefields(adt):
    class P(strax.Plugin):
        depends_on = tuple()
        provides = "tt"
        data_kind = "tt"
        dtype = I.np_dtype(adt)
        __version__ = "0"

        def compute(self, chunk_i):
            raise RuntimeError("never reached")
    st = strax.Context(storage=[], register=[P])
    try:
        st.get_single_plugin("0", "tt")
    except Exception as ex:  # noqa
        return "err %s" % I.err_code(ex)
    return "ok"


def unit_timefields(ctx):
    fields = [(I.F_TIME, I.T_I64), (I.F_ENDTIME, I.T_I64), (I.F_LENGTH, I.T_I32), (I.F_DT, I.T_I16), (I.F_ID, I.T_I64)]
    cases = []
    for mask in range(1, 32):
        adt = [f for i, f in enumerate(fields) if mask >> i & 1]
        cases.append(adt)
        cases.append(adt[::-1])
    mout = lib.run_model("C12", ["timefields " + enc_adt(a) for a in cases])
    dist = {}
    for adt, mo in zip(cases, mout):
        out = impl_timefields(adt)
        dist[out] = dist.get(out, 0) + 1
        names = {f for f, _ in adt}
        ok = I.F_TIME in names and (I.F_ENDTIME in names or (I.F_DT in names and I.F_LENGTH in names))
        if ok != (out == "ok"):
            ctx.violation("timefields", "a plugin whose dtype %s the required time fields was %s (impl %s, model %s)"
                          % ("has" if ok else "lacks", "rejected" if ok else "accepted", out, mo),
                          {"input": {"dtype_fields": [I.FNAME[f] for f, _ in adt]}, "impl": out, "model": mo,
                           "unit": "timefields"})
        elif out != mo:
            ctx.violation("timefields", "model/implementation disagree on fix_dtype (impl %s, model %s)" % (out, mo),
                          {"input": "corr:C12/timefields", "case": adt, "impl": out, "model": mo}, no_failing_input=True)
    ctx.count("timefields", len(cases), len(cases), dist)


# ------------------------------------------------------------------------------------------
# matrix
# ------------------------------------------------------------------------------------------

def _init_worker():
    dn = os.open(os.devnull, os.O_WRONLY)
    os.dup2(dn, 1)
    os.dup2(dn, 2)


def _work(args):
    wid, items = args
    path = os.path.join(TMP, "w%d_%d" % (os.getpid(), wid))
    out = []
    for idx, cell in items:
        try:
            # one directory per cell: a straggling saver thread of an earlier (threaded) cell must
            # never meet the directories of a later one
            out.append((idx, I.run_cell(cell, os.path.join(path, "c%d" % idx))))
        except Exception as ex:  # noqa  (a crash of the harness itself)
            out.append((idx, {"harness_error": "%s: %s" % (type(ex).__name__, str(ex)[:300])}))
    shutil.rmtree(path, ignore_errors=True)
    return out


TIMING_MARKS = ("did not terminate", "Timeout", "timed out", "harness_error")


def _timing_suspect(o):
    """An observation that may be an artefact of machine load (mailbox / thread-join timeouts)."""
    if "harness_error" in o:
        return True
    txt = o.get("exc", "") + " ".join(str(v.get("load_exc", "")) for v in o.get("stored", {}).values())
    return any(m in txt for m in TIMING_MARKS)


def run_cells(cells, nproc=None):
    # threaded cells mostly wait (thread joins, mailbox polling): oversubscribe the cores
    nproc = nproc or min(32, 2 * (os.cpu_count() or 4))
    os.makedirs(TMP, exist_ok=True)
    items = list(enumerate(cells))
    # interleave so that slow (threaded) cells spread over the workers
    batches = [(w, items[w::nproc * 4]) for w in range(nproc * 4)]
    batches = [b for b in batches if b[1]]
    sys.stdout.flush()
    with multiprocessing.get_context("fork").Pool(nproc, initializer=_init_worker) as pool:
        res = pool.map(_work, batches, chunksize=1)
        obs = [None] * len(cells)
        for part in res:
            for idx, o in part:
                obs[idx] = o
        # cells whose outcome smells of a time-out are run again, one at a time
        again = [(i, dict(cells[i], timeout=45)) for i, o in enumerate(obs) if _timing_suspect(o)][:24]
        if again:
            # few at a time (6 groups), so that the machine is not the reason a second time
            groups = [(1000 + g, again[g::6]) for g in range(6) if again[g::6]]
            for part in pool.map(_work, groups, chunksize=max(1, len(groups) // 6)):
                for idx, o in part:
                    obs[idx] = o
    shutil.rmtree(TMP, ignore_errors=True)
    return obs, len(again)


def matrix_cells(ctx):
    """Single-thread processor: every variant.  Threaded mailbox: every (plugin kind, violation kind,
    which output, other variant) with two dtype variants in the quick tier, all in the thorough tier."""
    big = ctx.thorough or ctx.escalated()
    cells = []
    shapes = [(1, 3), (3, 3)] + ([(2, 3), (4, 2), (2, 1), (5, 5)] if big else [])
    for kind in I.KINDS:
        for vk in I.VK:
            if not I.applicable(kind, vk):
                continue
            for (dv, w, ov) in I.variants(kind, vk):
                for (n, r) in shapes:
                    if n == 1 and vk in ("gap", "overlap"):
                        continue
                    positions = [0] if vk == "good" else sorted({0, n // 2, n - 1} if not big else set(range(n)))
                    for pos in positions:
                        for rechunk in (True, False):
                            for api in ("get_array", "make"):
                                for proc in ("single_thread", "threaded_mailbox"):
                                    if not big:
                                        # quick tier: thin out combinations that add little
                                        if n == 1 and api == "get_array":
                                            continue
                                        if proc == "threaded_mailbox" and (
                                                dv not in (0, 3) or n == 1 or
                                                (api == "get_array") != rechunk):
                                            continue
                                    cells.append(dict(kind=kind, vk=vk, dv=dv, which=w, ov=ov, pos=pos, n=n, r=r,
                                                      rechunk=rechunk, api=api, proc=proc))
    if big:
        # seeded random run shapes beyond the fixed ones
        combos = [(k, vk, v) for k in I.KINDS for vk in I.VK if I.applicable(k, vk) for v in I.variants(k, vk)]
        for _ in range(600):
            kind, vk, (dv, w, ov) = ctx.rng.choice(combos)
            n = ctx.rng.randint(2 if vk in ("gap", "overlap") else 1, 7)
            cells.append(dict(kind=kind, vk=vk, dv=dv, which=w, ov=ov, pos=ctx.rng.randrange(n), n=n,
                              r=ctx.rng.randint(1, 9), rechunk=ctx.rng.random() < 0.5,
                              api=ctx.rng.choice(["get_array", "make"]),
                              proc=ctx.rng.choice(["single_thread", "threaded_mailbox"])))
    return cells


def valid_store(cell, d, info):
    """None if data type d, served from storage after the run, is what its plugin declares."""
    if not info.get("is_stored"):
        return None
    if not info.get("loads"):
        return "%s is served from storage (is_stored=True) but cannot be loaded: %s" % (d, info.get("load_exc"))
    if not info.get("dtype_ok"):
        return "%s is stored as valid data with another dtype than declared" % d
    if not info.get("rows_inside"):
        return "%s is stored with rows outside the range of their chunk" % d
    if not info.get("label_ok"):
        return "%s is stored under another data type label" % d
    if d == I.target_of(cell) and not info.get("contiguous"):
        return "%s is stored with gaps or overlaps between chunks" % d
    return None


def spec_cell(cell, obs):
    """The property for one cell, evaluated on the implementation's behaviour.  None = holds."""
    if "harness_error" in obs:
        return None
    what = []
    if cell["vk"] == "good":
        if obs["result"] != "ok":
            what.append("a well-behaved %s plugin was rejected: %s" % (cell["kind"], obs.get("exc")))
        if cell["api"] == "get_array" and obs["result"] == "ok" and not obs.get("out_dtype_ok"):
            what.append("the result has another dtype than declared")
    else:
        off = I.offending_type(cell)
        if obs["result"] == "ok":
            what.append("processing returned normally although the %s plugin delivered a '%s' violation "
                        "in chunk %d of %d" % (cell["kind"], cell["vk"], cell["pos"], cell["n"]))
        if obs["stored"].get(off, {}).get("is_stored"):
            what.append("the offending output %s is left in storage as valid data (loads=%s)"
                        % (off, obs["stored"][off].get("loads")))
    for d, info in obs["stored"].items():
        r = valid_store(cell, d, info)
        if r and not (cell["vk"] != "good" and d == I.offending_type(cell)):
            what.append(r)
    return "; ".join(what) if what else None


RACE_CLASS = {23: "order", 60: "order"}


def compare_cell(cell, obs, mo):
    """None if implementation and model agree at the level the theorem needs, else a description."""
    m = mo.split()
    mcode = int(m[0])
    mvis = {"src": int(m[1]), "tt": int(m[2]), "uu": int(m[3])}
    icode = obs["code"]
    ivis = {d: int(v["is_stored"]) for d, v in obs["stored"].items()}
    off = I.offending_type(cell)
    if cell["proc"] == "single_thread":
        if icode != mcode:
            return "result code impl %s, model %s" % (icode, mcode)
        for d in ivis:
            if d == "src" and cell["kind"] != "source":
                continue
            if ivis[d] != mvis[d]:
                return "%s served from storage afterwards: impl %s, model %s" % (d, ivis[d], mvis[d])
        if cell["api"] == "make" or icode == 0:
            pass
        return None
    # threaded mailbox: the saver threads race with the reader; compare the outcome class and the
    # visibility of the offending (or, for good cells, every) output only
    if (icode == 0) != (mcode == 0):
        return "result impl %s, model %s" % (icode, mcode)
    if icode != mcode and RACE_CLASS.get(icode, icode) != RACE_CLASS.get(mcode, mcode):
        return "result code impl %s, model %s" % (icode, mcode)
    ds = [off] if cell["vk"] != "good" else [d for d in ivis if d != "src"]
    for d in ds:
        if ivis[d] != mvis[d]:
            return "%s served from storage afterwards: impl %s, model %s" % (d, ivis[d], mvis[d])
    return None


def cell_signature(cell):
    return {"kind": cell["kind"], "vk": cell["vk"]}


# Finding F3 (design_notes/C12.md): in the threaded mailbox processor a gap / overlap in the LAST chunk of
# the target is detected by the reader only after a lagging saver may already have seen the end of the
# stream (Mailbox._can_fetch let the source run one message ahead; repaired in /repo by ede7cda).  Whether it
# fired depended on thread timing, so these cells are judged separately (exception present, target not left in
# storage) and never compared with the (single-thread) model's storage; known_findings lists it as fixed, so a
# reappearance is a VIOLATION.
RACE_SIG = {"vk_class": "gap/overlap", "pos": "last", "proc": "threaded_mailbox"}


def is_race_cell(cell):
    return (cell["proc"] == "threaded_mailbox" and cell["vk"] in ("gap", "overlap")
            and cell["pos"] == cell["n"] - 1)


def unit_matrix(ctx):
    cells = matrix_cells(ctx)
    mout = lib.run_model_parallel("C12", [I.enc_cell(c) for c in cells])
    obs, n_again = run_cells(cells)
    ctx.coverage.setdefault("matrix_cells_rerun_after_timeout", n_again)
    dist, nontriv = {}, set()
    n_bad_spec, n_bad_corr = {}, 0
    failing = []
    inconclusive = []
    n_race = [0, 0]
    for cell, o, mo in zip(cells, obs, mout):
        if _timing_suspect(o) and cell["proc"] == "threaded_mailbox" and "harness_error" not in o:
            # still a mailbox / thread-join time-out after the cell was run again on its own: the
            # machine is too loaded to judge this cell (hangs are C06's subject, not C12's)
            inconclusive.append({"cell": cell, "exc": o.get("exc", "")[:120]})
            continue
        if "harness_error" in o:
            ctx.violation("matrix", "the harness could not run a cell: " + o["harness_error"],
                          {"input": "corr:C12/matrix/harness", "cell": cell}, no_failing_input=True)
            continue
        key = "%s/%s %s" % (cell["kind"], cell["vk"], "ok" if o["code"] == 0 else "err")
        dist[key] = dist.get(key, 0) + 1
        if cell["vk"] != "good":
            nontriv.add(lib.canon(cell))
        reason = spec_cell(cell, o)
        diff = compare_cell(cell, o, mo)
        if is_race_cell(cell) and o["result"] == "err":
            # the exception is there; whether storage was closed before it depends on thread timing (F3)
            n_race[0] += 1
            if reason:
                n_race[1] += 1
                if n_race[1] == 1:
                    ctx.violation("matrix_race", "the exception is raised but %s [%s]" % (reason, o.get("exc", "")),
                                  {"input": RACE_SIG, "cell": cell, "observed": o, "model": mo})
            continue
        if reason:
            sig = lib.canon(cell_signature(cell))
            n_bad_spec[sig] = n_bad_spec.get(sig, 0) + 1
            failing.append((cell, o, mo, reason))
        elif diff:
            n_bad_corr += 1
            if n_bad_corr <= 6:
                ctx.violation("matrix", "model/implementation disagree on a cell (%s); the property itself holds "
                              "on this cell" % diff,
                              {"input": "corr:C12/matrix", "cell": cell, "observed": o, "model": mo},
                              no_failing_input=True)
    # one report per matrix cell (plugin kind, violation kind): the smallest failing run
    failing.sort(key=lambda f: (f[0]["n"], f[0]["pos"], f[0]["r"], f[0]["proc"] != "single_thread",
                                f[0]["api"] != "make", f[0]["rechunk"], f[0]["dv"], f[0]["which"], f[0]["ov"]))
    seen = set()
    for cell, o, mo, reason in failing:
        sig = lib.canon(cell_signature(cell))
        if sig in seen:
            continue
        seen.add(sig)
        ctx.violation("matrix", "%s [%s] (%d failing runs of this cell)" % (reason, o.get("exc", "no exception"),
                                                                           n_bad_spec[sig]),
                      {"input": cell_signature(cell), "cell": cell, "observed": o, "model": mo,
                       "replay_note": "bin/check C12 --replay <this file> re-runs the cell on the real strax"})
    ctx.coverage["matrix_race_cells"] = {"cells": n_race[0], "race_fired": n_race[1]}
    ctx.coverage["matrix_cells_inconclusive_timeouts"] = {"n": len(inconclusive), "first": inconclusive[:5]}
    if len(inconclusive) > max(10, len(cells) // 20):
        ctx.violation("matrix", "%d threaded-mailbox cells ended in mailbox / thread-join time-outs even when run "
                      "again on their own" % len(inconclusive),
                      {"input": "corr:C12/matrix/timeouts", "cells": inconclusive[:10]}, no_failing_input=True)
    ctx.count("matrix", len(cells) - len(inconclusive), len(nontriv), dist)
    k = len(cells) // 3
    ctx.sample({"unit": "matrix", "cell": cells[k], "impl": {"code": obs[k].get("code"),
                                                            "stored": {d: v.get("is_stored") for d, v in
                                                                       obs[k].get("stored", {}).items()}},
                "model": mout[k]})
    ctx.coverage.setdefault("matrix_failing_cells", {}).update(
        {k2: v for k2, v in sorted(n_bad_spec.items())})
    # kernel cross-check equations for a sample of cells
    idxs = sorted(ctx.rng.sample(range(len(cells)), min(60, len(cells))))
    eqs = []
    for i in idxs:
        c, m = cells[i], mout[i].split()
        eqs.append("c12_cell %d %d %d %d %d %d%%nat %d%%nat %d%%nat %s %s = (%s, %s, %s, %s)" % (
            I.KINDS.index(c["kind"]), I.VK.index(c["vk"]), c["dv"], c["which"], c["ov"], c["pos"], c["n"], c["r"],
            "true" if c["rechunk"] else "false", "true" if c["api"] == "get_array" else "false",
            m[0], *["true" if x == "1" else "false" for x in m[1:4]]))
    return eqs


# ------------------------------------------------------------------------------------------

def run(ctx):
    ctx.coverage["rule"] = (
        "ctor: distinct (dtype-equal?, range, rows) with at least one row and either a rejection or two rows; "
        "continuity: distinct range sequences of at least two chunks; timefields: every case; "
        "matrix: distinct cells (plugin kind, violation kind, variant, position, n chunks, rows per chunk, "
        "rechunk_on_save, api, processor) with a violation kind other than 'good'")
    ctx.assumptions += [
        "numpy structured-dtype promotion in np.concatenate is modelled by np_promote (same field names in the "
        "same order, integer widths promoted); the rechunker never splits (data far below the target size)",
        "the threaded mailbox processor is compared at the level of (exception or not, error class, visibility "
        "of the offending output); the order saver / reader inside one run is modelled for the single-thread "
        "processor only",
        "harness plugins (harness/props/c12_impl.py) are mirrored by hand in coq/Model/C12Harness.v",
    ]
    def progress(msg):
        sys.stderr.write("[C12 %6.1fs] %s\n" % (lib.now() - ctx.t0, msg))
        sys.stderr.flush()
    progress("ctor")
    eqs = unit_ctor(ctx)
    progress("continuity, timefields")
    unit_continuity(ctx)
    unit_timefields(ctx)
    progress("matrix")
    eqs2 = unit_matrix(ctx)
    progress("kernel cross-check")
    n, fails = lib.coq_crosscheck(
        "C12", "From SV Require Import Model.Rows Model.PluginKinds Model.C12Harness Model.C12Run.", eqs + eqs2)
    ctx.coverage.setdefault("kernel_crosscheck", {})["c12"] = {"equations": n, "failed_files": len(fails)}
    if fails:
        ctx.violation("extraction", "extracted model and Coq vm_compute disagree: " + fails[0][-400:],
                      {"input": "corr:C12/extraction-crosscheck", "log": fails[0]}, no_failing_input=True)


def replay(ctx, obj):
    rp = obj.get("replay", {})
    unit = obj.get("unit")
    if unit == "matrix_race" and isinstance(rp.get("cell"), dict):
        # timing dependent: try a number of times (more likely to fire on a loaded machine)
        os.makedirs(TMP, exist_ok=True)
        for k in range(60):
            o = I.run_cell(rp["cell"], os.path.join(TMP, "replay%d" % k))
            reason = spec_cell(rp["cell"], o)
            if reason:
                print("try %d: cell %s -> code %s : %s" % (k, rp["cell"], o.get("code"), reason))
                return 1
        print("the race did not fire in 60 tries")
        return 0
    if unit == "matrix" and isinstance(rp.get("cell"), dict):
        os.makedirs(TMP, exist_ok=True)
        o = I.run_cell(rp["cell"], os.path.join(TMP, "replay"))
        reason = spec_cell(rp["cell"], o)
        print("cell %s -> code %s stored %s : %s" % (rp["cell"], o.get("code"),
              {d: v.get("is_stored") for d, v in o["stored"].items()}, reason or "property holds"))
        return 1 if reason else 0
    if unit == "ctor" and isinstance(rp.get("input"), dict):
        i = rp["input"]
        rows = i["rows"]["all"] if isinstance(i["rows"], dict) else i["rows"]
        case = ([tuple(p) for p in i["declared"]], [tuple(p) for p in i["data_dtype"]], i["titles"], i["start"],
                i["end"], [tuple(r) for r in rows])
        out = impl_ctor(case)
        reason = spec_ctor(case, out)
        print("ctor -> %s : %s" % (out, reason or "property holds"))
        return 1 if reason else 0
    if unit == "continuity" and isinstance(rp.get("input"), dict):
        rs = [tuple(r) for r in rp["input"]["ranges"]]
        out = impl_continuity(rs)
        contiguous = all(a[1] == b[0] for a, b in zip(rs[:-1], rs[1:]))
        bad = contiguous != (out == "ok")
        print("continuity %s -> %s" % (rs, out))
        return 1 if bad else 0
    print("nothing to replay for unit %s" % unit)
    return 0
