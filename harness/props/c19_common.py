"""Shared helpers of the C19 units."""
import numpy as np
import strax

from harness import lib


def zl(xs):
    return "[" + "; ".join("(%d)" % int(x) for x in xs) + "]"


def f32_quot(num, den):
    """float32 store of one correctly rounded float64 division of two exactly representable ints."""
    return np.float32(np.float64(num) / np.float64(den))


_PEAK_DT = {}


def peak_dt(nch, nsamp=2):
    k = (nch, nsamp)
    if k not in _PEAK_DT:
        _PEAK_DT[k] = np.dtype(strax.peak_dtype(n_channels=nch, n_sum_wv_samples=nsamp))
    return _PEAK_DT[k]


class Unit:
    """Bookkeeping shared by the units: disagreement -> predicate -> violation."""

    def __init__(self, ctx, name):
        self.ctx, self.name = ctx, name
        self.bad = 0
        self.nontriv = set()
        self.dist = {}
        self.n = 0

    def tally(self, key):
        self.dist[key] = self.dist.get(key, 0) + 1

    def report(self, inp, impl_s, model_s, reason):
        """Model/implementation disagreement or predicate failure on `inp`."""
        self.bad += 1
        if reason:
            self.ctx.violation(self.name, "%s (impl %s, model %s)" % (reason, impl_s, model_s),
                               {"input": inp, "impl": impl_s, "model": model_s})
        else:
            self.ctx.violation(self.name, "model/implementation disagree (impl %s, model %s) but the property "
                               "predicate holds on this input" % (impl_s, model_s),
                               {"input": "corr:C19/%s" % self.name, "case": inp, "impl": impl_s, "model": model_s},
                               no_failing_input=True)

    def done(self):
        self.ctx.count(self.name, self.n, len(self.nontriv), self.dist)


_PENDING = []     # (unit, equation) pairs collected by the units; checked by one coqc run at the end

ALL_IMPORTS = ("From SV Require Import Model.PeakHelpers Model.Peaks Model.Merging Model.PeakProps "
               "Model.Splitting Model.SumWaveform Model.HDR Model.Widths.")


def crosscheck(ctx, unit, eqs, imports=None):
    """queue `lhs = rhs` equations for the kernel cross-check of the extraction (vm_compute inside coqc)"""
    for e in eqs:
        _PENDING.append((unit, e))


def flush_crosscheck(ctx):
    if not _PENDING:
        return
    eqs = [e for _, e in _PENDING]
    per_unit = {}
    for u, _ in _PENDING:
        per_unit[u] = per_unit.get(u, 0) + 1
    del _PENDING[:]
    n, fails = lib.coq_crosscheck("C19", ALL_IMPORTS, eqs, shard=1000)
    ctx.coverage["kernel_crosscheck"] = {"equations": n, "per_unit": per_unit, "failed_files": len(fails)}
    if fails:
        ctx.violation("extraction", "extracted model and Coq vm_compute disagree: " + fails[0][-400:],
                      {"input": "corr:C19/extraction-crosscheck", "log": fails[0]}, no_failing_input=True)


def big(ctx):
    """larger scope: thorough tier, or the anchored functions of C19 drifted"""
    return ctx.thorough or bool(ctx.drift)
