"""Line-level interleaver (DESIGN.md 4.5).

Worker threads run real strax code under sys.settrace.  Every *labelled* source line (a line of
strax.Context that touches `_plugin_class_registry` / `_fixed_plugin_cache`) is a yield point: a thread
runs only while it holds the baton and hands it back when it is about to execute a labelled line.  A
schedule is a list of thread ids; one entry lets that thread execute the labelled line it is parked at and
run on to its next labelled line (or to its end).  After the schedule every thread runs to completion, in
thread order.  This is exactly the step relation of coq/Model/CtxRace.v, so model schedules replay on the
real code deterministically.
"""
import ast
import inspect
import re
import sys
import threading

import strax
import strax.context as sctx

SHARED_ATTRS = ("_plugin_class_registry", "_fixed_plugin_cache")

# label -> (Context attribute name of the function, regex, occurrence index among matching lines)
LABELS = {
    1: ("_get_plugins", r"for pc in self\._plugin_class_registry\.values\(\)", 0),
    2: ("_plugins_are_cached", r"self\._fixed_plugin_cache is None", 0),
    3: ("_context_hash", r"for data_type, plugin in self\._plugin_class_registry\.items\(\)", 0),
    4: ("_plugins_are_cached", r"if context_hash not in self\._fixed_plugin_cache", 0),
    5: ("_plugins_are_cached", r"plugin_cache = self\._fixed_plugin_cache\[context_hash\]", 0),
    6: ("_plugins_are_cached", r"in plugin_cache for t in targets", 0),
    7: ("_Context__get_plugin", r"if data_type not in self\._plugin_class_registry", 0),
    8: ("_Context__get_plugin", r"plugin = self\._plugin_class_registry\[data_type\]\(\)", 0),
    9: ("_plugins_to_cache", r"if self\._fixed_plugin_cache is None", 0),
    10: ("_plugins_to_cache", r"self\._fixed_plugin_cache = \{context_hash: dict\(\)\}", 0),
    11: ("_plugins_to_cache", r"elif context_hash not in self\._fixed_plugin_cache", 0),
    12: ("_plugins_to_cache", r"self\._fixed_plugin_cache = \{context_hash: dict\(\)\}", 1),
    13: ("_plugins_to_cache", r"self\._fixed_plugin_cache\[context_hash\]\[target\] = plugin", 0),
    14: ("_Context__get_requested_plugins_from_cache",
         r"cached_plugins = self\._fixed_plugin_cache\[self\._context_hash\(\)\]", 0),
    15: ("_Context__get_requested_plugins_from_cache", r"for target, plugin in cached_plugins\.items\(\)", 0),
    16: ("register", r"old_plugin_class = self\._plugin_class_registry\.get\(p, None\)", 0),
    17: ("register", r"self\._plugin_class_registry\[p\] = plugin_class", 0),
    18: ("register", r"currently_registered = self\._plugin_class_registry\.get\(d\)", 0),
    19: ("register", r"del self\._plugin_class_registry\[d\]", 0),
    20: ("register", r"for plugin in self\._plugin_class_registry\.values\(\)", 0),
    21: ("key_for", r"if context_hash in self\._fixed_plugin_cache", 0),
    22: ("key_for", r"plugins = self\._fixed_plugin_cache\[self\._context_hash\(\)\]", 0),
    23: ("get_iter", r"for k in list\(self\._plugin_class_registry\.keys\(\)\)", 0),
    24: ("get_iter", r"del self\._plugin_class_registry\[k\]", 0),
    25: ("is_stored", r"plugin = self\._plugin_class_registry\[target\]$", 0),
    26: ("stored_dependencies", r"plugin = self\._plugin_class_registry\[target\]\(\)", 0),
    27: ("get_iter", r"self\._plugin_class_registry = self\._plugin_class_registry\.copy\(\)", 0),
}
WRITE_LABELS = {10, 12, 13, 17, 19, 24}


class LabelError(Exception):
    pass


_RESOLVED = None
MISSING = []      # labels whose source line was not found in the code under test (the code changed)


def resolve_labels():
    """-> ({code: {lineno: label}}, set(lineno) of *unlabelled* lines touching the shared maps)."""
    global _RESOLVED
    if _RESOLVED is None:
        _RESOLVED = _resolve_labels()
    return _RESOLVED


def _resolve_labels():
    C = strax.Context
    by_code = {}
    for lab, (fname, pat, occ) in LABELS.items():
        fn = getattr(C, fname, None)
        if fn is None:
            MISSING.append("label %d: Context.%s not found" % (lab, fname))
            continue
        fn = inspect.unwrap(fn)
        lines, start = inspect.getsourcelines(fn)
        hits = [start + i for i, l in enumerate(lines) if re.search(pat, l.rstrip()) and not l.strip().startswith("#")]
        if len(hits) <= occ:
            MISSING.append("label %d: pattern %r (occurrence %d) not found in Context.%s" % (lab, pat, occ, fname))
            continue
        by_code.setdefault(fn.__code__, {})[hits[occ]] = lab
    # every other line of strax/context.py that touches the shared maps
    src = open(sctx.__file__).read()
    tree = ast.parse(src)
    touched = set()

    class V(ast.NodeVisitor):
        def visit_JoinedStr(self, node):
            return  # attribute mentions inside f-strings are only read for messages

        def visit_Attribute(self, node):
            if node.attr in SHARED_ATTRS:
                touched.add(node.lineno)
            self.generic_visit(node)

    V().visit(tree)
    labelled_lines = {ln for d in by_code.values() for ln in d}
    unl = touched - labelled_lines
    return by_code, unl


class Worker:
    def __init__(self, tid, fn):
        self.tid = tid
        self.fn = fn
        self.trace = []         # labels of the steps executed
        self.parked_at = None   # label the thread is parked at
        self.finished = False
        self.result = None
        self.exc = None
        self.unlabelled = []    # (function, lineno) of unlabelled shared-map lines executed
        self.exc_frame = None
        self.budget = 0         # labelled lines the thread may still execute before handing the baton back
        self.blocked = False    # waiting for a lock of the code under test
        self.nblocked = 0
        self.protocol = []      # breaches of the locking protocol the model relies on
        self.thread = None


class BatonLock:
    """Stand-in for a module-level lock of strax.context during an interleaved run: a thread that would
    block hands the baton back (status `blocked`) instead of blocking its OS thread, so the one-runner
    discipline survives locks added to the code under test."""

    def __init__(self, inter):
        self.inter = inter
        self.owner = None
        self.depth = 0
        self.fallback = threading.RLock()

    def acquire(self, blocking=True, timeout=-1):
        w = self.inter.current()
        if w is None:
            return self.fallback.acquire(blocking, timeout)
        if self.owner != w.tid and w.budget <= 0:
            # entering a locked section is a yield point: a thread whose budget is used up stops BEFORE
            # taking the lock (so a schedule of whole sections never leaves a parked thread inside one)
            self.inter._wait_baton(w)
        while self.owner is not None and self.owner != w.tid:
            self.inter._blocked(w)
        if self.depth == 0:
            self.inter.lock_log.append(w.tid)
        self.owner = w.tid
        self.depth += 1
        return True

    def release(self):
        w = self.inter.current()
        if w is None:
            return self.fallback.release()
        self.depth -= 1
        if self.depth == 0:
            self.owner = None

    __enter__ = acquire

    def __exit__(self, *a):
        self.release()


_LOCK_TYPES = (type(threading.Lock()), type(threading.RLock()))


class Interleaver:
    def __init__(self, timeout=900.0):
        self.tls = threading.local()
        self.shimmed = {}
        self.locks = []
        self.n_locks = 0
        self.lock_log = []      # thread ids in the order in which they entered a locked section
        self.on_hit = None
        self.by_code, self.unlabelled_lines = resolve_labels()
        self.file = sctx.__file__
        self.cv = threading.Condition()
        self.active = None
        self.timeout = timeout
        self.steps = []         # global sequence of (tid, label)

    # -- tracing --------------------------------------------------------------------------------
    def _mk_trace(self, w):
        by_code = self.by_code
        unl = self.unlabelled_lines
        file = self.file

        def local(frame, event, arg):
            if event == "line":
                # an exception raised inside an inlined comprehension runs a cleanup block that carries the
                # comprehension's line number: that pseudo line event (directly after the 'exception' event
                # of the same frame) is not an execution of the labelled statement
                after_exc = w.exc_frame is frame
                w.exc_frame = None
                labs = by_code.get(frame.f_code)
                if labs is not None:
                    lab = labs.get(frame.f_lineno)
                    if lab is not None:
                        if not after_exc:
                            self._park(w, lab)
                            if self.on_hit is not None:
                                self.on_hit(w, lab, frame)
                        return local
                if frame.f_lineno in unl:
                    w.unlabelled.append((frame.f_code.co_name, frame.f_lineno))
            elif event == "exception":
                w.exc_frame = frame
            return local

        def glob(frame, event, arg):
            if frame.f_code.co_filename == file:
                return local
            return None

        return glob

    def _park(self, w, lab):
        if w.budget <= 0:
            with self.cv:
                w.parked_at = lab
                self.active = None
                self.cv.notify_all()
                while self.active != w.tid:
                    self.cv.wait()
                w.parked_at = None
        w.budget -= 1
        w.trace.append(lab)
        self.steps.append((w.tid, lab))

    def current(self):
        return getattr(self.tls, "worker", None)

    def _blocked(self, w):
        with self.cv:
            w.blocked = True
            w.nblocked += 1
            self.active = None
            self.cv.notify_all()
            while self.active != w.tid:
                self.cv.wait()
            w.blocked = False

    def _wait_baton(self, w):
        with self.cv:
            w.parked_at = "lock"
            self.active = None
            self.cv.notify_all()
            while self.active != w.tid:
                self.cv.wait()
            w.parked_at = None

    def _install_lock_shims(self):
        for name, val in list(vars(sctx).items()):
            if isinstance(val, _LOCK_TYPES):
                self.shimmed[name] = val
                lk = BatonLock(self)
                self.locks.append(lk)
                setattr(sctx, name, lk)
        self.n_locks = len(self.locks)

    def holds_lock(self, w):
        return any(lk.owner == w.tid and lk.depth > 0 for lk in self.locks)

    def _remove_lock_shims(self):
        for name, val in self.shimmed.items():
            setattr(sctx, name, val)
        self.shimmed = {}

    def _body(self, w):
        self.tls.worker = w
        with self.cv:
            while self.active != w.tid:
                self.cv.wait()
        sys.settrace(self._mk_trace(w))
        try:
            w.result = w.fn()
        except BaseException as e:  # noqa
            w.exc = e
        finally:
            sys.settrace(None)
            with self.cv:
                w.finished = True
                w.parked_at = None
                self.active = None
                self.cv.notify_all()

    def _give(self, w, n=1):
        """hand the baton to w for n steps and wait until it parks again or finishes"""
        with self.cv:
            w.budget = n
            self.active = w.tid
            self.cv.notify_all()
            ok = self.cv.wait_for(lambda: self.active is None, timeout=self.timeout)
            if not ok:
                raise RuntimeError("interleaver: thread %d neither parked nor finished within %ss" % (w.tid, self.timeout))

    # -- running --------------------------------------------------------------------------------
    def run(self, fns, segs, drain=True):
        """segs: run-length schedule [(tid, nsteps), ...]"""
        ws = [Worker(i, f) for i, f in enumerate(fns)]
        self._install_lock_shims()
        for w in ws:
            w.thread = threading.Thread(target=self._body, args=(w,), daemon=True)
            w.thread.start()
        try:
            for w in ws:           # run every thread up to its first labelled line
                self._give(w, 0)
            for tid, n in segs:
                if tid < len(ws) and not ws[tid].finished and n > 0:
                    self._give(ws[tid], n)
            if drain:
                self._drain(ws)
        finally:
            # never leave threads behind
            try:
                self._drain(ws)
            except RuntimeError:
                pass
            self._remove_lock_shims()
        for w in ws:
            w.thread.join(timeout=self.timeout)
        return ws


def _drain(self, ws):
    """every thread to completion, in thread order; a thread blocked on a lock waits for its holder"""
    for _ in range(10 * len(ws) + 10):
        progress = False
        for w in ws:
            if not w.finished:
                before = (len(w.trace), w.nblocked)
                self._give(w, 10 ** 9)
                if w.finished or (len(w.trace), w.nblocked) != before and not w.blocked:
                    progress = True
        if all(w.finished for w in ws):
            return
        if not progress:
            raise RuntimeError("interleaver: deadlock, every unfinished thread is blocked on a lock")


Interleaver._drain = _drain


def rle_expand(segs):
    out = []
    for t, n in segs:
        out += [t] * n
    return out
