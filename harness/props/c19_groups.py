"""C19 units: find_peak_groups and add_lone_hits vs Model/Groups.v, and their defining properties
(C19_find_peak_groups_are_gap_clusters, C19_add_lone_hits_conserves) evaluated independently.

find_peak_groups case: (gap, lext, rext, maxdur, [(time, endtime)...]).
add_lone_hits case: {"gains", "nch", "ns", "peaks": [(t, len, dt, area, apc, data)], "hits": [(t, len, ch, area)]}.
"""
import itertools

import numpy as np
import strax

from harness import lib
from harness.props.c19_common import Unit, big, peak_dt
from harness.props import c19_fp

# ---------------------------------------------------------------------------------------------------------------
NAME_FG = "find_peak_groups"
RULE_FG = ("find_peak_groups: every time-sorted list of 1..3 (thorough 4) intervals with starts 0..6 step 2 and "
           "lengths {1,3,8} (plus one zero-length interval per size: AssertionError) x a fifth (thorough: a third) of the (gap, left, right extension, "
           "max_duration) sweep including duration cuts (max_duration 12) and a failing assert (gap <= left + "
           "right); seeded random lists of up to 8 intervals with mixed dt; compared exactly (time, endtime arrays); "
           "predicate: one interval per gap cluster (independent Python clustering), first start - left extension to "
           "latest end + right extension; non-trivial = >= 2 groups one of which holds >= 2 peaks; distinct by "
           "canonical JSON.")
PARAMS_FG = [(10, 0, 0, 1000), (3, 1, 1, 1000), (4, 0, 2, 12), (5, 2, 2, 1000), (2, 1, 1, 1000), (6, 1, 2, 14)]
IV_DT = np.dtype([("time", np.int64), ("length", np.int32), ("dt", np.int32)])


def impl_fg(gap, lext, rext, maxdur, pk, dts=None):
    a = np.zeros(len(pk), dtype=IV_DT)
    for i, (t, e) in enumerate(pk):
        d = dts[i] if dts else 1
        a[i] = (t, (e - t) // d, d)
    try:
        t, e = strax.find_peak_groups(a, gap, lext, rext, maxdur)
    except AssertionError:
        return "err 2"
    except ValueError:
        return "err 1"
    return [(int(x), int(y)) for x, y in zip(t, e)]


def spec_fg(gap, lext, rext, maxdur, pk):
    if any(e - t <= 0 for t, e in pk):
        return "err 2"
    if not pk:
        return []
    if not (gap > lext + rext and lext + maxdur + rext < 429496729400):
        return "err 2"
    hits = [(t, e - t, 1, 0, 1) for t, e in pk]
    groups, _ = c19_fp.groups_of((gap, lext, rext, 0, 1, maxdur), hits)
    out = []
    for g in groups:
        s, e = g[0][0] - lext, max(h[0] + h[1] for h in g) + rext
        if e - s <= 0:
            return "err 1"
        out.append((s, e))
    return out


def predicate_fg(gap, lext, rext, maxdur, pk, out):
    exp = spec_fg(gap, lext, rext, maxdur, pk)
    if out != exp:
        return "returned %s, the gap clusters of the peaks give %s" % (out, exp)
    return None


def cases_fg(ctx):
    cases = []
    nmax = 4 if big(ctx) else 3
    for n in range(1, nmax + 1):
        for starts in itertools.combinations_with_replacement(range(0, 14, 2), n):
            for lens in itertools.product((1, 3, 8), repeat=n):
                pk = [(s * 2, s * 2 + l) for s, l in zip(starts, lens)]
                for pi, prm in enumerate(PARAMS_FG):
                    if (pi + sum(starts) + sum(lens)) % (3 if big(ctx) else 5):
                        continue
                    cases.append(prm + (pk, None))
        cases.append(PARAMS_FG[0] + ([(2 * i, 2 * i + (0 if i == n - 1 else 1)) for i in range(n)], None))
    r = ctx.rng
    for _ in range(20000 if ctx.thorough else 3000):
        n = r.randint(1, 8)
        t, pk, dts = r.randint(0, 50), [], []
        for _i in range(n):
            d = r.choice([1, 1, 2, 5])
            ln = r.randint(1, 6)
            pk.append((t, t + ln * d))
            dts.append(d)
            t += r.choice([0, 1, 2, 5, ln * d, ln * d + 3, ln * d + 12])
        gap = r.randint(1, 14)
        lext, rext = r.randint(0, 3), r.randint(0, 3)
        cases.append((gap, lext, rext, r.choice([1000, 1000, 20, 30]), pk, dts))
    return cases


def unit_fg(ctx):
    u = Unit(ctx, NAME_FG)
    cases = cases_fg(ctx)
    lines = ["groups %d %d %d %d %d %s" % (gap, lext, rext, maxdur, len(pk), " ".join("%d %d" % x for x in pk))
             for gap, lext, rext, maxdur, pk, _ in cases]
    mout = lib.run_model_parallel("C19", lines)
    for c, mo in zip(cases, mout):
        gap, lext, rext, maxdur, pk, dts = c
        out = impl_fg(gap, lext, rext, maxdur, pk, dts)
        if mo.startswith("ok"):
            v = list(map(int, mo.split()[1:]))
            mexp = [(v[2 * i], v[2 * i + 1]) for i in range(len(v) // 2)]
        else:
            mexp = mo
        u.n += 1
        u.tally("err" if isinstance(out, str) else "%d_groups" % min(len(out), 3))
        if isinstance(out, list) and len(out) >= 2 and len(out) < len(pk):
            u.nontriv.add(lib.canon([gap, lext, rext, maxdur, pk]))
        inp = {"gap": gap, "lext": lext, "rext": rext, "maxdur": maxdur, "peaks": [list(x) for x in pk], "dts": dts}
        reason = predicate_fg(gap, lext, rext, maxdur, pk, out)
        if out != mexp:
            u.report(inp, str(out), str(mexp), reason)
        elif reason:
            u.report(inp, str(out), str(mexp), "implementation AND model: " + reason)
        if u.bad > 5:
            break
    u.done()
    k = len(cases) // 2
    ctx.sample({"unit": u.name, "gap,lext,rext,maxdur": cases[k][:4], "peaks(time,endtime)": cases[k][4],
                "model": mout[k]})


def replay_fg(inp):
    pk = [tuple(x) for x in inp["peaks"]]
    out = impl_fg(inp["gap"], inp["lext"], inp["rext"], inp["maxdur"], pk, inp.get("dts"))
    reason = predicate_fg(inp["gap"], inp["lext"], inp["rext"], inp["maxdur"], pk, out)
    print("impl:", out, "spec:", reason or "holds")
    return 1 if reason else 0


# ---------------------------------------------------------------------------------------------------------------
NAME_LH = "add_lone_hits"
RULE_LH = ("add_lone_hits: seeded random scenes of 1..4 disjoint time-sorted peaks (dt in {1,2,4}, 1..4 samples in "
           "4-sample buffers, integer samples, area = their sum or not) and 0..6 time-sorted lone hits of 1..2 samples "
           "placed inside, outside and across the peak boundaries, 2..3 channels, integer gains; the containment "
           "indices fed to the model are those the real fully_contained_in returns; all fields compared exactly; "
           "predicate (independent containment by definition): times / lengths / dt untouched, every peak gains "
           "exactly the areas x gain of the lone hits inside it in area, area_per_channel[channel] and data[(t_hit - "
           "t_peak) // dt]; non-trivial = a peak receiving >= 2 lone hits; distinct by canonical JSON.")


def build_lh(case):
    nch, ns = case["nch"], case["ns"]
    peaks = np.zeros(len(case["peaks"]), dtype=peak_dt(nch, ns))
    for i, (t, ln, dt, area, apc, data) in enumerate(case["peaks"]):
        p = peaks[i]
        p["time"], p["length"], p["dt"], p["area"] = t, ln, dt, area
        p["area_per_channel"][:] = apc
        p["data"][:] = data
    hits = np.zeros(len(case["hits"]), dtype=strax.hit_dtype)
    for i, (t, ln, ch, area) in enumerate(case["hits"]):
        h = hits[i]
        h["time"], h["length"], h["dt"], h["channel"], h["area"] = t, ln, 1, ch, area
    return peaks, hits


def impl_lh(case):
    peaks, hits = build_lh(case)
    fc = [int(x) for x in strax.fully_contained_in(hits, peaks)]
    try:
        strax.add_lone_hits(peaks, hits, np.array(case["gains"], dtype=np.float64))
    except ValueError:
        return "err 1", fc
    out = []
    for p in peaks:
        vals = [float(p["area"])] + [float(x) for x in p["area_per_channel"]] + [float(x) for x in p["data"]]
        if any(v != int(v) for v in vals):
            return "non-integer values %s" % vals, fc
        out.append((int(p["time"]), int(p["length"]), int(p["dt"]), int(vals[0]),
                    tuple(int(x) for x in vals[1:1 + case["nch"]]), tuple(int(x) for x in vals[1 + case["nch"]:])))
    return out, fc


def spec_lh(case):
    out = [[t, ln, dt, area, list(apc), list(data)] for t, ln, dt, area, apc, data in case["peaks"]]
    for (t, ln, ch, area) in case["hits"]:
        for p in out:
            if p[0] <= t and t + ln <= p[0] + p[1] * p[2]:
                a = area * case["gains"][ch]
                p[3] += a
                p[4][ch] += a
                p[5][(t - p[0]) // p[2]] += a
                break
    return [(p[0], p[1], p[2], p[3], tuple(p[4]), tuple(p[5])) for p in out]


def predicate_lh(case, out):
    exp = spec_lh(case)
    if out != exp:
        if isinstance(out, list) and len(out) == len(exp):
            names = ["time", "length", "dt", "area", "area_per_channel", "data"]
            for i, (a, b) in enumerate(zip(out, exp)):
                for nm, x, y in zip(names, a, b):
                    if x != y:
                        return "peak %d: %s = %s, with the lone hits it contains %s" % (i, nm, x, y)
        return "returned %s, by definition %s" % (out, exp)
    return None


def gen_lh(r):
    nch = r.choice([2, 3])
    ns = 4
    gains = [r.choice([1, 2, 3]) for _ in range(nch)]
    peaks, t = [], r.randint(0, 6)
    for _ in range(r.randint(1, 4)):
        dt = r.choice([1, 2, 4])
        ln = r.randint(1, ns)
        data = [r.randint(0, 5) if j < ln else 0 for j in range(ns)]
        apc = [0] * nch
        apc[r.randrange(nch)] = sum(data)
        area = sum(data) if r.random() < 0.8 else r.randint(0, 9)
        peaks.append((t, ln, dt, area, tuple(apc), tuple(data)))
        t += ln * dt + r.choice([0, 1, 3, 7])
    end = t + 4
    hits = sorted((r.randint(0, end), r.randint(1, 2), r.randrange(nch), r.randint(1, 4))
                  for _ in range(r.randint(0, 6)))
    return {"gains": gains, "nch": nch, "ns": ns, "peaks": peaks, "hits": hits}


def line_lh(case, fc):
    toks = [len(case["gains"])] + case["gains"] + [case["nch"], case["ns"], len(case["peaks"])]
    for (t, ln, dt, area, apc, data) in case["peaks"]:
        toks += [t, ln, dt, area] + list(apc) + list(data)
    toks.append(len(case["hits"]))
    for i, (t, ln, ch, area) in zip(fc, case["hits"]):
        toks += [i, t, ch, area]
    return "lone " + " ".join(map(str, toks))


def parse_lh(mo, nch):
    if mo.startswith("err"):
        return mo
    out = []
    for part in mo.split(" | ")[1:]:
        v = list(map(int, part.split()))
        out.append((v[0], v[1], v[2], v[3], tuple(v[4:4 + nch]), tuple(v[4 + nch:])))
    return out


def unit_lh(ctx):
    u = Unit(ctx, NAME_LH)
    cases = [gen_lh(ctx.rng) for _ in range(30000 if ctx.thorough else 4000)]
    res = [impl_lh(c) for c in cases]
    mout = lib.run_model_parallel("C19", [line_lh(c, fc) for c, (_, fc) in zip(cases, res)])
    for c, (out, fc), mo in zip(cases, res, mout):
        mexp = parse_lh(mo, c["nch"])
        u.n += 1
        k = max([fc.count(i) for i in set(fc) if i != -1] + [0])
        u.tally("err" if isinstance(out, str) else ("no_hit_contained" if k == 0 else "hits_added"))
        if k >= 2:
            u.nontriv.add(lib.canon(c))
        reason = predicate_lh(c, out)
        if out != mexp:
            u.report(c, str(out), str(mexp), reason)
        elif reason:
            u.report(c, str(out), str(mexp), "implementation AND model: " + reason)
        if u.bad > 5:
            break
    u.done()
    k = len(cases) // 2
    ctx.sample({"unit": u.name, "case": cases[k], "fully_contained_in": res[k][1], "model": mout[k]})


def replay_lh(inp):
    inp = dict(inp)
    inp["peaks"] = [(p[0], p[1], p[2], p[3], tuple(p[4]), tuple(p[5])) for p in inp["peaks"]]
    inp["hits"] = [tuple(h) for h in inp["hits"]]
    out, _ = impl_lh(inp)
    reason = predicate_lh(inp, out)
    print("impl:", out, "spec:", reason or "holds")
    return 1 if reason else 0


class _U:
    def __init__(self, name, rule, unit, replay):
        self.NAME, self.RULE, self.unit, self.replay = name, rule, unit, replay


FG = _U(NAME_FG, RULE_FG, unit_fg, replay_fg)
LH = _U(NAME_LH, RULE_LH, unit_lh, replay_lh)
