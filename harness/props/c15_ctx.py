"""C15, part 2: the Context code shared by the workers of a multi-run call, against Model/CtxRace.v.

A *scenario* is a plugin graph (single-output plugins of one data kind over a source), a tuple of targets,
a storage configuration, a cache temperature (cold / warm) and, per worker thread, the list of runs it loads
with `Context.get_array(run, targets)` on ONE shared context.

  skeleton   the top-level calls the unmodelled code (get_iter / get_components / is_stored / ...) makes into
             the modelled functions, extracted from a traced sequential run of the real code
  model      the extracted LTS run on that skeleton under a schedule -> per-thread label traces, statuses
  real       the line-level interleaver run on the same schedule -> per-thread label traces, outcomes
"""
import itertools
import json
import os
import shutil
import sys
import threading

import numpy as np
import strax

from harness import lib
from harness.props import c15_interleave as il

K_ITER, K_KEY, K_HAZARD, K_MODEL = 1, 2, 3, 4


# ------------------------------------------------------------------------------------------------
# plugin graphs
# ------------------------------------------------------------------------------------------------

GRAPHS = {
    # name -> list of (data type, depends_on); the first entry is the source
    "two": [("src", ()), ("aa", ("src",)), ("bb", ("src",))],
    "chain": [("src", ()), ("aa", ("src",)), ("bb", ("aa",))],
    "three": [("src", ()), ("aa", ("src",)), ("bb", ("src",)), ("cc", ("aa", "bb"))],
    "flat": [("src", ()), ("aa", ("src",))],
}
N_CHUNKS = 2
ROWS_PER_CHUNK = 3


def run_base(run_id):
    return (int(run_id.lstrip("_")) % 1000) * 1000


def make_plugins(graph):
    """fresh plugin classes for one context (rows are a deterministic function of run id and data type)"""
    classes = []
    for idx, (dt, deps) in enumerate(GRAPHS[graph]):
        if not deps:
            class P(strax.Plugin):
                provides = dt
                depends_on = ()
                dtype = strax.time_fields + [(("value of " + dt, dt + "_x"), np.int64)]
                rechunk_on_save = False
                _fld = dt + "_x"

                def source_finished(self):
                    return True

                def is_ready(self, chunk_i):
                    return chunk_i < N_CHUNKS

                def compute(self, chunk_i):
                    base = run_base(self.run_id) + chunk_i * 10
                    r = np.zeros(ROWS_PER_CHUNK, self.dtype)
                    r["time"] = base + np.arange(ROWS_PER_CHUNK)
                    r["endtime"] = r["time"] + 1
                    r[self._fld] = base + np.arange(ROWS_PER_CHUNK)
                    return self.chunk(start=base, end=base + 10, data=r)
        else:
            class P(strax.Plugin):
                provides = dt
                depends_on = tuple(deps)
                data_kind = "src"
                dtype = strax.time_fields + [(("value of " + dt, dt + "_x"), np.int64)]
                _fld = dt + "_x"
                _mul = idx + 1
                _dep_flds = tuple(d + "_x" for d in deps)

                def compute(self, **kw):
                    data = list(kw.values())[0]
                    r = np.zeros(len(data), self.dtype)
                    r["time"] = data["time"]
                    r["endtime"] = data["endtime"]
                    r[self._fld] = sum(data[f] for f in self._dep_flds) * self._mul + 1
                    return r
        P.__name__ = "P_" + dt
        P.__qualname__ = "P_" + dt
        classes.append(P)
    return classes


class MetaOnlyFrontend(strax.StorageFrontend):
    """A read-only frontend that knows run start/end (so get_iter's progress-bar code does not resolve
    plugins again) and stores no data."""
    def __init__(self):
        super().__init__(readonly=True)

    def run_metadata(self, run_id, projection=None):
        import datetime
        t0 = datetime.datetime(2020, 1, 1) + datetime.timedelta(seconds=run_base(run_id))
        return {"start": t0, "end": t0 + datetime.timedelta(seconds=1), "name": run_id}

    def _scan_runs(self, store_fields):
        return []

    def _find(self, key, write, allow_incomplete, fuzzy_for, fuzzy_for_options):
        raise strax.DataNotAvailable


def make_context(sc, tmpdir=None):
    storage = []
    if sc["storage"] == "meta":
        storage = [MetaOnlyFrontend()]
    elif sc["storage"] == "dir":
        storage = [strax.DataDirectory(tmpdir)]
    st = strax.Context(storage=storage, register=make_plugins(sc["graph"]))
    return st


def targets_arg(sc):
    t = tuple(sc["targets"])
    return t if len(t) > 1 else t[0]


def sequential_oracle(sc, runs):
    st = make_context(dict(sc, storage="none"))
    return {r: st.get_array(r, targets_arg(sc)) for r in runs}


# ------------------------------------------------------------------------------------------------
# skeleton extraction (traced sequential run of the real code)
# ------------------------------------------------------------------------------------------------

MODELLED = {"_get_plugins", "_Context__get_plugin", "__get_plugin", "_plugins_are_cached", "_plugins_to_cache",
            "_context_hash", "_Context__get_requested_plugins_from_cache", "__get_requested_plugins_from_cache",
            "key_for", "register", "estimate_run_start_and_end"}


class SkeletonTracer:
    """records the top-level entries into the modelled functions made by unmodelled Context code"""
    def __init__(self):
        self.by_code, self.unl = il.resolve_labels()
        self.file = il.sctx.__file__
        self.items = []
        self.labels = []
        self.unlabelled = []
        self.depth_est = 0       # inside estimate_run_start_and_end
        self.est_frames = []
        self.cleanup_seen = False
        self.set_orders = {}

    def _caller_modelled(self, frame):
        f = frame.f_back
        while f is not None and f.f_code.co_filename != self.file:
            f = f.f_back
        return f is not None and f.f_code.co_name in MODELLED

    def glob(self, frame, event, arg):
        code = frame.f_code
        if code.co_filename != self.file:
            return None
        name = code.co_name
        in_est = bool(self.est_frames)
        if name == "estimate_run_start_and_end":
            self.est_frames.append([frame, None])
            return self.local
        if not in_est:
            if name == "_get_plugins" and not self._caller_modelled(frame):
                self.items.append(("getplugins", tuple(frame.f_locals["targets"])))
            elif name == "key_for":
                self.items.append(("keyfor", frame.f_locals["target"]))
            elif name == "register" and frame.f_back.f_code.co_name == "get_iter":
                pc = frame.f_locals["plugin_class"]
                self.items.append(("register", pc.__name__))
        else:
            if name == "_get_plugins" and self.est_frames[-1][1] is None:
                self.est_frames[-1][1] = tuple(frame.f_locals["targets"])
        return self.local

    def local(self, frame, event, arg):
        if event == "line":
            labs = self.by_code.get(frame.f_code)
            lab = labs.get(frame.f_lineno) if labs else None
            if lab is not None:
                self.labels.append(lab)
                if not self.est_frames:
                    if lab == 23 and not self.cleanup_seen:
                        self.cleanup_seen = True
                        self.items.append(("cleanup",))
                    elif lab in (25, 26):
                        self.items.append(("regread", lab, frame.f_locals["target"]))
            elif frame.f_lineno in self.unl:
                self.unlabelled.append((frame.f_code.co_name, frame.f_lineno))
            if frame.f_code.co_name == "_get_plugins" and "targets" in frame.f_locals:
                pass
        elif event in ("return", "exception"):
            if self.est_frames and self.est_frames[-1][0] is frame and event == "return":
                _, ts = self.est_frames.pop()
                if ts is not None:
                    nsf = len(frame.f_locals["self"]._sorted_storage)
                    self.items.append(("estimate", ts, nsf))
        return self.local


def extract_skeleton(sc, run_id, st=None, tmpdir=None):
    """(items, labels) of one sequential get_array(run_id, targets) on a fresh (or the given) context"""
    from harness.props.c15 import quiet
    st = st or make_context(sc, tmpdir)
    tr = SkeletonTracer()
    with quiet():
        sys.settrace(tr.glob)
        try:
            res = st.get_array(run_id, targets_arg(sc))
        finally:
            sys.settrace(None)
    return tr, res, st


def set_order_table(deps, target_lists):
    """list(set(xs)) for every list the loop of Context._get_plugins computes it on"""
    table = {}
    for ts in target_lists:
        plugins = []
        targets = list(ts)
        while targets:
            new = list(set(targets))
            table[tuple(targets)] = list(new)
            targets = new
            t = targets.pop(0)
            if t in plugins:
                continue
            plugins.append(t)
            targets += list(deps.get(t, ()))
    return table


# ------------------------------------------------------------------------------------------------
# model configuration
# ------------------------------------------------------------------------------------------------

class ModelCfg:
    """translation of a scenario into the integer line protocol of the extracted LTS"""
    def __init__(self, sc, skeleton_items, temp_name, warm_names=None):
        g = GRAPHS[sc["graph"]]
        self.names = {dt: i + 1 for i, (dt, _) in enumerate(g)}
        self.temp_name = temp_name
        if temp_name:
            self.names[temp_name] = 1000
        self.deps = {dt: tuple(d) for dt, d in g}
        if temp_name:
            self.deps[temp_name] = tuple(sc["targets"])
        self.items = skeleton_items
        self.sc = sc
        self.warm = warm_names
        tl = [tuple(sc["targets"])] + [(d,) for d in self.deps] + ([(temp_name,)] if temp_name else [])
        self.so = set_order_table(self.deps, tl)

    def nid(self, n):
        return self.names[n]

    def encode(self, threads_ncalls, extra=()):
        """threads_ncalls[i] = number of get_array calls thread i makes, one after the other"""
        t = []
        t.append(len(self.deps))
        for n, d in self.deps.items():
            t += [self.nid(n), len(d)] + [self.nid(x) for x in d]
        t.append(len(self.so))
        for k, v in self.so.items():
            t += [len(k)] + [self.nid(x) for x in k] + [len(v)] + [self.nid(x) for x in v]
        t.append(400)  # fuel of the macro expansion
        g = GRAPHS[self.sc["graph"]]
        t.append(len(g))
        for dt, _ in g:
            t += [self.nid(dt), 100 + self.nid(dt)]
        if self.warm is None:
            t.append(-1)
        else:
            t.append(len(self.warm))
            for n in self.warm:
                t += [self.nid(n), (100 + self.nid(n)) if n != self.temp_name else 4999]
        t.append(len(threads_ncalls))
        for tid, ncalls in enumerate(threads_ncalls):
            its = []
            for call in range(ncalls):
                for it in self.items:
                    its.append(self.enc_item(it, 5000 + 10 * tid + call))
            t.append(len(its))
            for e in its:
                t += e
        t += list(extra)
        return " ".join(str(int(x)) for x in t)

    def enc_item(self, it, cls):
        k = it[0]
        if k == "getplugins":
            return [1, len(it[1])] + [self.nid(x) for x in it[1]]
        if k == "keyfor":
            return [2, self.nid(it[1])]
        if k == "register":
            return [3, self.nid(it[1]), cls]
        if k == "cleanup":
            return [4]
        if k == "regread":
            return [5, it[1], self.nid(it[2])]
        if k == "estimate":
            return [6, len(it[1])] + [self.nid(x) for x in it[1]] + [it[2]]
        raise ValueError(it)


def parse_model_out(line):
    """'T D n l.. T C k l n l.. G ...' -> list of (status tuple, trace)"""
    toks = line.split()
    out = []
    i = 0
    while i < len(toks) and toks[i] == "T":
        st = toks[i + 1]
        i += 2
        if st == "C":
            status = ("C", int(toks[i]), int(toks[i + 1]))
            i += 2
        else:
            status = (st,)
        n = int(toks[i])
        tr = [int(x) for x in toks[i + 1:i + 1 + n]]
        i += 1 + n
        out.append((status, tr))
    got = toks[i + 1:] if i < len(toks) else []
    return out, got


def run_model(mc, threads_ncalls, segs):
    extra = [len(segs)]
    for t, n in segs:
        extra += [t, n]
    line = "ctx " + mc.encode(threads_ncalls, extra)
    out = lib.run_model("C15", [line])[0]
    if out.startswith("EXC") or out in ("BAD", "UNKNOWN"):
        raise RuntimeError("model driver: " + out)
    return parse_model_out(out)


def classify_exc(e):
    if e is None:
        return ("D",)
    if isinstance(e, RuntimeError) and "changed size during iteration" in str(e):
        return ("C", K_ITER)
    if isinstance(e, RuntimeError) and "keys changed during iteration" in str(e):
        return ("C", K_HAZARD)
    if isinstance(e, KeyError):
        return ("C", K_KEY)
    return ("X", type(e).__name__ + ": " + str(e)[:200])


# ------------------------------------------------------------------------------------------------
# Coq text of a model configuration (witness file generation and kernel cross-check)
# ------------------------------------------------------------------------------------------------

def _zl(xs):
    return "[" + "; ".join(str(int(x)) for x in xs) + "]"


def coq_item(mc, it, cls):
    k = it[0]
    if k == "getplugins":
        return "MGetPlugins %s" % _zl(mc.nid(x) for x in it[1])
    if k == "keyfor":
        return "MKeyFor %d" % mc.nid(it[1])
    if k == "register":
        return "HRegGet %d %d" % (mc.nid(it[1]), cls)
    if k == "cleanup":
        return "HSnap"
    if k == "regread":
        return "HRead %d %d" % (it[1], mc.nid(it[2]))
    if k == "estimate":
        return "MEstimate %s %d%%nat" % (_zl(mc.nid(x) for x in it[1]), it[2])
    raise ValueError(it)


def coq_terms(mc, threads_ncalls):
    """(cfgm, shared, progs) as Coq terms, the same data `encode` sends to the driver"""
    deps = "[" + "; ".join("(%d, %s)" % (mc.nid(n), _zl(mc.nid(x) for x in d)) for n, d in mc.deps.items()) + "]"
    so = "[" + "; ".join("(%s, %s)" % (_zl(mc.nid(x) for x in k), _zl(mc.nid(x) for x in v))
                         for k, v in mc.so.items()) + "]"
    cfg = "(mkcfgm %s %s 400%%nat)" % (deps, so)
    g = GRAPHS[mc.sc["graph"]]
    reg = "[" + "; ".join("(%d, %d)" % (mc.nid(dt), 100 + mc.nid(dt)) for dt, _ in g) + "]"
    if mc.warm is None:
        sh = "(mkshared (mkdict %s 0%%nat) None [])" % reg
    else:
        items = "[" + "; ".join("(%d, %d)" % (mc.nid(n), (100 + mc.nid(n)) if n != mc.temp_name else 4999)
                                for n in mc.warm) + "]"
        sh = "(mkshared (mkdict %s 0%%nat) (Some 0%%nat) [mkdict %s 0%%nat])" % (reg, items)
    progs = []
    for tid, ncalls in enumerate(threads_ncalls):
        its = []
        for call in range(ncalls):
            its += [coq_item(mc, it, 5000 + 10 * tid + call) for it in mc.items]
        progs.append("[" + "; ".join(its) + "]")
    return cfg, sh, "[" + ";\n   ".join(progs) + "]"


WITNESSES = {
    # name: (scenario, warm, threads_ncalls, run-length schedule, expected (tid, kind, label))
    "wa1": (dict(graph="flat", targets=("src", "aa"), storage="none"), False, [1, 1], [(1, 45)], (1, K_ITER, 20)),
    "wa2": (dict(graph="flat", targets=("src", "aa"), storage="none"), False, [1, 1], [(1, 44)], (1, K_KEY, 25)),
    "wb1": (dict(graph="flat", targets=("aa",), storage="none"), False, [1, 1], [(0, 19), (1, 30)], (1, K_ITER, 15)),
    "wb2": (dict(graph="flat", targets=("aa",), storage="none"), False, [1, 1], [(0, 17), (1, 31), (0, 1), (1, 10)],
            (1, K_KEY, 15)),
}


def build_mc(sc, warm):
    """skeleton + model configuration of a scenario from a traced sequential run of the real code"""
    tr, res, st0 = extract_skeleton(sc, "001")
    temp = [i[1] for i in tr.items if i[0] == "register"]
    temp = temp[0] if temp else None
    cached = None
    if warm:
        cached = list(st0._fixed_plugin_cache[st0._context_hash()].keys())
    return ModelCfg(sc, tr.items, temp, cached), tr


def gen_witness_file():
    out = ["(* GENERATED by `python -m harness.props.c15_ctx gen-witness` from traced sequential runs of the real",
           "   strax code (skeletons of Context.get_array); the check re-derives these terms on every run and",
           "   compares them with this file (kernel cross-check).  Concrete refutations of ctx_race_free. *)",
           "From SV Require Import Base.Prelude Model.CtxRace.", ""]
    for name, (sc, warm, ncalls, segs, exp) in WITNESSES.items():
        mc, _ = build_mc(sc, warm)
        cfg, sh, progs = coq_terms(mc, ncalls)
        out.append("(* %s: graph %s, targets %s, %s cache, %d worker threads x 1 run *)"
                   % (name, GRAPHS[sc["graph"]], sc["targets"], "warm" if warm else "cold", len(ncalls)))
        out.append("Definition %s_cfg : cfgm := %s." % (name, cfg))
        out.append("Definition %s_sh : shared := %s." % (name, sh))
        out.append("Definition %s_progs : list (list task) :=\n  %s." % (name, progs))
        out.append("Definition %s_sched : list nat := rle %s."
                   % (name, "[" + "; ".join("(%d%%nat, %d%%nat)" % s for s in segs) + "]"))
        out.append("")
    return "\n".join(out)


if __name__ == "__main__":
    if sys.argv[1:] == ["gen-witness"]:
        print(gen_witness_file())
