"""C15, part 2: the Context code shared by the workers of a multi-run call, against Model/CtxRace.v
(the code as repaired by /repo commit d202a14; the transition system of the code before that commit and the
interleavings that crashed it are kept in coq/Model/CtxRacePinned*.v and replayed here as regression inputs).

A *scenario* is a plugin graph (single-output plugins of one data kind over a source), a tuple of targets,
a storage configuration, a cache temperature (cold / warm) and, per worker thread, the list of runs it loads
with `Context.get_array(run, targets)` on ONE shared context.

  skeleton   the top-level calls the unmodelled code (get_iter / get_components / is_stored / ...) makes into
             the modelled functions, extracted from a traced sequential run of the real code
  model      the extracted model run on that skeleton under a schedule (of whole transitions: locked sections are
             atomic) -> per-thread label traces, statuses, plugins obtained, final cache
  real       the line-level interleaver run on the same schedule -> per-thread label traces, outcomes; it also
             checks the locking protocol at every labelled line
"""
import itertools
import json
import os
import shutil
import sys
import threading

import numpy as np
import strax

from harness import lib
from harness.props import c15_interleave as il

K_ITER, K_KEY, K_HAZARD, K_MODEL = 1, 2, 3, 4


# ------------------------------------------------------------------------------------------------
# plugin graphs
# ------------------------------------------------------------------------------------------------

GRAPHS = {
    # name -> list of (data type, depends_on); the first entry is the source
    "two": [("src", ()), ("aa", ("src",)), ("bb", ("src",))],
    "chain": [("src", ()), ("aa", ("src",)), ("bb", ("aa",))],
    "three": [("src", ()), ("aa", ("src",)), ("bb", ("src",)), ("cc", ("aa", "bb"))],
    "flat": [("src", ()), ("aa", ("src",))],
}
N_CHUNKS = 2
ROWS_PER_CHUNK = 3


def run_base(run_id):
    return (int(run_id.lstrip("_")) % 1000) * 1000


def make_plugins(graph):
    """fresh plugin classes for one context (rows are a deterministic function of run id and data type)"""
    classes = []
    for idx, (dt, deps) in enumerate(GRAPHS[graph]):
        if not deps:
            class P(strax.Plugin):
                provides = dt
                depends_on = ()
                dtype = strax.time_fields + [(("value of " + dt, dt + "_x"), np.int64)]
                rechunk_on_save = False
                _fld = dt + "_x"

                def source_finished(self):
                    return True

                def is_ready(self, chunk_i):
                    return chunk_i < N_CHUNKS

                def compute(self, chunk_i):
                    base = run_base(self.run_id) + chunk_i * 10
                    r = np.zeros(ROWS_PER_CHUNK, self.dtype)
                    r["time"] = base + np.arange(ROWS_PER_CHUNK)
                    r["endtime"] = r["time"] + 1
                    r[self._fld] = base + np.arange(ROWS_PER_CHUNK)
                    return self.chunk(start=base, end=base + 10, data=r)
        else:
            class P(strax.Plugin):
                provides = dt
                depends_on = tuple(deps)
                data_kind = "src"
                dtype = strax.time_fields + [(("value of " + dt, dt + "_x"), np.int64)]
                _fld = dt + "_x"
                _mul = idx + 1
                _dep_flds = tuple(d + "_x" for d in deps)

                def compute(self, **kw):
                    data = list(kw.values())[0]
                    r = np.zeros(len(data), self.dtype)
                    r["time"] = data["time"]
                    r["endtime"] = data["endtime"]
                    r[self._fld] = sum(data[f] for f in self._dep_flds) * self._mul + 1
                    return r
        P.__name__ = "P_" + dt
        P.__qualname__ = "P_" + dt
        classes.append(P)
    return classes


class MetaOnlyFrontend(strax.StorageFrontend):
    """A read-only frontend that knows run start/end (so get_iter's progress-bar code does not resolve
    plugins again) and stores no data."""
    def __init__(self):
        super().__init__(readonly=True)

    def run_metadata(self, run_id, projection=None):
        import datetime
        t0 = datetime.datetime(2020, 1, 1) + datetime.timedelta(seconds=run_base(run_id))
        return {"start": t0, "end": t0 + datetime.timedelta(seconds=1), "name": run_id}

    def _scan_runs(self, store_fields):
        return []

    def _find(self, key, write, allow_incomplete, fuzzy_for, fuzzy_for_options):
        raise strax.DataNotAvailable


def make_context(sc, tmpdir=None):
    storage = []
    if sc["storage"] == "meta":
        storage = [MetaOnlyFrontend()]
    elif sc["storage"] == "dir":
        storage = [strax.DataDirectory(tmpdir)]
    st = strax.Context(storage=storage, register=make_plugins(sc["graph"]))
    return st


def targets_arg(sc):
    t = tuple(sc["targets"])
    return t if len(t) > 1 else t[0]


def sequential_oracle(sc, runs):
    st = make_context(dict(sc, storage="none"))
    return {r: st.get_array(r, targets_arg(sc), progress_bar=False) for r in runs}


# ------------------------------------------------------------------------------------------------
# skeleton extraction (traced sequential run of the real code)
# ------------------------------------------------------------------------------------------------

MODELLED = {"_get_plugins", "_Context__get_plugin", "__get_plugin", "_plugins_are_cached", "_plugins_to_cache",
            "_context_hash", "_Context__get_requested_plugins_from_cache", "__get_requested_plugins_from_cache",
            "key_for", "register", "estimate_run_start_and_end"}


class SkeletonTracer:
    """records the top-level entries into the modelled functions made by unmodelled Context code"""
    def __init__(self):
        self.by_code, self.unl = il.resolve_labels()
        self.file = il.sctx.__file__
        self.items = []
        self.labels = []
        self.unlabelled = []
        self.depth_est = 0       # inside estimate_run_start_and_end
        self.est_frames = []
        self.cleanup_seen = False
        self.set_orders = {}

    def _caller_modelled(self, frame):
        f = frame.f_back
        while f is not None and (f.f_code.co_filename != self.file or f.f_code.co_name == "wrapped"):
            f = f.f_back
        return f is not None and f.f_code.co_name in MODELLED

    def glob(self, frame, event, arg):
        code = frame.f_code
        if code.co_filename != self.file:
            return None
        name = code.co_name
        in_est = bool(self.est_frames)
        if name == "estimate_run_start_and_end":
            self.est_frames.append([frame, None])
            return self.local
        if not in_est:
            if name == "_get_plugins" and not self._caller_modelled(frame):
                self.items.append(("getplugins", tuple(frame.f_locals["targets"])))
            elif name == "key_for":
                self.items.append(("keyfor", frame.f_locals["target"]))
            elif name == "register" and frame.f_back.f_code.co_name == "get_iter":
                pc = frame.f_locals["plugin_class"]
                self.items.append(("register", pc.__name__))
        else:
            if name == "_get_plugins" and self.est_frames[-1][1] is None:
                self.est_frames[-1][1] = tuple(frame.f_locals["targets"])
        return self.local

    def local(self, frame, event, arg):
        if event == "line":
            labs = self.by_code.get(frame.f_code)
            lab = labs.get(frame.f_lineno) if labs else None
            if lab is not None:
                self.labels.append(lab)
                if not self.est_frames:
                    if lab == 23 and not self.cleanup_seen:
                        self.cleanup_seen = True
                        self.items.append(("cleanup",))
                    elif lab == 27:
                        self.items.append(("copyreg",))
                    elif lab in (25, 26):
                        self.items.append(("regread", lab, frame.f_locals["target"]))
            elif frame.f_lineno in self.unl:
                self.unlabelled.append((frame.f_code.co_name, frame.f_lineno))
            if frame.f_code.co_name == "_get_plugins" and "targets" in frame.f_locals:
                pass
        elif event in ("return", "exception"):
            if self.est_frames and self.est_frames[-1][0] is frame and event == "return":
                _, ts = self.est_frames.pop()
                if ts is not None:
                    nsf = len(frame.f_locals["self"]._sorted_storage)
                    self.items.append(("estimate", ts, nsf))
        return self.local

    def finish(self):
        """one get_array call has returned"""
        self.items.append(("endcall",))
        self.cleanup_seen = False


def extract_skeleton(sc, run_id, st=None, tmpdir=None):
    """(items, labels) of one sequential get_array(run_id, targets) on a fresh (or the given) context"""
    from harness.props.c15 import quiet
    st = st or make_context(sc, tmpdir)
    tr = SkeletonTracer()
    with quiet():
        sys.settrace(tr.glob)
        try:
            res = st.get_array(run_id, targets_arg(sc), progress_bar=False)
        finally:
            sys.settrace(None)
    tr.finish()
    return tr, res, st


def set_order_table(deps, target_lists):
    """list(set(xs)) for every list the loop of Context._get_plugins computes it on"""
    table = {}
    for ts in target_lists:
        plugins = []
        targets = list(ts)
        while targets:
            new = list(set(targets))
            table[tuple(targets)] = list(new)
            targets = new
            t = targets.pop(0)
            if t in plugins:
                continue
            plugins.append(t)
            targets += list(deps.get(t, ()))
    return table


# ------------------------------------------------------------------------------------------------
# model configuration (Model/CtxRace.v, the repaired code)
# ------------------------------------------------------------------------------------------------

class ModelCfg:
    """translation of a scenario into the integer line protocol of the extracted model"""
    def __init__(self, sc, skeleton_items, temp_name, warm_names=None):
        g = GRAPHS[sc["graph"]]
        self.names = {dt: i + 1 for i, (dt, _) in enumerate(g)}
        self.temp_name = temp_name
        if temp_name:
            self.names[temp_name] = 1000
        self.deps = {dt: tuple(d) for dt, d in g}
        if temp_name:
            self.deps[temp_name] = tuple(sc["targets"])
        self.items = skeleton_items
        self.sc = sc
        self.warm = warm_names
        tl = [tuple(sc["targets"])] + [(d,) for d in self.deps] + ([(temp_name,)] if temp_name else [])
        self.so = set_order_table(self.deps, tl)

    def nid(self, n):
        return self.names[n]

    def encode(self, threads_ncalls, extra=()):
        """threads_ncalls[i] = number of get_array calls thread i makes, one after the other"""
        t = []
        t.append(len(self.deps))
        for n, d in self.deps.items():
            t += [self.nid(n), len(d)] + [self.nid(x) for x in d]
        t.append(len(self.so))
        for k, v in self.so.items():
            t += [len(k)] + [self.nid(x) for x in k] + [len(v)] + [self.nid(x) for x in v]
        t.append(MODEL_FUEL)
        g = GRAPHS[self.sc["graph"]]
        t.append(len(g))
        for dt, _ in g:
            t += [self.nid(dt), 100 + self.nid(dt)]
        if self.warm is None:
            t.append(-1)
        else:
            t.append(len(self.warm))
            t += [self.nid(n) for n in self.warm]
        t.append(len(threads_ncalls))
        for tid, ncalls in enumerate(threads_ncalls):
            its = []
            for call in range(ncalls):
                for it in self.items:
                    its.append(self.enc_item(it, 5000 + 10 * tid + call))
            t.append(len(its))
            for e in its:
                t += e
        t += list(extra)
        return " ".join(str(int(x)) for x in t)

    def enc_item(self, it, cls):
        k = it[0]
        if k == "getplugins":
            return [1, len(it[1])] + [self.nid(x) for x in it[1]]
        if k == "keyfor":
            return [2, self.nid(it[1])]
        if k == "register":
            return [3, self.nid(it[1]), cls]
        if k == "cleanup":
            return [4]
        if k == "regread":
            return [5, it[1], self.nid(it[2])]
        if k == "estimate":
            return [6, len(it[1])] + [self.nid(x) for x in it[1]] + [it[2]]
        if k == "copyreg":
            return [7]
        if k == "endcall":
            return [8]
        raise ValueError(it)


MODEL_FUEL = 40


def parse_model_out(line):
    """-> dict(threads=[dict(status, trace, steps, got)], cache, wf, gotok, weight)"""
    toks = line.split()
    i = 0
    ths = []
    while i < len(toks) and toks[i] == "T":
        st = toks[i + 1]
        i += 2
        if st == "C":
            status = ("C", int(toks[i]), int(toks[i + 1]))
            i += 2
        else:
            status = (st,)
        n = int(toks[i])
        tr = [int(x) for x in toks[i + 1:i + 1 + n]]
        i += 1 + n
        assert toks[i] == "S"
        n = int(toks[i + 1])
        steps = [int(x) for x in toks[i + 2:i + 2 + n]]
        i += 2 + n
        assert toks[i] == "G"
        ng = int(toks[i + 1])
        i += 2
        got = []
        for _ in range(ng):
            m = int(toks[i])
            got.append([int(x) for x in toks[i + 1:i + 1 + m]])
            i += 1 + m
        ths.append(dict(status=status, trace=tr, steps=steps, got=got))
    assert toks[i] == "C"
    n = int(toks[i + 1])
    if n < 0:
        cache = None
        i += 2
    else:
        cache = [int(x) for x in toks[i + 2:i + 2 + n]]
        i += 2 + n
    k = len(ths)
    assert toks[i] == "W"
    wf = [x == "1" for x in toks[i + 1:i + 1 + k]]
    i += 1 + k
    assert toks[i] == "X"
    gotok = [x == "1" for x in toks[i + 1:i + 1 + k]]
    i += 1 + k
    assert toks[i] == "B"
    weight = [int(x) for x in toks[i + 1:i + 1 + k]]
    return dict(threads=ths, cache=cache, wf=wf, gotok=gotok, weight=weight)


def model_line(mc, threads_ncalls, mode, sched):
    """mode 0: sched = [(tid, ntransitions)]; mode 1: sched = [tid] (thread runs through its next section)"""
    extra = [mode, len(sched)]
    for x in sched:
        extra += list(x) if mode == 0 else [x]
    return "fctx " + mc.encode(threads_ncalls, extra)


def run_model(mc, threads_ncalls, mode, sched):
    out = lib.run_model("C15", [model_line(mc, threads_ncalls, mode, sched)])[0]
    if out.startswith("EXC") or out in ("BAD", "UNKNOWN"):
        raise RuntimeError("model driver: " + out)
    return parse_model_out(out)


def label_budgets(mres, sched):
    """translate a schedule in model transitions into one in labelled lines, using the number of labelled
    lines each transition executed in the model run"""
    pos = [0] * len(mres["threads"])
    out = []
    for tid, n in sched:
        if tid >= len(pos):
            continue
        steps = mres["threads"][tid]["steps"]
        k = sum(steps[pos[tid]:pos[tid] + n])
        pos[tid] += n
        if k > 0:
            out.append((tid, k))
    return out


def classify_exc(e):
    if e is None:
        return ("D",)
    if isinstance(e, RuntimeError) and "changed size during iteration" in str(e):
        return ("C", K_ITER)
    if isinstance(e, RuntimeError) and "keys changed during iteration" in str(e):
        return ("C", K_HAZARD)
    if isinstance(e, KeyError):
        return ("C", K_KEY)
    return ("X", type(e).__name__ + ": " + str(e)[:200])


# ------------------------------------------------------------------------------------------------
# running a scenario on the real code under the interleaver
# ------------------------------------------------------------------------------------------------

_TMP_ROOT = os.path.join(lib.BUILD, "tmp_c15_%d" % os.getpid())
_tmp_counter = itertools.count()


def new_tmpdir():
    d = os.path.join(_TMP_ROOT, "d%d" % next(_tmp_counter))
    os.makedirs(d, exist_ok=True)
    return d


def cleanup_tmp():
    shutil.rmtree(_TMP_ROOT, ignore_errors=True)


def thread_runs(threads_ncalls):
    """run ids per thread: thread i loads runs <i+1><1>, <i+1><2>, ..."""
    return [["%d%d" % (tid + 1, call + 1) for call in range(n)] for tid, n in enumerate(threads_ncalls)]


_ORACLE = {}


def oracle(sc, run_id):
    key = (sc["graph"], tuple(sc["targets"]), run_id)
    if key not in _ORACLE:
        from harness.props.c15 import quiet
        with quiet():
            st = make_context(dict(sc, storage="none"))
            _ORACLE[key] = st.get_array(run_id, targets_arg(sc), progress_bar=False)
    return _ORACLE[key]


def same_array(a, b):
    return a.dtype == b.dtype and len(a) == len(b) and all(np.array_equal(a[n], b[n]) for n in a.dtype.names)


CACHE_LABELS = {2, 4, 5, 6, 9, 10, 11, 12, 13, 14, 15, 21, 22}
REG_WRITE_LABELS = {17, 19, 24}


def run_real(sc, warm, threads_ncalls, segs):
    """segs: [(tid, number of labelled lines)].  -> per thread dict(status, trace, exc, data_ok, unlabelled,
    protocol), plus the order in which threads entered locked sections"""
    from harness.props.c15 import quiet
    tmpd = new_tmpdir() if sc["storage"] == "dir" else None
    with quiet():
        st = make_context(sc, tmpd)
        if warm:
            st.get_array("001", targets_arg(sc), progress_bar=False)
    runs = thread_runs(threads_ncalls)
    shared_reg = st._plugin_class_registry

    def mk(rs):
        def f():
            return [st.get_array(r, targets_arg(sc), progress_bar=False) for r in rs]
        return f

    I = il.Interleaver()

    def on_hit(w, lab, frame):
        if lab in CACHE_LABELS:
            if not I.holds_lock(w):
                w.protocol.append(("cache statement executed without the plugin-resolution lock", lab))
        elif lab in REG_WRITE_LABELS:
            slf = frame.f_locals.get("self")
            if slf is not None and slf._plugin_class_registry is shared_reg:
                w.protocol.append(("the registry of the shared context is written", lab))

    I.on_hit = on_hit
    with quiet():
        ws = I.run([mk(rs) for rs in runs], segs)
    out = []
    for w, rs in zip(ws, runs):
        status = classify_exc(w.exc)
        ok = None
        if w.exc is None:
            ok = all(same_array(a, oracle(sc, r)) for a, r in zip(w.result, rs))
        out.append(dict(status=status, trace=w.trace, exc=w.exc, data_ok=ok, unlabelled=w.unlabelled,
                        protocol=w.protocol, msg=(repr(w.exc)[:160] if w.exc is not None else "")))
    cache_keys = None
    if st._fixed_plugin_cache is not None:
        try:
            cache_keys = list(st._fixed_plugin_cache[st._context_hash()].keys())
        except Exception:  # noqa
            cache_keys = ["?"]
    return out, dict(lock_order=list(I.lock_log), cache_keys=cache_keys, registry=list(shared_reg.keys()),
                     has_lock=I.n_locks > 0)


def compare(mres, rres, info, mc):
    """model vs real for one execution; returns (agree, text)"""
    for tid, (m, r) in enumerate(zip(mres["threads"], rres)):
        ms, rs = m["status"], r["status"]
        if ms[0] == "D":
            if rs[0] != "D":
                return False, "thread %d: model finishes, real %s %s" % (tid, rs, r["msg"])
        elif ms[0] == "C":
            if rs[0] != "C" or rs[1] != ms[1]:
                return False, "thread %d: model fails %s, real %s %s" % (tid, ms, rs, r["msg"])
        else:
            return False, "thread %d: model status %s" % (tid, ms)
        if m["trace"] != r["trace"]:
            a, b = m["trace"], r["trace"]
            d = next((i for i, (x, y) in enumerate(zip(a, b)) if x != y), min(len(a), len(b)))
            return False, "thread %d: label traces differ at step %d (model %s / real %s)" % (
                tid, d, a[max(0, d - 3):d + 3], b[max(0, d - 3):d + 3])
        if r["unlabelled"]:
            return False, "thread %d executed unlabelled shared-map lines %s" % (tid, r["unlabelled"][:3])
        if r["protocol"]:
            return False, "thread %d: %s (label %d)" % ((tid,) + r["protocol"][0])
    if mres["cache"] is not None and info["cache_keys"] is not None:
        inv = {v: k for k, v in mc.names.items()}
        mk = [inv.get(x, "?") for x in mres["cache"]]
        if mk != info["cache_keys"]:
            return False, "plugin cache after the calls: model %s / real %s" % (mk, info["cache_keys"])
    if set(info["registry"]) != {dt for dt, _ in GRAPHS[mc.sc["graph"]]}:
        return False, "the registry of the shared context changed: %s" % info["registry"]
    return True, "agree"


# ------------------------------------------------------------------------------------------------
# the interleavings that crashed the code before commit d202a14 (Model/CtxRacePinnedWitness.v)
# ------------------------------------------------------------------------------------------------

PINNED_WITNESSES = {
    # name: (scenario, warm, threads_ncalls, schedule in labelled lines, (tid, kind, label) on the old code)
    "wa1": (dict(graph="flat", targets=("src", "aa"), storage="none"), False, [1, 1], [(1, 45)], (1, K_ITER, 20)),
    "wa2": (dict(graph="flat", targets=("src", "aa"), storage="none"), False, [1, 1], [(1, 44)], (1, K_KEY, 25)),
    "wb1": (dict(graph="flat", targets=("aa",), storage="none"), False, [1, 1], [(0, 19), (1, 30)], (1, K_ITER, 15)),
    "wb2": (dict(graph="flat", targets=("aa",), storage="none"), False, [1, 1], [(0, 17), (1, 31), (0, 1), (1, 10)],
            (1, K_KEY, 15)),
}
FINDING_WHAT = {
    "temp_plugin": ("Context is not thread-safe for several same-kind targets (D7a): the temporary merge plugin is "
                    "registered in / deleted from the registry other worker threads are using"),
    "cache_fill": ("Context plugin cache is not thread-safe on a cold cache, even for ONE target (D7b): the shared "
                   "_fixed_plugin_cache is iterated / replaced while another worker fills it"),
}


def witness_input(name):
    sc, warm, ncalls, segs, exp = PINNED_WITNESSES[name]
    return {"scenario": {"graph": sc["graph"], "targets": list(sc["targets"]), "storage": sc["storage"]},
            "cache": "warm" if warm else "cold", "threads_ncalls": ncalls, "segs": [list(s) for s in segs]}


def build_mc(sc, warm):
    """skeleton + model configuration of a scenario from a traced sequential run of the real code"""
    tr, res, st0 = extract_skeleton(sc, "001", tmpdir=(new_tmpdir() if sc["storage"] == "dir" else None))
    temp = [i[1] for i in tr.items if i[0] == "register"]
    temp = temp[0] if temp else None
    cached = None
    if warm:
        cached = list(st0._fixed_plugin_cache[st0._context_hash()].keys())
    return ModelCfg(sc, tr.items, temp, cached), tr


class CtxState:
    def __init__(self):
        self.nontriv = set()
        self.dist = {}

    def bump(self, k, n=1):
        self.dist[k] = self.dist.get(k, 0) + n


def case_of(sc, warm, ncalls, segs):
    return {"scenario": {"graph": sc["graph"], "targets": list(sc["targets"]), "storage": sc["storage"]},
            "cache": "warm" if warm else "cold", "threads_ncalls": list(ncalls), "segs": [list(x) for x in segs]}


def judge_real(ctx, S, unit, sc, warm, ncalls, segs, rres):
    """the property predicate on one interleaved execution of the real code: nobody fails, rows equal the
    sequential call.  Returns True when it fails."""
    failing = False
    case = case_of(sc, warm, ncalls, segs)
    for tid, r in enumerate(rres):
        if r["status"][0] != "D":
            failing = True
            S.bump("real_crash")
            ctx.violation(unit, "threads calling get_array on one context: worker %d fails with %s under the "
                          "line-level interleaving %s (thread, labelled lines), then every thread to its end; "
                          "sequentially all calls succeed" % (tid, r["msg"], segs),
                          {"input": case, "thread": tid, "error": r["msg"]})
        elif r["data_ok"] is False:
            failing = True
            ctx.violation(unit, "worker %d returned rows that differ from the sequential single-run call under the "
                          "line-level interleaving %s" % (tid, segs), {"input": case, "thread": tid})
    return failing


# ------------------------------------------------------------------------------------------------
# units
# ------------------------------------------------------------------------------------------------

def scenarios(ctx):
    """quick: 17 scenarios; anchors drifted: + every storage for the cold ones; thorough: the full product"""
    base = [("flat", ("src", "aa")), ("flat", ("aa",)), ("two", ("aa", "bb")), ("two", ("bb",)), ("chain", ("bb",)),
            ("chain", ("bb", "aa")), ("three", ("cc",)), ("three", ("aa", "bb", "cc"))]
    out = []
    if ctx.thorough:
        for g, t in base:
            for stg in ("none", "meta", "dir"):
                for warm in (False, True):
                    out.append((dict(graph=g, targets=t, storage=stg), warm))
        return out
    for g, t in base:
        for warm in (False, True):
            if g != "three" or not warm:
                out.append((dict(graph=g, targets=t, storage="none"), warm))
    out += [(dict(graph="two", targets=("aa", "bb"), storage="meta"), False),
            (dict(graph="chain", targets=("bb",), storage="dir"), False),
            (dict(graph="two", targets=("aa", "bb"), storage="dir"), True)]
    if ctx.drift:
        out += [(dict(graph=g, targets=t, storage="meta"), False) for g, t in base[:6]]
    return out


def unit_sequential(ctx, S):
    """the model reproduces the label trace of a sequential call (cold, then warm on the same context), the
    skeleton does not depend on the cache, and the skeleton satisfies the hypothesis of ctx_race_free"""
    from harness.props.c15 import quiet
    n = 0
    il.resolve_labels()
    if il.MISSING:
        ctx.violation("ctx_race", "labelled statements of the model were not found in strax/context.py: %s" % il.MISSING[:3],
                      {"input": "corr:C15/ctx_race/labels", "missing": il.MISSING}, no_failing_input=True)
    for sc, w in scenarios(ctx):
        if w:
            continue
        tmpd = new_tmpdir() if sc["storage"] == "dir" else None
        seq_case = {"input": {"scenario": {"graph": sc["graph"], "targets": list(sc["targets"]),
                                           "storage": sc["storage"]}, "runs": ["001", "002"]}}
        try:
            tr, res, st = extract_skeleton(sc, "001", tmpdir=tmpd)
        except Exception as e:  # noqa
            ctx.violation("context_sequential", "a single-run get_array call on a fresh context fails: %r (scenario %s)"
                          % (e, sc), dict(seq_case, error=repr(e)))
            continue
        temp = [i[1] for i in tr.items if i[0] == "register"]
        temp = temp[0] if temp else None
        mc = ModelCfg(sc, tr.items, temp, None)
        m1 = run_model(mc, [1], 0, [])
        ok = (m1["threads"][0]["status"] == ("D",) and m1["threads"][0]["trace"] == tr.labels and not tr.unlabelled)
        tr2 = SkeletonTracer()
        err2 = None
        with quiet():
            sys.settrace(tr2.glob)
            try:
                res2 = st.get_array("002", targets_arg(sc), progress_bar=False)
            except Exception as e:  # noqa
                err2 = e
            finally:
                sys.settrace(None)
        if err2 is not None:
            ctx.violation("context_sequential", "the second of two successive single-run get_array calls on one context "
                          "(warm plugin cache) fails: %r (scenario %s)" % (err2, sc), dict(seq_case, error=repr(err2)))
            continue
        tr2.finish()
        cached = list(st._fixed_plugin_cache[st._context_hash()].keys())
        inv = {v: k for k, v in mc.names.items()}
        cache_ok = m1["cache"] is not None and [inv.get(x) for x in m1["cache"]] == cached
        mc2 = ModelCfg(sc, tr2.items, temp, cached)
        m2 = run_model(mc2, [1], 0, [])
        ok2 = (m2["threads"][0]["status"] == ("D",) and m2["threads"][0]["trace"] == tr2.labels and not tr2.unlabelled
               and tr2.items == tr.items)
        n += 2
        S.bump("sequential_cold")
        S.bump("sequential_warm")
        S.nontriv.add(lib.canon(["seq", sc]))
        d1, d2 = same_array(res, oracle(sc, "001")), same_array(res2, oracle(sc, "002"))
        if not (d1 and d2):
            ctx.violation("context_sequential", "two successive single-run get_array calls on one context: the %s call "
                          "returns rows that differ from the same call on a fresh context (scenario %s)"
                          % ("first" if not d1 else "second (warm plugin cache)", sc),
                          {"input": {"scenario": {"graph": sc["graph"], "targets": list(sc["targets"]),
                                                  "storage": sc["storage"]}, "runs": ["001", "002"]}})
        elif not (ok and ok2 and cache_ok):
            def fd(a, b):
                d = next((i for i, (x, y) in enumerate(zip(a, b)) if x != y), min(len(a), len(b)))
                return "step %d model %s real %s" % (d, a[max(0, d - 3):d + 3], b[max(0, d - 3):d + 3])
            ctx.violation("ctx_race", "the model does not reproduce the statement trace of a sequential get_array call "
                          "(scenario %s; cold ok=%s [%s] warm ok=%s [%s] cache ok=%s; unlabelled shared-map lines: %s)"
                          % (sc, ok, fd(m1["threads"][0]["trace"], tr.labels), ok2,
                             fd(m2["threads"][0]["trace"], tr2.labels), cache_ok, (tr.unlabelled + tr2.unlabelled)[:4]),
                          {"input": "corr:C15/ctx_race/sequential", "case": {"scenario": sc}}, no_failing_input=True)
        S.bump("theorem_premise_checked")
        if not (all(m1["wf"]) and all(m2["wf"]) and all(m1["gotok"]) and all(m2["gotok"])):
            ctx.violation("ctx_race", "the call skeleton extracted from the real code does not satisfy the hypothesis "
                          "wf_items of ctx_race_free (scenario %s: wf %s/%s, plugins as predicted %s/%s)"
                          % (sc, m1["wf"], m2["wf"], m1["gotok"], m2["gotok"]),
                          {"input": "theorem:C15_ctx_race_free/premise", "case": {"scenario": sc, "items": tr.items}},
                          no_failing_input=True)
    ctx.count("ctx_race/sequential", n, 0)


def unit_pinned_witnesses(ctx, S):
    """the interleavings that crashed the code before d202a14 must not crash it any more"""
    for name, (sc, warm, ncalls, segs, exp) in PINNED_WITNESSES.items():
        rres, info = run_real(sc, warm, ncalls, segs)
        S.bump("pinned_witness_replays")
        S.nontriv.add(lib.canon(["witness", name]))
        fam = "temp_plugin" if name.startswith("wa") else "cache_fill"
        bad = [(tid, r) for tid, r in enumerate(rres) if r["status"][0] != "D" or r["data_ok"] is False]
        if bad:
            tid, r = bad[0]
            ctx.violation("ctx_race/" + fam, FINDING_WHAT[fam] + "; two worker threads (2 runs) interleaved as in the "
                          "input (thread, labelled statements; then every thread to its end): worker %d: %s"
                          % (tid, r["msg"] or "rows differ from the sequential call"),
                          {"input": witness_input(name), "error": r["msg"], "witness": name})
    ctx.count("ctx_race/pinned_witness", len(PINNED_WITNESSES), 0)


def random_coarse(rng, nthreads):
    k = rng.randint(1, 9)
    return [(rng.randrange(nthreads), rng.choice([1, 1, 2, 3, 4, 6, 9, 14])) for _ in range(k)]


def random_fine(rng, nthreads):
    k = rng.randint(1, 9)
    return [(rng.randrange(nthreads), rng.choice([1, 2, 3, 5, 8, 13, 21, 34, 55, 89, 144])) for _ in range(k)]


def unit_interleave(ctx, S):
    rng = ctx.rng
    big = ctx.thorough
    n_eval = 0
    n_coarse = 30 if big else (8 if ctx.drift else 5)
    n_fine = 30 if big else (8 if ctx.drift else 5)
    for sc, warm in scenarios(ctx):
        t_sc = lib.now()
        try:
            mc, tr = build_mc(sc, warm)
        except Exception as e:  # noqa  (reported by ctx_race/sequential with the concrete call)
            ctx.notes.append("scenario %s skipped: sequential call fails with %r" % (sc, e))
            continue
        todo = []
        slow = sc["storage"] == "dir" and not big      # saving to disk dominates: fewer replays in the quick tier
        for _ in range(2 if slow else n_coarse):
            nth = rng.choice([2, 2, 3])
            ncalls = [rng.choice([1, 1, 2]) for _ in range(nth)]
            todo.append((ncalls, random_coarse(rng, nth)))
        mouts = lib.run_model("C15", [model_line(mc, ncalls, 0, segs) for ncalls, segs in todo])
        for (ncalls, segs), mo in zip(todo, mouts):
            mres = parse_model_out(mo)
            lsegs = label_budgets(mres, segs)
            rres, info = run_real(sc, warm, ncalls, lsegs)
            failing = judge_real(ctx, S, "ctx_race", sc, warm, ncalls, lsegs, rres)
            agree, txt = compare(mres, rres, info, mc)
            S.bump("coarse_agree" if agree else "coarse_disagree")
            if not agree and not failing:
                ctx.violation("ctx_race", "model and real code disagree under an interleaving of whole sections (%s)" % txt,
                              {"input": "corr:C15/ctx_race/coarse", "case": case_of(sc, warm, ncalls, lsegs),
                               "model_schedule": segs, "detail": txt}, no_failing_input=True)
            if not (all(mres["wf"]) and all(mres["gotok"]) and all(t["status"] == ("D",) for t in mres["threads"])):
                ctx.violation("ctx_race", "the extracted model contradicts ctx_race_free on %s: wf %s statuses %s"
                              % (case_of(sc, warm, ncalls, segs), mres["wf"], [t["status"] for t in mres["threads"]]),
                              {"input": "theorem:C15_ctx_race_free", "case": case_of(sc, warm, ncalls, segs)},
                              no_failing_input=True)
            n_eval += 1
            S.nontriv.add(lib.canon([sc, warm, ncalls, segs, "coarse"]))
        # label-level schedules: threads are pre-empted inside sections as well; the model is run with the
        # order in which the threads entered their locked sections on the real code
        fine = []
        for _ in range(2 if slow else n_fine):
            nth = rng.choice([2, 2, 3])
            ncalls = [rng.choice([1, 1, 2]) for _ in range(nth)]
            fine.append((ncalls, random_fine(rng, nth)))
        reals = []
        for ncalls, segs in fine:
            rres, info = run_real(sc, warm, ncalls, segs)
            reals.append((rres, info))
        mouts = lib.run_model("C15", [model_line(mc, ncalls, 1, info["lock_order"])
                                      for (ncalls, segs), (rres, info) in zip(fine, reals)])
        for (ncalls, segs), (rres, info), mo in zip(fine, reals, mouts):
            mres = parse_model_out(mo)
            failing = judge_real(ctx, S, "ctx_race", sc, warm, ncalls, segs, rres)
            agree, txt = compare(mres, rres, info, mc)
            S.bump("fine_agree" if agree else "fine_disagree")
            if not agree and not failing:
                ctx.violation("ctx_race", "model and real code disagree under a label-level interleaving (%s)" % txt,
                              {"input": "corr:C15/ctx_race/fine", "case": case_of(sc, warm, ncalls, segs),
                               "lock_order": info["lock_order"], "detail": txt}, no_failing_input=True)
            n_eval += 1
            S.nontriv.add(lib.canon([sc, warm, ncalls, segs, "fine"]))
        sys.stderr.write("[C15] interleave %s %s %s %s: %d replays, %.1fs\n"
                         % (sc["graph"], ",".join(sc["targets"]), sc["storage"], "warm" if warm else "cold",
                            len(todo) + len(fine), lib.now() - t_sc))
    ctx.count("ctx_race/interleave", n_eval, 0)


# ------------------------------------------------------------------------------------------------
# kernel cross-check of the extraction (a sample of model runs re-evaluated inside Coq)
# ------------------------------------------------------------------------------------------------

def _zl(xs):
    return "[" + "; ".join("(%d)" % int(x) for x in xs) + "]"


def coq_item(mc, it, cls):
    k = it[0]
    if k == "getplugins":
        return "IGetPlugins %s" % _zl(mc.nid(x) for x in it[1])
    if k == "keyfor":
        return "IKeyFor %d" % mc.nid(it[1])
    if k == "register":
        return "IRegister %d %d" % (mc.nid(it[1]), cls)
    if k == "cleanup":
        return "ICleanup"
    if k == "regread":
        return "IRegRead %d %d" % (it[1], mc.nid(it[2]))
    if k == "estimate":
        return "IEstimate %s %d%%nat" % (_zl(mc.nid(x) for x in it[1]), it[2])
    if k == "copyreg":
        return "ICopyReg"
    if k == "endcall":
        return "IEndCall"
    raise ValueError(it)


def coq_terms(mc, threads_ncalls):
    deps = "[" + "; ".join("(%d, %s)" % (mc.nid(n), _zl(mc.nid(x) for x in d)) for n, d in mc.deps.items()) + "]"
    so = "[" + "; ".join("(%s, %s)" % (_zl(mc.nid(x) for x in k), _zl(mc.nid(x) for x in v))
                         for k, v in mc.so.items()) + "]"
    cfg = "(mkcfgm %s %s %d%%nat)" % (deps, so, MODEL_FUEL)
    g = GRAPHS[mc.sc["graph"]]
    reg = "[" + "; ".join("(%d, %d)" % (mc.nid(dt), 100 + mc.nid(dt)) for dt, _ in g) + "]"
    cache = "None" if mc.warm is None else "(Some %s)" % _zl(mc.nid(n) for n in mc.warm)
    sh = "(mkshared %s %s)" % (reg, cache)
    progs = []
    for tid, ncalls in enumerate(threads_ncalls):
        its = []
        for call in range(ncalls):
            its += [coq_item(mc, it, 5000 + 10 * tid + call) for it in mc.items]
        progs.append("[" + "; ".join(its) + "]")
    return cfg, sh, "[" + "; ".join(progs) + "]"


def unit_kernel_crosscheck(ctx, S):
    rng = ctx.rng
    eqs = []
    for sc, warm in [(dict(graph="flat", targets=("src", "aa"), storage="none"), False),
                     (dict(graph="chain", targets=("bb",), storage="none"), False),
                     (dict(graph="two", targets=("aa", "bb"), storage="none"), True)]:
        try:
            mc, tr = build_mc(sc, warm)
        except Exception:  # noqa  (reported by ctx_race/sequential)
            continue
        for _ in range(2):
            ncalls = [1, rng.choice([1, 2])]
            segs = random_coarse(rng, 2)
            mres = run_model(mc, ncalls, 0, segs)
            cfg, sh, progs = coq_terms(mc, ncalls)
            sched = "(rle [" + "; ".join("(%d%%nat, %d%%nat)" % s for s in segs) + "])"
            exp = "[" + "; ".join(
                "(%s, %s)" % (_zl({"D": [1], "R": [0]}.get(t["status"][0], [2] + list(t["status"][1:]))), _zl(t["trace"]))
                for t in mres["threads"]) + "]"
            eqs.append("c15_ctx_str %s %s %s %s 200%%nat = %s" % (cfg, sh, progs, sched, exp))
    n, fails = lib.coq_crosscheck("C15X", "From SV Require Import Base.Prelude Model.CtxRace Model.C15Run.", eqs)
    ctx.coverage.setdefault("kernel_crosscheck", {})["ctx_model"] = {"equations": n, "failed_files": len(fails)}
    if fails:
        ctx.violation("ctx_race", "extracted Context model and Coq vm_compute disagree: " + fails[0][-400:],
                      {"input": "corr:C15/ctx_race/extraction-crosscheck", "log": fails[0]}, no_failing_input=True)


# ------------------------------------------------------------------------------------------------
# real multi-run calls under OS schedules amplified by a 1 microsecond switch interval
# ------------------------------------------------------------------------------------------------

class FailingRun(Exception):
    pass


def make_context_os(sc, tmpdir, fail_runs):
    """like make_context, but the source plugin raises for the runs in fail_runs"""
    st = make_context(sc, tmpdir)
    if fail_runs:
        src_cls = st._plugin_class_registry["src"]
        orig = src_cls.compute

        def compute(self, chunk_i):
            if self.run_id in fail_runs:
                raise FailingRun(self.run_id)
            return orig(self, chunk_i)
        src_cls.compute = compute
    return st


def expected_multi(sc, runs, fail_runs):
    parts = []
    for r in sorted(runs):
        if r in fail_runs:
            continue
        a = oracle(sc, r)
        ids = np.array([r] * len(a), dtype=[("run_id", np.array(runs).dtype)])
        parts.append(strax.merge_arrs([ids, a]))
    return np.concatenate(parts) if parts else None


def os_case(rng, trial):
    g, targets = rng.choice([("flat", ("aa",)), ("chain", ("bb",)), ("three", ("cc",)), ("two", ("aa", "bb")),
                             ("three", ("aa", "bb", "cc")), ("flat", ("src", "aa"))])
    storage = rng.choice(["none", "none", "dir", "meta"])
    nruns = rng.randint(2, 8)
    runs = ["%03d" % x for x in rng.sample(range(100, 400), nruns)]
    fail = sorted(rng.sample(runs, 1)) if rng.random() < 0.3 else []
    ignore = bool(fail) and rng.random() < 0.6
    api = rng.choice(["get_array", "get_array", "get_df", "make"]) if storage == "dir" else \
        rng.choice(["get_array", "get_array", "get_df"])
    return {"scenario": {"graph": g, "targets": list(targets), "storage": storage}, "runs": runs,
            "workers": rng.randint(1, 8), "fail": fail, "ignore_errors": ignore, "api": api,
            "cache": ["warm", "cold"][trial % 2]}


def os_eval(case):
    """one real multi-run call under the current switch interval; returns None or the reason it is wrong"""
    from harness.props.c15 import quiet
    scd = case["scenario"]
    sc = dict(graph=scd["graph"], targets=tuple(scd["targets"]), storage=scd["storage"])
    runs, fail, w, api = case["runs"], set(case["fail"]), case["workers"], case["api"]
    tmpd = new_tmpdir() if sc["storage"] == "dir" else None
    exc = got = None
    with quiet():
        st = make_context_os(sc, tmpd, fail)
        if case["cache"] == "warm":
            st.get_array("001", targets_arg(sc), progress_bar=False)
        try:
            kw = dict(max_workers=w, multi_run_progress_bar=False)
            if case["ignore_errors"]:
                kw["ignore_errors"] = True
            if api == "make":
                st.make(runs, targets_arg(sc), **kw)
                ok_runs = [r for r in sorted(runs) if r not in fail]
                not_made = [r for r in ok_runs if not all(st.is_stored(r, t) for t in sc["targets"])]
                if not_made:
                    return "make() returned but runs %s are not stored" % not_made, None
                got = np.concatenate([strax.merge_arrs([np.array([r] * len(oracle(sc, r)),
                                                                 dtype=[("run_id", np.array(runs).dtype)]),
                                                        st.get_array(r, targets_arg(sc), progress_bar=False)]) for r in ok_runs]) \
                    if ok_runs else None
            elif api == "get_df":
                got = st.get_df(runs, targets_arg(sc), **kw)
            else:
                got = st.get_array(runs, targets_arg(sc), **kw)
        except BaseException as e:  # noqa
            exc = e
    expect_raise = bool(fail) and not case["ignore_errors"]
    exp = expected_multi(sc, runs, fail)
    if exc is not None:
        if expect_raise and (isinstance(exc, FailingRun) or "Failed to process" in str(exc)):
            return None, None
        return "raised %r" % (exc,), exc
    if expect_raise:
        return "a run failed and errors are not ignored, but the call returned normally", None
    if api == "get_df":
        ok = exp is not None and len(got) == len(exp) and all(list(got[c]) == list(exp[c]) for c in exp.dtype.names)
    else:
        ok = exp is not None and got is not None and same_array(got, exp)
    return (None if ok else "result differs from the sequential single-run calls concatenated in run-id order"), None


def unit_os_schedule(ctx, S):
    rng = ctx.rng
    big = ctx.thorough or bool(ctx.drift)
    ntr = 260 if big else 36
    old = sys.getswitchinterval()
    dist = {"ok": 0, "failing_run_cases": 0, "race_like_exceptions": 0}
    n = 0
    try:
        sys.setswitchinterval(1e-6)
        fixed = []
        for nruns in (2, 3):                     # the boundary of the multi-run branches (len(run_ids) > 1)
            for api in ("make", "get_array", "get_df"):
                for g, targets in (("chain", ("bb",)), ("two", ("aa", "bb"))):
                    fixed.append({"scenario": {"graph": g, "targets": list(targets), "storage": "dir"},
                                  "runs": ["%03d" % (200 + 7 * i) for i in range(nruns)][::-1], "workers": 2,
                                  "fail": [], "ignore_errors": False, "api": api, "cache": "cold"})
        for trial in range(len(fixed) + ntr):
            case = fixed[trial] if trial < len(fixed) else os_case(rng, trial)
            reason, exc = os_eval(case)
            n += 1
            dist["failing_run_cases"] += bool(case["fail"])
            S.nontriv.add(lib.canon(["os", case]))
            if reason is None:
                dist["ok"] += 1
                continue
            if exc is not None and classify_exc(exc)[0] == "C":
                # a data race under an OS schedule is not replayable: it is counted, and confirmed or not by the
                # controlled interleavings (which alarm deterministically)
                dist["race_like_exceptions"] += 1
                ctx.notes.append("OS-schedule trial raised %r on %s" % (exc, case))
                continue
            ctx.violation("multi_run_context", "Context.%s over %d runs with %d workers (%s cache): %s"
                          % (case["api"], len(case["runs"]), case["workers"], case["cache"], reason),
                          {"input": dict(case, mode="os"), "reason": reason})
    finally:
        sys.setswitchinterval(old)
    ctx.count("context_multi_run/os_schedule", n, 0, dist)


def run(ctx):
    S = CtxState()
    ctx.coverage["rule"] += (
        " | ctx_race: scenarios = plugin graphs (flat/two/chain/three) x single or several same-kind targets x storage "
        "none/meta/dir x cold/warm plugin cache; per scenario random schedules of whole sections (model schedule "
        "translated to labelled lines) and random label-level schedules (threads pre-empted inside locked sections; "
        "model run with the observed lock order) for 2-3 threads x 1-2 calls are replayed on the real code with the "
        "line-level interleaver; the interleavings that crashed the code before d202a14 are replayed as well; "
        "non-trivial = an interleaved execution of at least two threads; distinct by canonical JSON of (scenario, "
        "cache, calls per thread, schedule).")
    try:
        unit_sequential(ctx, S)
        unit_pinned_witnesses(ctx, S)
        unit_interleave(ctx, S)
        unit_kernel_crosscheck(ctx, S)
        unit_os_schedule(ctx, S)
    finally:
        cleanup_tmp()
    ctx.count("ctx_race", 0, len(S.nontriv), S.dist)
    ctx.assumptions.append("`with _PLUGIN_RESOLUTION_LOCK` (threading.RLock) makes _get_plugins / key_for atomic with "
                           "respect to each other; the harness checks at every labelled line of the real code that cache "
                           "statements run with the lock held and that registry writes hit a private copy")
    ctx.assumptions.append("CPython switches threads between bytecodes; the interleaver switches only between labelled "
                           "source lines (every replayed interleaving is a real one)")
    ctx.assumptions.append("the context hash is constant during a multi-run call (config and registry unchanged)")
    ctx.assumptions.append("PYTHONHASHSEED=0 (set by bin/check): list(set(targets)) order is part of the configurations")


def replay(ctx, obj):
    r = obj["replay"]
    inp = r.get("case") or r.get("input")
    if isinstance(inp, dict) and "segs" in inp:
        sc = dict(inp["scenario"])
        sc["targets"] = tuple(sc["targets"])
        warm = inp["cache"] == "warm"
        segs = [tuple(x) for x in inp["segs"]]
        rres, info = run_real(sc, warm, inp["threads_ncalls"], segs)
        bad = 0
        for tid, x in enumerate(rres):
            print("worker", tid, x["status"], x["msg"], "rows equal sequential:", x["data_ok"], "labelled lines:", len(x["trace"]))
            if x["status"][0] != "D" or x["data_ok"] is False:
                bad = 1
        cleanup_tmp()
        return bad
    if isinstance(inp, dict) and inp.get("mode") == "os":
        old = sys.getswitchinterval()
        bad = 0
        try:
            sys.setswitchinterval(1e-6)
            for _ in range(20):
                reason, exc = os_eval(inp)
                if reason:
                    print("fails:", reason)
                    bad = 1
                    break
        finally:
            sys.setswitchinterval(old)
            cleanup_tmp()
        print("20 trials:", "property fails" if bad else "holds")
        return bad
    if isinstance(inp, dict) and "runs" in inp and "scenario" in inp:
        from harness.props.c15 import quiet
        sc = dict(inp["scenario"])
        sc["targets"] = tuple(sc["targets"])
        try:
            with quiet():
                st = make_context(sc, new_tmpdir() if sc["storage"] == "dir" else None)
                res = [st.get_array(r, targets_arg(sc), progress_bar=False) for r in inp["runs"]]
        except Exception as e:  # noqa
            print("a sequential call fails:", repr(e))
            cleanup_tmp()
            return 1
        bad = [r for r, a in zip(inp["runs"], res) if not same_array(a, oracle(sc, r))]
        print("runs whose rows differ from a fresh context:", bad)
        cleanup_tmp()
        return 1 if bad else 0
    print("nothing to replay for", inp)
    return 0
