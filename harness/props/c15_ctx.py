"""C15, part 2: the Context code shared by the workers of a multi-run call, against Model/CtxRace.v.

A *scenario* is a plugin graph (single-output plugins of one data kind over a source), a tuple of targets,
a storage configuration, a cache temperature (cold / warm) and, per worker thread, the list of runs it loads
with `Context.get_array(run, targets)` on ONE shared context.

  skeleton   the top-level calls the unmodelled code (get_iter / get_components / is_stored / ...) makes into
             the modelled functions, extracted from a traced sequential run of the real code
  model      the extracted LTS run on that skeleton under a schedule -> per-thread label traces, statuses
  real       the line-level interleaver run on the same schedule -> per-thread label traces, outcomes
"""
import itertools
import json
import os
import shutil
import sys
import threading

import numpy as np
import strax

from harness import lib
from harness.props import c15_interleave as il

K_ITER, K_KEY, K_HAZARD, K_MODEL = 1, 2, 3, 4


# ------------------------------------------------------------------------------------------------
# plugin graphs
# ------------------------------------------------------------------------------------------------

GRAPHS = {
    # name -> list of (data type, depends_on); the first entry is the source
    "two": [("src", ()), ("aa", ("src",)), ("bb", ("src",))],
    "chain": [("src", ()), ("aa", ("src",)), ("bb", ("aa",))],
    "three": [("src", ()), ("aa", ("src",)), ("bb", ("src",)), ("cc", ("aa", "bb"))],
    "flat": [("src", ()), ("aa", ("src",))],
}
N_CHUNKS = 2
ROWS_PER_CHUNK = 3


def run_base(run_id):
    return (int(run_id.lstrip("_")) % 1000) * 1000


def make_plugins(graph):
    """fresh plugin classes for one context (rows are a deterministic function of run id and data type)"""
    classes = []
    for idx, (dt, deps) in enumerate(GRAPHS[graph]):
        if not deps:
            class P(strax.Plugin):
                provides = dt
                depends_on = ()
                dtype = strax.time_fields + [(("value of " + dt, dt + "_x"), np.int64)]
                rechunk_on_save = False
                _fld = dt + "_x"

                def source_finished(self):
                    return True

                def is_ready(self, chunk_i):
                    return chunk_i < N_CHUNKS

                def compute(self, chunk_i):
                    base = run_base(self.run_id) + chunk_i * 10
                    r = np.zeros(ROWS_PER_CHUNK, self.dtype)
                    r["time"] = base + np.arange(ROWS_PER_CHUNK)
                    r["endtime"] = r["time"] + 1
                    r[self._fld] = base + np.arange(ROWS_PER_CHUNK)
                    return self.chunk(start=base, end=base + 10, data=r)
        else:
            class P(strax.Plugin):
                provides = dt
                depends_on = tuple(deps)
                data_kind = "src"
                dtype = strax.time_fields + [(("value of " + dt, dt + "_x"), np.int64)]
                _fld = dt + "_x"
                _mul = idx + 1
                _dep_flds = tuple(d + "_x" for d in deps)

                def compute(self, **kw):
                    data = list(kw.values())[0]
                    r = np.zeros(len(data), self.dtype)
                    r["time"] = data["time"]
                    r["endtime"] = data["endtime"]
                    r[self._fld] = sum(data[f] for f in self._dep_flds) * self._mul + 1
                    return r
        P.__name__ = "P_" + dt
        P.__qualname__ = "P_" + dt
        classes.append(P)
    return classes


class MetaOnlyFrontend(strax.StorageFrontend):
    """A read-only frontend that knows run start/end (so get_iter's progress-bar code does not resolve
    plugins again) and stores no data."""
    def __init__(self):
        super().__init__(readonly=True)

    def run_metadata(self, run_id, projection=None):
        import datetime
        t0 = datetime.datetime(2020, 1, 1) + datetime.timedelta(seconds=run_base(run_id))
        return {"start": t0, "end": t0 + datetime.timedelta(seconds=1), "name": run_id}

    def _scan_runs(self, store_fields):
        return []

    def _find(self, key, write, allow_incomplete, fuzzy_for, fuzzy_for_options):
        raise strax.DataNotAvailable


def make_context(sc, tmpdir=None):
    storage = []
    if sc["storage"] == "meta":
        storage = [MetaOnlyFrontend()]
    elif sc["storage"] == "dir":
        storage = [strax.DataDirectory(tmpdir)]
    st = strax.Context(storage=storage, register=make_plugins(sc["graph"]))
    return st


def targets_arg(sc):
    t = tuple(sc["targets"])
    return t if len(t) > 1 else t[0]


def sequential_oracle(sc, runs):
    st = make_context(dict(sc, storage="none"))
    return {r: st.get_array(r, targets_arg(sc)) for r in runs}


# ------------------------------------------------------------------------------------------------
# skeleton extraction (traced sequential run of the real code)
# ------------------------------------------------------------------------------------------------

MODELLED = {"_get_plugins", "_Context__get_plugin", "__get_plugin", "_plugins_are_cached", "_plugins_to_cache",
            "_context_hash", "_Context__get_requested_plugins_from_cache", "__get_requested_plugins_from_cache",
            "key_for", "register", "estimate_run_start_and_end"}


class SkeletonTracer:
    """records the top-level entries into the modelled functions made by unmodelled Context code"""
    def __init__(self):
        self.by_code, self.unl = il.resolve_labels()
        self.file = il.sctx.__file__
        self.items = []
        self.labels = []
        self.unlabelled = []
        self.depth_est = 0       # inside estimate_run_start_and_end
        self.est_frames = []
        self.cleanup_seen = False
        self.set_orders = {}

    def _caller_modelled(self, frame):
        f = frame.f_back
        while f is not None and f.f_code.co_filename != self.file:
            f = f.f_back
        return f is not None and f.f_code.co_name in MODELLED

    def glob(self, frame, event, arg):
        code = frame.f_code
        if code.co_filename != self.file:
            return None
        name = code.co_name
        in_est = bool(self.est_frames)
        if name == "estimate_run_start_and_end":
            self.est_frames.append([frame, None])
            return self.local
        if not in_est:
            if name == "_get_plugins" and not self._caller_modelled(frame):
                self.items.append(("getplugins", tuple(frame.f_locals["targets"])))
            elif name == "key_for":
                self.items.append(("keyfor", frame.f_locals["target"]))
            elif name == "register" and frame.f_back.f_code.co_name == "get_iter":
                pc = frame.f_locals["plugin_class"]
                self.items.append(("register", pc.__name__))
        else:
            if name == "_get_plugins" and self.est_frames[-1][1] is None:
                self.est_frames[-1][1] = tuple(frame.f_locals["targets"])
        return self.local

    def local(self, frame, event, arg):
        if event == "line":
            labs = self.by_code.get(frame.f_code)
            lab = labs.get(frame.f_lineno) if labs else None
            if lab is not None:
                self.labels.append(lab)
                if not self.est_frames:
                    if lab == 23 and not self.cleanup_seen:
                        self.cleanup_seen = True
                        self.items.append(("cleanup",))
                    elif lab in (25, 26):
                        self.items.append(("regread", lab, frame.f_locals["target"]))
            elif frame.f_lineno in self.unl:
                self.unlabelled.append((frame.f_code.co_name, frame.f_lineno))
            if frame.f_code.co_name == "_get_plugins" and "targets" in frame.f_locals:
                pass
        elif event in ("return", "exception"):
            if self.est_frames and self.est_frames[-1][0] is frame and event == "return":
                _, ts = self.est_frames.pop()
                if ts is not None:
                    nsf = len(frame.f_locals["self"]._sorted_storage)
                    self.items.append(("estimate", ts, nsf))
        return self.local


def extract_skeleton(sc, run_id, st=None, tmpdir=None):
    """(items, labels) of one sequential get_array(run_id, targets) on a fresh (or the given) context"""
    from harness.props.c15 import quiet
    st = st or make_context(sc, tmpdir)
    tr = SkeletonTracer()
    with quiet():
        sys.settrace(tr.glob)
        try:
            res = st.get_array(run_id, targets_arg(sc))
        finally:
            sys.settrace(None)
    return tr, res, st


def set_order_table(deps, target_lists):
    """list(set(xs)) for every list the loop of Context._get_plugins computes it on"""
    table = {}
    for ts in target_lists:
        plugins = []
        targets = list(ts)
        while targets:
            new = list(set(targets))
            table[tuple(targets)] = list(new)
            targets = new
            t = targets.pop(0)
            if t in plugins:
                continue
            plugins.append(t)
            targets += list(deps.get(t, ()))
    return table


# ------------------------------------------------------------------------------------------------
# model configuration
# ------------------------------------------------------------------------------------------------

class ModelCfg:
    """translation of a scenario into the integer line protocol of the extracted LTS"""
    def __init__(self, sc, skeleton_items, temp_name, warm_names=None):
        g = GRAPHS[sc["graph"]]
        self.names = {dt: i + 1 for i, (dt, _) in enumerate(g)}
        self.temp_name = temp_name
        if temp_name:
            self.names[temp_name] = 1000
        self.deps = {dt: tuple(d) for dt, d in g}
        if temp_name:
            self.deps[temp_name] = tuple(sc["targets"])
        self.items = skeleton_items
        self.sc = sc
        self.warm = warm_names
        tl = [tuple(sc["targets"])] + [(d,) for d in self.deps] + ([(temp_name,)] if temp_name else [])
        self.so = set_order_table(self.deps, tl)

    def nid(self, n):
        return self.names[n]

    def encode(self, threads_ncalls, extra=()):
        """threads_ncalls[i] = number of get_array calls thread i makes, one after the other"""
        t = []
        t.append(len(self.deps))
        for n, d in self.deps.items():
            t += [self.nid(n), len(d)] + [self.nid(x) for x in d]
        t.append(len(self.so))
        for k, v in self.so.items():
            t += [len(k)] + [self.nid(x) for x in k] + [len(v)] + [self.nid(x) for x in v]
        t.append(400)  # fuel of the macro expansion
        g = GRAPHS[self.sc["graph"]]
        t.append(len(g))
        for dt, _ in g:
            t += [self.nid(dt), 100 + self.nid(dt)]
        if self.warm is None:
            t.append(-1)
        else:
            t.append(len(self.warm))
            for n in self.warm:
                t += [self.nid(n), (100 + self.nid(n)) if n != self.temp_name else 4999]
        t.append(len(threads_ncalls))
        for tid, ncalls in enumerate(threads_ncalls):
            its = []
            for call in range(ncalls):
                for it in self.items:
                    its.append(self.enc_item(it, 5000 + 10 * tid + call))
            t.append(len(its))
            for e in its:
                t += e
        t += list(extra)
        return " ".join(str(int(x)) for x in t)

    def enc_item(self, it, cls):
        k = it[0]
        if k == "getplugins":
            return [1, len(it[1])] + [self.nid(x) for x in it[1]]
        if k == "keyfor":
            return [2, self.nid(it[1])]
        if k == "register":
            return [3, self.nid(it[1]), cls]
        if k == "cleanup":
            return [4]
        if k == "regread":
            return [5, it[1], self.nid(it[2])]
        if k == "estimate":
            return [6, len(it[1])] + [self.nid(x) for x in it[1]] + [it[2]]
        raise ValueError(it)


def parse_model_out(line):
    """'T D n l.. T C k l n l.. G ...' -> list of (status tuple, trace)"""
    toks = line.split()
    out = []
    i = 0
    while i < len(toks) and toks[i] == "T":
        st = toks[i + 1]
        i += 2
        if st == "C":
            status = ("C", int(toks[i]), int(toks[i + 1]))
            i += 2
        else:
            status = (st,)
        n = int(toks[i])
        tr = [int(x) for x in toks[i + 1:i + 1 + n]]
        i += 1 + n
        out.append((status, tr))
    got = toks[i + 1:] if i < len(toks) else []
    return out, got


def run_model(mc, threads_ncalls, segs):
    extra = [len(segs)]
    for t, n in segs:
        extra += [t, n]
    line = "ctx " + mc.encode(threads_ncalls, extra)
    out = lib.run_model("C15", [line])[0]
    if out.startswith("EXC") or out in ("BAD", "UNKNOWN"):
        raise RuntimeError("model driver: " + out)
    return parse_model_out(out)


def classify_exc(e):
    if e is None:
        return ("D",)
    if isinstance(e, RuntimeError) and "changed size during iteration" in str(e):
        return ("C", K_ITER)
    if isinstance(e, RuntimeError) and "keys changed during iteration" in str(e):
        return ("C", K_HAZARD)
    if isinstance(e, KeyError):
        return ("C", K_KEY)
    return ("X", type(e).__name__ + ": " + str(e)[:200])


# ------------------------------------------------------------------------------------------------
# Coq text of a model configuration (witness file generation and kernel cross-check)
# ------------------------------------------------------------------------------------------------

def _zl(xs):
    return "[" + "; ".join(str(int(x)) for x in xs) + "]"


def coq_item(mc, it, cls):
    k = it[0]
    if k == "getplugins":
        return "MGetPlugins %s" % _zl(mc.nid(x) for x in it[1])
    if k == "keyfor":
        return "MKeyFor %d" % mc.nid(it[1])
    if k == "register":
        return "HRegGet %d %d" % (mc.nid(it[1]), cls)
    if k == "cleanup":
        return "HSnap"
    if k == "regread":
        return "HRead %d %d" % (it[1], mc.nid(it[2]))
    if k == "estimate":
        return "MEstimate %s %d%%nat" % (_zl(mc.nid(x) for x in it[1]), it[2])
    raise ValueError(it)


def coq_terms(mc, threads_ncalls):
    """(cfgm, shared, progs) as Coq terms, the same data `encode` sends to the driver"""
    deps = "[" + "; ".join("(%d, %s)" % (mc.nid(n), _zl(mc.nid(x) for x in d)) for n, d in mc.deps.items()) + "]"
    so = "[" + "; ".join("(%s, %s)" % (_zl(mc.nid(x) for x in k), _zl(mc.nid(x) for x in v))
                         for k, v in mc.so.items()) + "]"
    cfg = "(mkcfgm %s %s 400%%nat)" % (deps, so)
    g = GRAPHS[mc.sc["graph"]]
    reg = "[" + "; ".join("(%d, %d)" % (mc.nid(dt), 100 + mc.nid(dt)) for dt, _ in g) + "]"
    if mc.warm is None:
        sh = "(mkshared (mkdict %s 0%%nat) None [])" % reg
    else:
        items = "[" + "; ".join("(%d, %d)" % (mc.nid(n), (100 + mc.nid(n)) if n != mc.temp_name else 4999)
                                for n in mc.warm) + "]"
        sh = "(mkshared (mkdict %s 0%%nat) (Some 0%%nat) [mkdict %s 0%%nat])" % (reg, items)
    progs = []
    for tid, ncalls in enumerate(threads_ncalls):
        its = []
        for call in range(ncalls):
            its += [coq_item(mc, it, 5000 + 10 * tid + call) for it in mc.items]
        progs.append("[" + "; ".join(its) + "]")
    return cfg, sh, "[" + ";\n   ".join(progs) + "]"


WITNESSES = {
    # name: (scenario, warm, threads_ncalls, run-length schedule, expected (tid, kind, label))
    "wa1": (dict(graph="flat", targets=("src", "aa"), storage="none"), False, [1, 1], [(1, 45)], (1, K_ITER, 20)),
    "wa2": (dict(graph="flat", targets=("src", "aa"), storage="none"), False, [1, 1], [(1, 44)], (1, K_KEY, 25)),
    "wb1": (dict(graph="flat", targets=("aa",), storage="none"), False, [1, 1], [(0, 19), (1, 30)], (1, K_ITER, 15)),
    "wb2": (dict(graph="flat", targets=("aa",), storage="none"), False, [1, 1], [(0, 17), (1, 31), (0, 1), (1, 10)],
            (1, K_KEY, 15)),
}


def build_mc(sc, warm):
    """skeleton + model configuration of a scenario from a traced sequential run of the real code"""
    tr, res, st0 = extract_skeleton(sc, "001", tmpdir=(new_tmpdir() if sc["storage"] == "dir" else None))
    temp = [i[1] for i in tr.items if i[0] == "register"]
    temp = temp[0] if temp else None
    cached = None
    if warm:
        cached = list(st0._fixed_plugin_cache[st0._context_hash()].keys())
    return ModelCfg(sc, tr.items, temp, cached), tr


def gen_witness_file():
    out = ["(* GENERATED by `python -m harness.props.c15_ctx gen-witness` from traced sequential runs of the real",
           "   strax code (skeletons of Context.get_array); the check re-derives these terms on every run and",
           "   compares them with this file (kernel cross-check).  Concrete refutations of ctx_race_free. *)",
           "From SV Require Import Base.Prelude Model.CtxRace.", ""]
    for name, (sc, warm, ncalls, segs, exp) in WITNESSES.items():
        mc, _ = build_mc(sc, warm)
        cfg, sh, progs = coq_terms(mc, ncalls)
        out.append("(* %s: graph %s, targets %s, %s cache, %d worker threads x 1 run *)"
                   % (name, GRAPHS[sc["graph"]], sc["targets"], "warm" if warm else "cold", len(ncalls)))
        out.append("Definition %s_cfg : cfgm := %s." % (name, cfg))
        out.append("Definition %s_sh : shared := %s." % (name, sh))
        out.append("Definition %s_progs : list (list task) :=\n  %s." % (name, progs))
        out.append("Definition %s_sched : list nat := rle %s."
                   % (name, "[" + "; ".join("(%d%%nat, %d%%nat)" % s for s in segs) + "]"))
        out.append("")
    return "\n".join(out)



# ------------------------------------------------------------------------------------------------
# running a scenario on the real code under the interleaver, and on the model
# ------------------------------------------------------------------------------------------------

_TMP_ROOT = os.path.join(lib.BUILD, "tmp_c15_%d" % os.getpid())
_tmp_counter = itertools.count()


def new_tmpdir():
    d = os.path.join(_TMP_ROOT, "d%d" % next(_tmp_counter))
    os.makedirs(d, exist_ok=True)
    return d


def cleanup_tmp():
    shutil.rmtree(_TMP_ROOT, ignore_errors=True)


def thread_runs(threads_ncalls):
    """run ids per thread: thread i loads runs 0i1, 0i2, ..."""
    return [["%d%d" % (tid + 1, call + 1) for call in range(n)] for tid, n in enumerate(threads_ncalls)]


_ORACLE = {}


def oracle(sc, run_id):
    key = (sc["graph"], tuple(sc["targets"]), run_id)
    if key not in _ORACLE:
        from harness.props.c15 import quiet
        with quiet():
            st = make_context(dict(sc, storage="none"))
            _ORACLE[key] = st.get_array(run_id, targets_arg(sc))
    return _ORACLE[key]


def same_array(a, b):
    return a.dtype == b.dtype and len(a) == len(b) and all(np.array_equal(a[n], b[n]) for n in a.dtype.names)


def run_real(sc, warm, threads_ncalls, sched):
    """-> per thread dict(status, trace, exc, data_ok, unlabelled), and the Interleaver"""
    from harness.props.c15 import quiet
    tmpd = new_tmpdir() if sc["storage"] == "dir" else None
    with quiet():
        st = make_context(sc, tmpd)
        if warm:
            st.get_array("001", targets_arg(sc))
    runs = thread_runs(threads_ncalls)

    def mk(rs):
        def f():
            return [st.get_array(r, targets_arg(sc)) for r in rs]
        return f

    I = il.Interleaver()
    with quiet():
        ws = I.run([mk(rs) for rs in runs], sched)
    out = []
    for w, rs in zip(ws, runs):
        status = classify_exc(w.exc)
        ok = None
        if w.exc is None:
            ok = all(same_array(a, oracle(sc, r)) for a, r in zip(w.result, rs))
        out.append(dict(status=status, trace=w.trace, exc=w.exc, data_ok=ok, unlabelled=w.unlabelled,
                        msg=(repr(w.exc)[:160] if w.exc is not None else "")))
    return out, st


def family_of(sc, warm, mc, th):
    """finding family of a crash of the real code: 'temp_plugin' (D7a), 'cache_fill' (D7b) or None (new)"""
    st = th["status"]
    if st[0] != "C":
        return None
    last = th["trace"][-1] if th["trace"] else None
    msg = str(th["exc"])
    multi = len(sc["targets"]) > 1
    temp = mc.temp_name or "\0"
    if st[1] == K_ITER:
        if last in (1, 3, 20) and multi:
            return "temp_plugin"
        if last == 15 and not warm:
            return "cache_fill"
        return None
    if st[1] == K_KEY:
        if temp in msg and multi and last in (3, 7, 8, 24, 25, 26):
            return "temp_plugin"
        if temp not in msg and not warm and last in (3, 15):
            return "cache_fill"
    return None


FINDING_WHAT = {
    "temp_plugin": ("Context is not thread-safe for several same-kind targets (D7): get_iter registers a temporary "
                    "merge plugin in the shared _plugin_class_registry and deletes every '_temp*' key afterwards; "
                    "two worker threads of one multi-run call (2 runs, 2 targets, 2 workers) interleaved as in the "
                    "witness make one worker fail with 'RuntimeError: dictionary changed size during iteration' "
                    "(Context.register / _context_hash / _get_plugins iterate the registry) or KeyError on the "
                    "deleted temporary plugin"),
    "cache_fill": ("Context plugin cache is not thread-safe on a cold cache, even for ONE target (D7b): "
                   "__get_requested_plugins_from_cache iterates the shared _fixed_plugin_cache while another worker's "
                   "_plugins_to_cache inserts into it ('dictionary changed size during iteration'), and two workers "
                   "that both see the cache as None replace each other's cache (KeyError on a plugin just reported "
                   "as cached)"),
}
FINDING_WITNESS = {"temp_plugin": "wa1", "cache_fill": "wb1"}


def witness_input(name):
    sc, warm, ncalls, segs, exp = WITNESSES[name]
    return {"scenario": {"graph": sc["graph"], "targets": list(sc["targets"]), "storage": sc["storage"]},
            "cache": "warm" if warm else "cold", "threads_ncalls": ncalls, "segs": [list(s) for s in segs]}


def compare(mres, rres):
    """model (status, trace) per thread vs real; returns (agree, hazard, text)"""
    hazard = any(ms[0] == "C" and ms[1] == K_HAZARD for ms, _ in mres)
    if hazard:
        return True, True, "hazard"
    for tid, ((ms, mtr), r) in enumerate(zip(mres, rres)):
        rs = r["status"]
        if ms[0] == "D":
            if rs[0] != "D":
                return False, False, "thread %d: model finishes, real %s %s" % (tid, rs, r["msg"])
        elif ms[0] == "C":
            if rs[0] != "C" or rs[1] != ms[1]:
                return False, False, "thread %d: model crashes %s, real %s %s" % (tid, ms, rs, r["msg"])
        else:
            return False, False, "thread %d: model status %s" % (tid, ms)
        if mtr != r["trace"]:
            d = next((i for i, (x, y) in enumerate(zip(mtr, r["trace"])) if x != y), min(len(mtr), len(r["trace"])))
            return False, False, "thread %d: label traces differ at step %d (model %s / real %s)" % (
                tid, d, mtr[max(0, d - 3):d + 3], r["trace"][max(0, d - 3):d + 3])
        if r["unlabelled"]:
            return False, False, "thread %d executed unlabelled shared-map lines %s" % (tid, r["unlabelled"][:3])
    return True, False, "agree"


class CtxState:
    def __init__(self):
        self.confirmed = set()      # finding families whose canonical witness crashed on the real code this run
        self.instances = {"temp_plugin": 0, "cache_fill": 0}
        self.nontriv = set()
        self.dist = {}

    def bump(self, k, n=1):
        self.dist[k] = self.dist.get(k, 0) + n


def judge(ctx, S, unit, sc, warm, ncalls, segs, mc, mres, rres):
    """evaluate correspondence and the property predicate for one interleaved execution"""
    case = {"scenario": {"graph": sc["graph"], "targets": list(sc["targets"]), "storage": sc["storage"]},
            "cache": "warm" if warm else "cold", "threads_ncalls": list(ncalls), "segs": [list(x) for x in segs]}
    agree, hazard, txt = compare(mres, rres)
    S.bump("hazard_not_compared" if hazard else ("agree" if agree else "disagree"))
    failing = False
    for tid, r in enumerate(rres):
        if r["status"][0] == "C" or r["status"][0] == "X":
            fam = family_of(sc, warm, mc, r)
            S.bump("real_crash")
            if fam and fam in S.confirmed:
                S.instances[fam] += 1
            else:
                failing = True
                ctx.violation("ctx_race", "two or more threads calling get_array on one context: worker %d fails with %s "
                              "under the line-level interleaving %s (sequentially all calls succeed)"
                              % (tid, r["msg"], segs), {"input": case, "thread": tid, "error": r["msg"]})
        elif r["data_ok"] is False:
            failing = True
            ctx.violation("ctx_race", "worker %d returned rows that differ from the sequential single-run call under the "
                          "line-level interleaving %s" % (tid, segs), {"input": case, "thread": tid})
    if not agree and not failing:
        ctx.violation("ctx_race", "model and real code disagree under an interleaving (%s)" % txt,
                      {"input": "corr:C15/ctx_race/%s" % unit, "case": case, "detail": txt}, no_failing_input=True)
    return agree


# ------------------------------------------------------------------------------------------------
# units
# ------------------------------------------------------------------------------------------------

def scenarios(ctx):
    big = ctx.thorough or bool(ctx.drift)
    base = [("flat", ("src", "aa")), ("flat", ("aa",)), ("two", ("aa", "bb")), ("two", ("bb",)), ("chain", ("bb",)),
            ("chain", ("bb", "aa")), ("three", ("cc",)), ("three", ("aa", "bb", "cc"))]
    out = []
    for g, t in base:
        for stg in (("none", "meta", "dir") if big else ("none",)):
            for warm in (False, True):
                out.append((dict(graph=g, targets=t, storage=stg), warm))
    if not big:
        out = [x for x in out if x[0]["graph"] != "three" or not x[1]]
        out += [(dict(graph="two", targets=("aa", "bb"), storage="meta"), False),
                (dict(graph="chain", targets=("bb",), storage="dir"), False),
                (dict(graph="two", targets=("aa", "bb"), storage="dir"), True)]
    return out


def unit_sequential(ctx, S):
    """the model reproduces the label trace of a sequential call (cold and warm), the skeleton does not depend on
    the cache, and warm single-target calls are read-only (premise of ctx_race_free_partial)"""
    from harness.props.c15 import quiet
    n = 0
    for sc, _ in scenarios(ctx):
        if _:
            continue
        tmpd = new_tmpdir() if sc["storage"] == "dir" else None
        tr, res, st = extract_skeleton(sc, "001", tmpdir=tmpd)
        temp = [i[1] for i in tr.items if i[0] == "register"]
        temp = temp[0] if temp else None
        mc = ModelCfg(sc, tr.items, temp, None)
        mres, _got = run_model(mc, [1], [])
        ok = mres[0][0] == ("D",) and mres[0][1] == tr.labels and not tr.unlabelled and same_array(res, oracle(sc, "001"))
        # warm: second call on the same context
        tr2 = SkeletonTracer()
        with quiet():
            sys.settrace(tr2.glob)
            try:
                res2 = st.get_array("002", targets_arg(sc))
            finally:
                sys.settrace(None)
        cached = list(st._fixed_plugin_cache[st._context_hash()].keys())
        mc2 = ModelCfg(sc, tr2.items, temp, cached)
        mres2, _ = run_model(mc2, [1], [])
        ok2 = (mres2[0][0] == ("D",) and mres2[0][1] == tr2.labels and not tr2.unlabelled and tr2.items == tr.items
               and same_array(res2, oracle(sc, "002")))
        n += 2
        S.bump("sequential_cold")
        S.bump("sequential_warm")
        S.nontriv.add(lib.canon(["seq", sc]))
        d1, d2 = same_array(res, oracle(sc, "001")), same_array(res2, oracle(sc, "002"))
        if not (d1 and d2):
            ctx.violation("context_sequential", "two successive single-run get_array calls on one context: the %s call "
                          "returns rows that differ from the same call on a fresh context (scenario %s)"
                          % ("first" if not d1 else "second (warm plugin cache)", sc),
                          {"input": {"scenario": {"graph": sc["graph"], "targets": list(sc["targets"]),
                                                  "storage": sc["storage"]}, "runs": ["001", "002"]}})
        elif not (ok and ok2):
            ctx.violation("ctx_race", "the model does not reproduce the statement trace of a sequential get_array call "
                          "(scenario %s; cold ok=%s warm ok=%s; unlabelled shared-map lines: %s)"
                          % (sc, ok, ok2, (tr.unlabelled + tr2.unlabelled)[:4]),
                          {"input": "corr:C15/ctx_race/sequential", "case": {"scenario": sc}}, no_failing_input=True)
        if len(sc["targets"]) == 1:
            w = sorted(set(tr2.labels) & il.WRITE_LABELS)
            S.bump("partial_premise_checked")
            if w:
                ctx.violation("ctx_race", "a single-target call on a warm plugin cache executes writing statements %s: the "
                              "hypothesis of ctx_race_free_partial no longer holds for the real code" % w,
                              {"input": "theorem:C15_ctx_race_free_partial/premise", "case": {"scenario": sc}},
                              no_failing_input=True)
    ctx.count("ctx_race/sequential", n, 0)


def unit_witnesses(ctx, S):
    """replay the refuting interleavings of Proof/CtxRaceWitnessProof.v on the model and on the real code"""
    eqs = []
    for name, (sc, warm, ncalls, segs, exp) in WITNESSES.items():
        mc, tr = build_mc(sc, warm)
        cfg, sh, progs = coq_terms(mc, ncalls)
        eqs.append("(%s_cfg, %s_sh, %s_progs) = (%s, %s, %s)" % (name, name, name, cfg, sh, progs))
        mres, _ = run_model(mc, ncalls, segs)
        rres, _st = run_real(sc, warm, ncalls, segs)
        tid, kind, lab = exp
        m_ok = mres[tid][0] == ("C", kind, lab)
        r = rres[tid]
        r_ok = r["status"] == ("C", kind) and r["trace"] and r["trace"][-1] == lab
        agree, hazard, txt = compare(mres, rres)
        S.bump("witness_replays")
        S.nontriv.add(lib.canon(["witness", name]))
        fam = "temp_plugin" if name.startswith("wa") else "cache_fill"
        if r_ok and agree:
            if FINDING_WITNESS[fam] == name:
                S.confirmed.add(fam)
                ctx.violation("ctx_race/" + fam, FINDING_WHAT[fam] + "; worker %d: %s" % (tid, r["msg"]),
                              {"input": witness_input(name), "error": r["msg"], "model": list(mres[tid][0])})
            else:
                S.instances[fam] += 1
        elif not m_ok:
            ctx.violation("ctx_race", "the extracted model no longer refutes race freedom on witness %s (model %s)"
                          % (name, mres[tid][0]), {"input": "corr:C15/ctx_race/witness-%s" % name,
                                                   "case": witness_input(name)}, no_failing_input=True)
        else:
            # the model (and the Coq theorem) says crash, the real code does not: the code changed
            bad = [x for x in rres if x["status"][0] != "D" or x["data_ok"] is False]
            if bad:
                ctx.violation("ctx_race", "witness %s: real code fails differently from the model: %s" % (name, bad[0]["msg"]),
                              {"input": witness_input(name), "error": bad[0]["msg"]})
            else:
                ctx.violation("ctx_race", "witness %s of ctx_race_refuted no longer crashes the real code (%s): the model "
                              "of the Context code is out of date" % (name, txt),
                              {"input": "corr:C15/ctx_race/witness-%s" % name, "case": witness_input(name)},
                              no_failing_input=True)
    n, fails = lib.coq_crosscheck("C15W", "From SV Require Import Base.Prelude Model.CtxRace Model.CtxRaceWitness.", eqs)
    ctx.coverage.setdefault("kernel_crosscheck", {})["witness_configs"] = {"equations": n, "failed_files": len(fails)}
    if fails:
        ctx.violation("ctx_race", "the configurations in coq/Model/CtxRaceWitness.v differ from the ones extracted from the "
                      "real code now: " + fails[0][-300:], {"input": "corr:C15/ctx_race/witness-config", "log": fails[0]},
                      no_failing_input=True)
    ctx.count("ctx_race/witness", len(WITNESSES), 0)


def random_segs(rng, nthreads, total):
    k = rng.randint(1, 7)
    segs = []
    for _ in range(k):
        segs.append((rng.randrange(nthreads), rng.choice([1, 2, 3, 5, 8, 13, 21, 34, 55, 89, 144])))
    return segs


def unit_interleave(ctx, S):
    rng = ctx.rng
    big = ctx.thorough or bool(ctx.drift)
    n_eval = 0
    per_class_cap = 40 if big else 5
    n_random = 25 if big else 3
    for sc, warm in scenarios(ctx):
        t_sc = lib.now()
        mc, tr = build_mc(sc, warm)
        steps = len(tr.labels)
        stride = 1 if big else max(1, steps // 60)
        out = lib.run_model("C15", ["ctxsearch " + mc.encode([1, 1], [stride, stride, 2])])[0]
        toks = [int(x) for x in out.split()[2:]]
        classes = [toks[i:i + 6] for i in range(0, len(toks), 6)]
        S.bump("model_crash_classes", len(classes))
        if len(sc["targets"]) == 1 and warm and classes:
            ctx.violation("ctx_race", "the model finds a crashing interleaving for a single target on a warm cache: %s"
                          % classes[0], {"input": "theorem:C15_ctx_race_free_partial", "case": {"scenario": sc}},
                          no_failing_input=True)
        rng.shuffle(classes)
        todo = []
        for tid, k, lb, a, b, c in classes[:per_class_cap]:
            if k == K_HAZARD:
                continue
            segs = [(0, a), (1, b), (0, 100000)] if c < 0 else [(0, a), (1, b), (0, c), (1, 100000), (0, 100000)]
            todo.append(([1, 1], segs))
        for _ in range(n_random):
            nth = rng.choice([2, 2, 3])
            ncalls = [rng.choice([1, 1, 2]) for _ in range(nth)]
            todo.append((ncalls, random_segs(rng, nth, steps)))
        mlines = []
        for ncalls, segs in todo:
            extra = [len(segs)]
            for t, n in segs:
                extra += [t, n]
            mlines.append("ctx " + mc.encode(ncalls, extra))
        mouts = lib.run_model("C15", mlines)
        for (ncalls, segs), mo in zip(todo, mouts):
            mres, _ = parse_model_out(mo)
            rres, _st = run_real(sc, warm, ncalls, segs)
            judge(ctx, S, "interleave", sc, warm, ncalls, segs, mc, mres, rres)
            n_eval += 1
            S.nontriv.add(lib.canon([sc, warm, ncalls, segs]))
        sys.stderr.write("[C15] interleave %s %s %s: %d classes, %d replays, %.1fs\n"
                         % (sc["graph"], ",".join(sc["targets"]), "warm" if warm else "cold", len(classes), len(todo),
                            lib.now() - t_sc))
    ctx.count("ctx_race/interleave", n_eval, 0)



# ------------------------------------------------------------------------------------------------
# real multi-run calls under OS schedules amplified by a 1 microsecond switch interval (confirmation only)
# ------------------------------------------------------------------------------------------------

class FailingRun(Exception):
    pass


def make_context_os(sc, tmpdir, fail_runs):
    """like make_context, but the source plugin raises for the runs in fail_runs"""
    st = make_context(sc, tmpdir)
    if fail_runs:
        src_cls = st._plugin_class_registry["src"]
        orig = src_cls.compute

        def compute(self, chunk_i):
            if self.run_id in fail_runs:
                raise FailingRun(self.run_id)
            return orig(self, chunk_i)
        src_cls.compute = compute
    return st


def expected_multi(sc, runs, fail_runs):
    parts = []
    for r in sorted(runs):
        if r in fail_runs:
            continue
        a = oracle(sc, r)
        ids = np.array([r] * len(a), dtype=[("run_id", np.array(runs).dtype)])
        parts.append(strax.merge_arrs([ids, a]))
    return np.concatenate(parts) if parts else None


def unit_os_schedule(ctx, S):
    from harness.props.c15 import quiet
    rng = ctx.rng
    big = ctx.thorough or bool(ctx.drift)
    ntr = 260 if big else 36
    old = sys.getswitchinterval()
    dist = {"warm_single_ok": 0, "cold_or_multi_ok": 0, "known_race_crash": 0, "failing_run_cases": 0}
    n = 0
    try:
        sys.setswitchinterval(1e-6)
        for trial in range(ntr):
            g, targets = rng.choice([("flat", ("aa",)), ("chain", ("bb",)), ("three", ("cc",)), ("two", ("aa", "bb")),
                                     ("three", ("aa", "bb", "cc"))])
            mode = trial % 3          # 0: warm single target (strict), 1: cold single, 2: several targets
            if mode == 0 and len(targets) > 1:
                targets = targets[-1:]
            if mode == 1 and len(targets) > 1:
                targets = targets[:1]
            if mode == 2 and len(targets) == 1:
                g, targets = "two", ("aa", "bb")
            storage = rng.choice(["none", "none", "dir", "meta"])
            sc = dict(graph=g, targets=targets, storage=storage)
            nruns = rng.randint(2, 8)
            w = rng.randint(1, 8)
            runs = ["%03d" % x for x in rng.sample(range(100, 400), nruns)]
            fail = set(rng.sample(runs, 1)) if rng.random() < 0.3 else set()
            ignore = bool(fail) and rng.random() < 0.6
            api = rng.choice(["get_array", "get_array", "get_df", "make"]) if storage == "dir" else \
                rng.choice(["get_array", "get_array", "get_df"])
            tmpd = new_tmpdir() if storage == "dir" else None
            case = {"scenario": {"graph": g, "targets": list(targets), "storage": storage}, "runs": runs, "workers": w,
                    "fail": sorted(fail), "ignore_errors": ignore, "api": api, "mode": ["warm", "cold", "multi"][mode]}
            with quiet():
                st = make_context_os(sc, tmpd, fail)
                if mode == 0:
                    st.get_array("001", targets_arg(sc))
                exc = None
                got = None
                try:
                    kw = dict(max_workers=w, multi_run_progress_bar=False)
                    if ignore:
                        kw["ignore_errors"] = True
                    if api == "make":
                        st.make(runs, targets_arg(sc), **kw)
                        got = np.concatenate([strax.merge_arrs([np.array([r] * len(oracle(sc, r)),
                                                                dtype=[("run_id", np.array(runs).dtype)]),
                                                                st.get_array(r, targets_arg(sc))])
                                              for r in sorted(runs) if r not in fail]) if len(fail) < len(runs) else None
                    elif api == "get_df":
                        got = st.get_df(runs, targets_arg(sc), **kw)
                    else:
                        got = st.get_array(runs, targets_arg(sc), **kw)
                except BaseException as e:  # noqa
                    exc = e
            n += 1
            dist["failing_run_cases"] += bool(fail)
            S.nontriv.add(lib.canon(["os", case]))
            expect_raise = bool(fail) and not ignore
            exp = expected_multi(sc, runs, fail)
            reason = None
            if exc is not None:
                if expect_raise and isinstance(exc, FailingRun):
                    pass
                elif isinstance(exc, (ValueError,)) and expect_raise and "Failed to process" in str(exc):
                    pass
                else:
                    st_c = classify_exc(exc)
                    if mode != 0 and st_c[0] == "C":
                        dist["known_race_crash"] += 1      # D7: confirmation only, never an alarm
                        continue
                    reason = "raised %r" % (exc,)
            elif expect_raise:
                reason = "a run failed and errors are not ignored, but the call returned normally"
            else:
                if api == "get_df":
                    ok = exp is not None and len(got) == len(exp) and all(
                        list(got[c]) == list(exp[c]) for c in exp.dtype.names)
                else:
                    ok = exp is not None and got is not None and same_array(got, exp)
                if not ok:
                    reason = "result differs from the sequential single-run calls concatenated in run-id order"
            if reason is None:
                dist["warm_single_ok" if mode == 0 else "cold_or_multi_ok"] += 1
            elif mode == 0 or not isinstance(exc, (RuntimeError, KeyError)):
                # deterministic expectation (warm single target, or wrong data / lost run): alarm with the input
                ctx.violation("multi_run_context", "Context.%s over %d runs with %d workers (%s): %s"
                              % (api, nruns, w, case["mode"], reason), {"input": case, "reason": reason})
            else:
                dist["known_race_crash"] += 1
    finally:
        sys.setswitchinterval(old)
    ctx.count("context_multi_run/os_schedule", n, 0, dist)


def run(ctx):
    S = CtxState()
    ctx.coverage["rule"] += (
        " | ctx_race: scenarios = plugin graphs (flat/two/chain/three) x single or several same-kind targets x storage "
        "none/meta/dir x cold/warm plugin cache; per scenario the crash classes found by the extracted model "
        "(2 threads, <=3 context switches, exhaustive in the thorough tier) and random schedules (2-3 threads, 1-2 "
        "calls each) are replayed on the real code with the line-level interleaver; non-trivial = an interleaved "
        "execution with at least one context switch inside the plugin-resolution code; distinct by canonical JSON "
        "of (scenario, cache, calls per thread, schedule).")
    try:
        unit_sequential(ctx, S)
        unit_witnesses(ctx, S)
        unit_interleave(ctx, S)
        unit_os_schedule(ctx, S)
    finally:
        cleanup_tmp()
    S.dist["instances_of_known_temp_plugin_race"] = S.instances["temp_plugin"]
    S.dist["instances_of_known_cache_fill_race"] = S.instances["cache_fill"]
    ctx.count("ctx_race", 0, len(S.nontriv), S.dist)
    ctx.assumptions.append("CPython switches threads between bytecodes; the model and the interleaver switch only "
                           "between labelled source lines (coarser: every replayed interleaving is a real one)")
    ctx.assumptions.append("dict iterators fail exactly when the dict size changed since the iterator was created "
                           "(CPython dictiter); same-size structural changes are flagged as hazards and not compared")
    ctx.assumptions.append("the context hash is constant during a multi-run call (config and non-temporary registry "
                           "entries unchanged)")
    ctx.assumptions.append("PYTHONHASHSEED=0 (set by bin/check): list(set(targets)) order is part of the witness configs")


def replay(ctx, obj):
    r = obj["replay"]
    inp = r.get("case") or r.get("input")
    if isinstance(inp, dict) and "segs" in inp:
        sc = dict(inp["scenario"])
        sc["targets"] = tuple(sc["targets"])
        warm = inp["cache"] == "warm"
        segs = [tuple(x) for x in inp["segs"]]
        rres, _ = run_real(sc, warm, inp["threads_ncalls"], segs)
        bad = 0
        for tid, x in enumerate(rres):
            print("worker", tid, x["status"], x["msg"], "rows equal sequential:", x["data_ok"], "steps:", len(x["trace"]))
            if x["status"][0] != "D" or x["data_ok"] is False:
                bad = 1
        cleanup_tmp()
        return bad
    print("nothing to replay for", inp)
    return 0


if __name__ == "__main__":
    if sys.argv[1:] == ["gen-witness"]:
        print(gen_witness_file())
