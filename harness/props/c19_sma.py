"""C19 unit: symmetric_moving_average vs Model/PeakHelpers.v::sma and the windowed-mean definition."""
import itertools

import numpy as np
from strax.processing import peak_splitting as ps

from harness import lib
from harness.props.c19_common import Unit, big, crosscheck, f32_quot, zl

NAME = "symmetric_moving_average"
RULE = ("symmetric_moving_average: all waveforms of 1..4 samples over {0..3}, 5 over {0..2} and 6 over {0,1} (thorough: 1..8 over {0..3}) with every wing width "
        "0..n+2, float32 and float64 alternating, plus seeded random waveforms (<=40 samples, values up to 1000); "
        "non-trivial = wing >= 1, at least wing+2 samples (a sample leaves the window) and a non-constant waveform; "
        "distinct by (waveform, wing).")


def spec(a, w):
    """Defining formula: exact windowed mean (sum, count) around every sample."""
    n = len(a)
    out = []
    for i in range(n):
        lo, hi = max(0, i - w), min(n, i + w + 1)
        out.append((sum(a[lo:hi]), hi - lo))
    return out


def impl(a, w, dtype):
    return ps.symmetric_moving_average(np.array(a, dtype=dtype), w)


def floats(pairs, dtype):
    if dtype == np.float32:
        return [float(f32_quot(s, c)) for s, c in pairs]
    return [float(np.float64(s) / np.float64(c)) for s, c in pairs]


def predicate(a, w, dtype, out):
    """None if the implementation's output is the (correctly rounded) windowed mean."""
    exp = floats(spec(a, w), dtype)
    got = [float(x) for x in out]
    if len(got) != len(exp):
        return "output length %d for %d samples" % (len(got), len(a))
    for i, (g, e) in enumerate(zip(got, exp)):
        if g != e:
            return "out[%d] = %r but the mean over the window around sample %d is %r" % (i, g, i, e)
    return None


WITNESS = {"a": [1, 1], "w": 3, "dtype": "float32"}


def unit(ctx):
    u = Unit(ctx, NAME)
    nmax = 8 if big(ctx) else 6
    cases = []
    for n in range(1, nmax + 1):
        for a in itertools.product(range(4 if (n <= 4 or big(ctx)) else (3 if n == 5 else 2)), repeat=n):
            for w in range(0, n + 3):
                cases.append((list(a), w))
    for _ in range(20000 if ctx.thorough else 2000):
        n = ctx.rng.randint(1, 40)
        a = [ctx.rng.choice([0, 0, 1, 2, 3, 7, 100, 1000]) for _ in range(n)]
        cases.append((a, ctx.rng.randint(0, n + 2)))
    lines = ["sma %d %d %s" % (w, len(a), " ".join(map(str, a))) for a, w in cases]
    mout = lib.run_model_parallel("C19", lines)
    for idx, ((a, w), mo) in enumerate(zip(cases, mout)):
        dtype = np.float32 if idx % 2 == 0 else np.float64
        dn = "float32" if dtype == np.float32 else "float64"
        out = impl(a, w, dtype)
        mints = list(map(int, mo.split()))
        mpairs = list(zip(mints[0::2], mints[1::2]))
        mexp = floats(mpairs, dtype)
        got = [float(x) for x in out]
        u.n += 1
        u.tally("wing>n" if w > len(a) else ("wing=0" if w == 0 else "0<wing<=n"))
        if w >= 1 and len(a) >= w + 2 and len(set(a)) > 1:
            u.nontriv.add((tuple(a), w))
        inp = {"a": a, "w": w, "dtype": dn}
        if got != mexp:
            u.report(inp, str(got), str(mexp), predicate(a, w, dtype, out))
            if u.bad > 5:
                break
        else:
            reason = predicate(a, w, dtype, out)
            if reason:
                u.report(inp, str(got), str(mexp), "implementation AND model violate the defining formula: " + reason)
    # the wide-wing witness of the pinned defect (fixed by /repo 19272a6; C19_moving_average_is_definition_pinned_refuted)
    wa, ww = WITNESS["a"], WITNESS["w"]
    reason = predicate(wa, ww, np.float32, impl(wa, ww, np.float32))
    if reason:
        ctx.violation(u.name, "wing_width > len(a): " + reason, {"input": WITNESS})
    u.done()
    k = len(cases) // 3
    ctx.sample({"unit": u.name, "a": cases[k][0], "w": cases[k][1], "model_sum_count_pairs": mout[k]})
    idxs = sorted(ctx.rng.sample(range(len(cases)), 120))
    eqs = []
    for i in idxs:
        a, w = cases[i]
        mints = list(map(int, mout[i].split()))
        eqs.append("sma %s (%d) = [%s]" % (zl(a), w, "; ".join("((%d), (%d))" % p for p in zip(mints[0::2], mints[1::2]))))
    crosscheck(ctx, u.name, eqs, "From SV Require Import Model.PeakHelpers.")


def replay(inp):
    dtype = np.float32 if inp.get("dtype", "float32") == "float32" else np.float64
    out = impl(inp["a"], inp["w"], dtype)
    reason = predicate(inp["a"], inp["w"], dtype, out)
    print("impl:", [float(x) for x in out], "spec:", reason or "holds")
    return 1 if reason else 0
