"""C19 unit: highest_density_region vs Model/HDR.v, and the defining formulas of Spec/HDRSpec.v (the spec side of
C19_hdr_upper_is_definition, C19_hdr_is_definition, C19_hdr_fractions_independent,
C19_hdr_intervals_fit_buffer) evaluated independently in Python on the implementation's output.

A case: (data, fractions, only_upper_part, buffer_size).
"""
import itertools
from fractions import Fraction

import numpy as np
import strax

from harness import lib
from harness.props.c19_common import Unit, big

NAME = "highest_density_region"
RULE = ("highest_density_region: all distributions of 1..4 samples over {0..3} and 5 samples over {0,1,3} (thorough: "
        "1..6 over {0..3}) with positive total, four ascending dyadic fraction lists, both only_upper_part settings, "
        "buffer sizes 10 and 2, plus seeded random distributions of 6..14 samples over {0..6} with plateaus and ties "
        "and random ascending dyadic fraction lists; intervals compared exactly, amplitudes within 2^-22 relative "
        "(+2^-40 absolute) of the exact rational; predicate = the defining formulas (height with area above = "
        "fraction x total and the runs of the samples above it; smallest upper level set holding the fraction), "
        "evaluated on every case; cases with exactly buffer_size+1 intervals (the -1 marker since /repo 1da565c) are "
        "included; non-trivial = >= 2 intervals for some fraction or a fraction satisfied before the last level; "
        "distinct by (data, fractions, upper, buffer).")
FRACTION_SETS = [
    [Fraction(1, 2)],
    [Fraction(1, 4), Fraction(1, 2), Fraction(3, 4)],
    [Fraction(1, 8), Fraction(7, 8)],
    [Fraction(1, 2), Fraction(1, 2), Fraction(15, 16)],
]
# three intervals with _buffer_size = 2: the pinned code wrote beyond res[fi, :, :2] (fixed by /repo 1da565c)
OOB_WITNESS = {"data": [1, 0, 1, 0, 1], "fractions": [[9, 10]], "upper": 0, "bs": 2}
# tied largest sample, one of the tied samples alone holds the fraction, only_upper_part=False: the pinned code
# returned the single sample 2 although sample 0 is as high (fixed by /repo 2181c25; C19_hdr_is_definition_pinned_refuted)
TIE_WITNESS = {"data": [3, 1, 3, 0], "fractions": [[1, 4]], "upper": 0, "bs": 10}


def impl(data, fs, upper, bs):
    try:
        res, amp = strax.highest_density_region(np.array(data, dtype=np.float64),
                                                np.array([float(f) for f in fs]), only_upper_part=bool(upper),
                                                _buffer_size=bs)
    except ValueError:
        return "err 1"
    out = []
    for k in range(len(fs)):
        starts, ends = [int(x) for x in res[k, 0]], [int(x) for x in res[k, 1]]
        if all(s == -1 for s in starts) and all(e == -1 for e in ends):
            iv = None
        else:
            iv = [(s, e) for s, e in zip(starts, ends) if (s, e) != (0, 0)]
        out.append((iv, Fraction(float(amp[k]))))
    return out


def parse(mo):
    if mo.startswith("err"):
        return mo
    out = []
    for part in mo.split(" | ")[1:]:
        v = list(map(int, part.split()))
        if v[0] == -1:
            out.append((None, Fraction(v[1], v[2])))
        else:
            k = v[0]
            iv = [(v[1 + 2 * i], v[2 + 2 * i]) for i in range(k)]
            out.append((iv, Fraction(v[1 + 2 * k], v[2 + 2 * k])))
    return out


def close(v, q):
    return abs(v - q) <= abs(q) * Fraction(1, 2 ** 22) + Fraction(1, 2 ** 40)


def agree(out, mexp):
    if isinstance(out, str) or isinstance(mexp, str):
        return out == mexp
    return len(out) == len(mexp) and all(a[0] == b[0] and close(a[1], b[1]) for a, b in zip(out, mexp))


def runs_of(idx):
    """maximal runs [s, e) of a set of indices"""
    out = []
    for i in sorted(idx):
        if out and out[-1][1] == i:
            out[-1] = (out[-1][0], i + 1)
        else:
            out.append((i, i + 1))
    return out


def area_above(data, h):
    return sum(max(Fraction(d) - h, 0) for d in data)


def height_of_fraction(data, f):
    """the height h with sum(max(d - h, 0)) == f * sum(data) (unique for 0 < f <= 1, data >= 0, positive total)"""
    target = f * sum(data)
    for lev in sorted(set(data), reverse=True):
        a = area_above(data, lev)
        if a >= target:
            return lev + (a - target) / sum(1 for d in data if d > lev)
    lev = min(data)
    return lev - (target - area_above(data, lev)) / len(data)


def top_tie(data, f):
    """the largest sample is tied and one of the tied samples alone holds the fraction (the case the pinned code got
    wrong)"""
    m = max(data)
    return data.count(m) > 1 and m >= f * sum(data)


def expected(data, f, upper):
    """(intervals, amplitude) by the defining formulas of Spec/HDRSpec.v (hdr_upper_result / hdr_level_result)"""
    tot = sum(data)
    if upper:
        h = height_of_fraction(data, f)
        assert area_above(data, h) == f * tot and h >= 0
        return runs_of(i for i, d in enumerate(data) if d > h), h
    lev = max(L for L in set(data) if sum(d for d in data if d >= L) >= f * tot)
    inside = [i for i, d in enumerate(data) if d >= lev]
    return runs_of(inside), (sum(data[i] for i in inside) - f * tot) / len(inside)


def predicate(data, fs, upper, bs, out):
    """spec side of C19_hdr_upper_is_definition / C19_hdr_is_definition / C19_hdr_intervals_fit_buffer, for
    every fraction independently (C19_hdr_fractions_independent): only_upper_part: the amplitude is the height above
    which the distribution holds exactly the fraction and the intervals are the maximal runs of the samples above
    it; otherwise the maximal runs of the smallest upper level set holding the fraction, amplitude = surplus area /
    number of samples; the -1 marker exactly when there are more intervals than max(1, buffer) slots."""
    if not isinstance(out, list):
        return None if sum(data) <= 0 else "raised on a distribution with positive total"
    if sum(data) <= 0:
        return "no ValueError for a total of %s" % sum(data)
    if min(data) < 0 or any(not (0 < f <= 1) for f in fs) or list(fs) != sorted(fs):
        return None
    for f, (iv, amp) in zip(fs, out):
        eiv, eamp = expected(data, f, upper)
        if iv is None:
            if len(eiv) <= max(1, bs):
                return "fraction %s: overflow marker although the %d intervals %s fit %d slots" % (f, len(eiv), eiv, bs)
        elif iv != eiv:
            return "fraction %s: intervals %s, by definition %s (%s)" % (
                f, iv, eiv, "samples above the height %s" % eamp if upper else "smallest upper level set holding it")
        elif len(eiv) > max(1, bs):
            return "fraction %s: %d intervals returned for a buffer of %d" % (f, len(eiv), bs)
        if not close(amp, eamp):
            return "fraction %s: amplitude %s, by definition %s" % (f, float(amp), eamp)
    return None


def random_case(rng):
    n = rng.randint(6, 14)
    kind = rng.random()
    if kind < 0.4:          # plateaus: runs of equal samples (ties at every level)
        data = []
        while len(data) < n:
            data += [rng.randint(0, 6)] * rng.randint(1, 4)
        data = data[:n]
    elif kind < 0.7:        # two bumps
        c1, c2 = rng.randrange(n), rng.randrange(n)
        data = [max(0, 5 - abs(i - c1)) + max(0, 4 - 2 * abs(i - c2)) for i in range(n)]
    else:
        data = [rng.randint(0, 6) for _ in range(n)]
    if sum(data) <= 0:
        data[rng.randrange(n)] = 3
    k = rng.randint(1, 4)
    fs = sorted(Fraction(rng.randint(1, 32), 32) for _ in range(k))
    return data, fs, rng.randint(0, 1), rng.choice([10, 10, 3, 2, 1])


def unit(ctx):
    u = Unit(ctx, NAME)
    cases = []
    nmax = 6 if big(ctx) else 5
    for n in range(1, nmax + 1):
        for data in itertools.product(range(4) if (n <= 4 or big(ctx)) else (0, 1, 3), repeat=n):
            if sum(data) <= 0 and n > 2:
                continue
            for fi, fs in enumerate(FRACTION_SETS):
                for upper in (0, 1):
                    cases.append((list(data), fs, upper, 10 if (fi + upper) % 2 == 0 else 2))
    for _ in range(20000 if big(ctx) else 1500):
        cases.append(random_case(ctx.rng))
    lines = ["hdr %d %d %d %s %d %s" % (upper, bs, len(d), " ".join(map(str, d)), len(fs),
                                        " ".join("%d %d" % (f.numerator, f.denominator) for f in fs))
             for d, fs, upper, bs in cases]
    mout = lib.run_model_parallel("C19", lines)
    for (data, fs, upper, bs), mo in zip(cases, mout):
        mexp = parse(mo)
        u.n += 1
        out = impl(data, fs, upper, bs)
        u.tally("err" if isinstance(out, str) else ("overflow(-1)" if any(iv is None for iv, _ in out) else "ok"))
        if isinstance(out, list) and sum(data) > 0:
            u.tally("only_upper_part" if upper else
                    ("level_set, tied maximum holds a fraction" if any(top_tie(data, f) for f in fs)
                     else "level_set"))
        if isinstance(out, list) and any(iv is not None and len(iv) >= 2 for iv, _ in out):
            u.nontriv.add((tuple(data), tuple(fs), upper, bs))
        inp = {"data": data, "fractions": [[f.numerator, f.denominator] for f in fs], "upper": upper, "bs": bs}
        if not agree(out, mexp):
            u.report(inp, str(out)[:500], str(mexp)[:500], predicate(data, fs, upper, bs, out))
            if u.bad > 5:
                break
        else:
            reason = predicate(data, fs, upper, bs, out)
            if reason:
                u.report(inp, str(out)[:500], str(mexp)[:500], "implementation AND model: " + reason)
                if u.bad > 5:
                    break
    for w, what in ((OOB_WITNESS, "buffer_size+1 intervals"),
                    (TIE_WITNESS, "tied largest sample (the pinned code cut the tie)")):
        wfs = [Fraction(a, b) for a, b in w["fractions"]]
        out = impl(w["data"], wfs, w["upper"], w["bs"])
        reason = predicate(w["data"], wfs, w["upper"], w["bs"], out)
        if reason:
            ctx.violation(u.name, "%s: %s (returned %s)" % (what, reason, out), {"input": w})
    u.done()
    k = len(cases) // 2
    ctx.sample({"unit": u.name, "data": cases[k][0], "fractions": [str(f) for f in cases[k][1]],
                "only_upper_part": cases[k][2], "buffer": cases[k][3], "model": mout[k]})


def replay(inp):
    fs = [Fraction(a, b) for a, b in inp["fractions"]]
    out = impl(inp["data"], fs, inp["upper"], inp["bs"])
    reason = predicate(inp["data"], fs, inp["upper"], inp["bs"], out)
    print("impl:", out, "spec:", reason or "holds")
    return 1 if reason else 0
