"""C19 unit: highest_density_region vs Model/HDR.v (correspondence only: no theorem about this model) and the
level-set predicate on the implementation's output.

A case: (data, fractions, only_upper_part, buffer_size).
"""
import itertools
from fractions import Fraction

import numpy as np
import strax

from harness import lib
from harness.props.c19_common import Unit, big

NAME = "highest_density_region"
RULE = ("highest_density_region: all distributions of 1..4 samples over {0..3} and 5 samples over {0,1,3} (thorough: 1..6 over {0..3}) with positive total, four "
        "ascending dyadic fraction lists, both only_upper_part settings, buffer sizes 10 and 2; intervals compared "
        "exactly, amplitudes within 2^-22 relative (+2^-40 absolute) of the model's exact rational; cases with exactly "
        "buffer_size+1 intervals (the -1 marker since /repo 1da565c) are included; non-trivial = >= 2 intervals for "
        "some fraction or a fraction satisfied before the last level; distinct by (data, fractions, upper, buffer).")
FRACTION_SETS = [
    [Fraction(1, 2)],
    [Fraction(1, 4), Fraction(1, 2), Fraction(3, 4)],
    [Fraction(1, 8), Fraction(7, 8)],
    [Fraction(1, 2), Fraction(1, 2), Fraction(15, 16)],
]
# three intervals with _buffer_size = 2: the pinned code wrote beyond res[fi, :, :2] (fixed by /repo 1da565c)
OOB_WITNESS = {"data": [1, 0, 1, 0, 1], "fractions": [[9, 10]], "upper": 0, "bs": 2}


def impl(data, fs, upper, bs):
    try:
        res, amp = strax.highest_density_region(np.array(data, dtype=np.float64),
                                                np.array([float(f) for f in fs]), only_upper_part=bool(upper),
                                                _buffer_size=bs)
    except ValueError:
        return "err 1"
    out = []
    for k in range(len(fs)):
        starts, ends = [int(x) for x in res[k, 0]], [int(x) for x in res[k, 1]]
        if all(s == -1 for s in starts) and all(e == -1 for e in ends):
            iv = None
        else:
            iv = [(s, e) for s, e in zip(starts, ends) if (s, e) != (0, 0)]
        out.append((iv, Fraction(float(amp[k]))))
    return out


def parse(mo):
    if mo.startswith("err"):
        return mo
    out = []
    for part in mo.split(" | ")[1:]:
        v = list(map(int, part.split()))
        if v[0] == -1:
            out.append((None, Fraction(v[1], v[2])))
        else:
            k = v[0]
            iv = [(v[1 + 2 * i], v[2 + 2 * i]) for i in range(k)]
            out.append((iv, Fraction(v[1 + 2 * k], v[2 + 2 * k])))
    return out


def close(v, q):
    return abs(v - q) <= abs(q) * Fraction(1, 2 ** 22) + Fraction(1, 2 ** 40)


def agree(out, mexp):
    if isinstance(out, str) or isinstance(mexp, str):
        return out == mexp
    return len(out) == len(mexp) and all(a[0] == b[0] and close(a[1], b[1]) for a, b in zip(out, mexp))


def predicate(data, fs, upper, bs, out):
    """intervals are sorted, disjoint, inside the array; the covered samples form an upper level set; without
    only_upper_part they hold at least the desired fraction of the total."""
    if not isinstance(out, list):
        return None if sum(data) <= 0 else "raised on a distribution with positive total"
    n, tot = len(data), sum(data)
    for f, (iv, amp) in zip(fs, out):
        if iv is None:
            continue
        if not iv:
            return "fraction %s: no interval" % f
        pos = 0
        for s, e in iv:
            if not (pos <= s < e <= n):
                return "fraction %s: intervals %s not sorted/disjoint/inside [0,%d]" % (f, iv, n)
            pos = e + 1 if e < n else e
        cov = set(i for s, e in iv for i in range(s, e))
        inside = [data[i] for i in cov]
        outside = [data[i] for i in range(n) if i not in cov]
        if outside and min(inside) < max(outside):
            return "fraction %s: covered samples %s are not an upper level set of %s" % (f, sorted(cov), data)
        if not upper and Fraction(sum(inside), tot) < f:
            return "fraction %s: intervals %s hold only %s of the total" % (f, iv, Fraction(sum(inside), tot))
    return None


def n_runs(data, fs, upper, mexp):
    return max([len(iv) for iv, _ in mexp if iv is not None] + [0]) if isinstance(mexp, list) else 0


def unit(ctx):
    u = Unit(ctx, NAME)
    cases = []
    nmax = 6 if big(ctx) else 5
    for n in range(1, nmax + 1):
        for data in itertools.product(range(4) if (n <= 4 or big(ctx)) else (0, 1, 3), repeat=n):
            if sum(data) <= 0 and n > 2:
                continue
            for fi, fs in enumerate(FRACTION_SETS):
                for upper in (0, 1):
                    cases.append((list(data), fs, upper, 10 if (fi + upper) % 2 == 0 else 2))
    lines = ["hdr %d %d %d %s %d %s" % (upper, bs, len(d), " ".join(map(str, d)), len(fs),
                                        " ".join("%d %d" % (f.numerator, f.denominator) for f in fs))
             for d, fs, upper, bs in cases]
    mout = lib.run_model_parallel("C19", lines)
    for (data, fs, upper, bs), mo in zip(cases, mout):
        mexp = parse(mo)
        u.n += 1
        out = impl(data, fs, upper, bs)
        u.tally("err" if isinstance(out, str) else ("overflow(-1)" if any(iv is None for iv, _ in out) else "ok"))
        if isinstance(out, list) and any(iv is not None and len(iv) >= 2 for iv, _ in out):
            u.nontriv.add((tuple(data), tuple(fs), upper, bs))
        inp = {"data": data, "fractions": [[f.numerator, f.denominator] for f in fs], "upper": upper, "bs": bs}
        if not agree(out, mexp):
            u.report(inp, str(out)[:500], str(mexp)[:500], predicate(data, fs, upper, bs, out))
            if u.bad > 5:
                break
        else:
            reason = predicate(data, fs, upper, bs, out)
            if reason:
                u.report(inp, str(out)[:500], str(mexp)[:500], "implementation AND model: " + reason)
    w = OOB_WITNESS
    wfs = [Fraction(a, b) for a, b in w["fractions"]]
    out = impl(w["data"], wfs, w["upper"], w["bs"])
    reason = predicate(w["data"], wfs, w["upper"], w["bs"], out)
    if reason:
        ctx.violation(u.name, "buffer_size+1 intervals: " + reason + " (returned %s)" % (out,), {"input": w})
    u.done()
    k = len(cases) // 2
    ctx.sample({"unit": u.name, "data": cases[k][0], "fractions": [str(f) for f in cases[k][1]],
                "only_upper_part": cases[k][2], "buffer": cases[k][3], "model": mout[k]})


def replay(inp):
    fs = [Fraction(a, b) for a, b in inp["fractions"]]
    out = impl(inp["data"], fs, inp["upper"], inp["bs"])
    reason = predicate(inp["data"], fs, inp["upper"], inp["bs"], out)
    print("impl:", out, "spec:", reason or "holds")
    return 1 if reason else 0
