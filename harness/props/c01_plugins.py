"""C01 harness plugin library.

A *graph* is a JSON-serialisable dict
    {"T": <run end>, "nodes": [node, ...]}          (nodes in topological order)
with node = {"name", "kind", "deps", ...kind parameters...}.  For every node this module gives

  * a real strax plugin class (make_classes) whose compute works on whatever chunk strax hands it,
  * the node's computation in *whole-run* form (eval_whole): every plugin's computation applied
    once to the whole, unchunked run -- the oracle of property C01.

Kinds: source, rowwise (1..k same-kind dependencies = same-kind merge consumer), filter, cut
(strax.CutPlugin), mergeonly (strax.MergeOnlyPlugin), multi (multi-output: one row-wise output and
one filtered output), loop (strax.LoopPlugin over two kinds), overlap (strax.OverlapWindowPlugin),
downchunk (strax.DownChunkingPlugin), exhaust (strax.ExhaustPlugin).

All values are int64 modulo M, so results are exactly comparable.
"""
import numpy as np
import strax
from immutabledict import immutabledict

M = 1000003

# (gid, source name, chunking id) -> list of (start, end, i0, i1)
CHUNKINGS = {}
# (gid, source name) -> structured array with all rows of the source
SOURCE_DATA = {}
# observation hook: list that receives (node name, start, end, {kind: n rows}) per do_compute call
CALLS = None

SAVE_WHEN = {"ALWAYS": strax.SaveWhen.ALWAYS, "TARGET": strax.SaveWhen.TARGET,
             "NEVER": strax.SaveWhen.NEVER, "EXPLICIT": strax.SaveWhen.EXPLICIT}


def slot_of(graph, d):
    """Value column of data type d.  Only three column names (va, vb, vc) and two cut names exist, so that
    the numba kernels strax specialises per dtype are compiled for a handful of dtypes only."""
    n = node_of(graph)[d]
    if n["kind"] == "multi":
        return n["slots"][0 if d.endswith("_p") else 1]
    return n["slot"]


def vf(graph, d):
    return "v" + slot_of(graph, d)


def cutf(node):
    return "cut_" + node["cslot"]


def base_fields():
    return [(("Start time", "time"), np.int64), (("End time", "endtime"), np.int64),
            (("Row identity", "id"), np.int64)]


def outputs_of(node):
    """data types a node provides, in order"""
    if node["kind"] == "multi":
        return [node["name"] + "_p", node["name"] + "_q"]
    return [node["name"]]


def node_of(graph):
    """data type -> node"""
    out = {}
    for n in graph["nodes"]:
        for d in outputs_of(n):
            out[d] = n
    return out


def kind_of(graph):
    """data type -> data_kind string (same kind <=> same row set)"""
    nodes = node_of(graph)
    out = {}
    for n in graph["nodes"]:
        k = n["kind"]
        if k in ("source", "filter"):
            out[n["name"]] = "k_" + n["name"]
        elif k == "multi":
            out[n["name"] + "_p"] = out[n["deps"][0]]
            out[n["name"] + "_q"] = "k_" + n["name"] + "_q"
        else:  # rowwise, cut, mergeonly, loop (base = first dep), overlap, downchunk, exhaust
            out[n["name"]] = out[n["deps"][0]]
    return out


def dtype_of(graph, d):
    """numpy dtype (list form) of data type d"""
    n = node_of(graph)[d]
    k = n["kind"]
    if k == "cut":
        return strax.time_fields + [(cutf(n), bool, "cut " + n["cslot"])]
    if k == "mergeonly":
        return strax.merged_dtype([np_dtype(graph, x) for x in sorted(n["deps"])])
    return base_fields() + [(("value " + slot_of(graph, d), vf(graph, d)), np.int64)]


def np_dtype(graph, d):
    return strax.to_numpy_dtype(dtype_of(graph, d))


# ------------------------------------------------------------------------------------------------
# the computations, written once; used by the plugins on chunks and by eval_whole on the whole run
# ------------------------------------------------------------------------------------------------

def value_fields(graph, d):
    """value columns a consumer of data type d sees"""
    n = node_of(graph)[d]
    if n["kind"] == "cut":
        return []
    if n["kind"] == "mergeonly":
        out = []
        for x in n["deps"]:
            out += [f for f in value_fields(graph, x) if f not in out]
        return out
    return [vf(graph, d)]


def input_value_fields(graph, node):
    out = []
    for d in node["deps"]:
        out += [f for f in value_fields(graph, d) if f not in out]
    return out


def combine(node, x, graph):
    """sum_i a_i * v_i + b  (mod M) over the value columns of the same-kind dependencies"""
    acc = np.zeros(len(x), np.int64)
    coefs = node.get("coefs") or [1]
    for i, f in enumerate(input_value_fields(graph, node)):
        acc = (acc + coefs[i % len(coefs)] * x[f]) % M
    return (acc + node.get("b", 0)) % M


def cuts_mask(x):
    m = np.ones(len(x), bool)
    for f in x.dtype.names:
        if f.startswith("cut_"):
            m &= x[f]
    return m


def mk_out(graph, d, x, v):
    r = np.zeros(len(x), np_dtype(graph, d))
    r["time"] = x["time"]
    r["endtime"] = strax.endtime(x)
    r["id"] = x["id"]
    r[vf(graph, d)] = v
    return r


def f_rowwise(graph, node, x, d=None):
    return mk_out(graph, d or node["name"], x, combine(node, x, graph))


def f_filter(graph, node, x, d=None):
    v = combine(node, x, graph)
    mask = (v % node["mod"]) == node["rem"]
    if node.get("use_cuts", True):
        mask &= cuts_mask(x)
    return mk_out(graph, d or node["name"], x[mask], v[mask])


def f_cut(graph, node, x):
    d = node["name"]
    r = np.zeros(len(x), np_dtype(graph, d))
    r["time"] = x["time"]
    r["endtime"] = strax.endtime(x)
    r[cutf(node)] = (combine(node, x, graph) % node["mod"]) != node["rem"]
    return r


def f_exhaust(graph, node, x):
    v = combine(node, x, graph)
    n = len(x)
    v = (v + n * node.get("nmul", 1) + np.arange(n, dtype=np.int64)) % M
    return mk_out(graph, node["name"], x, v)


def f_overlap(graph, node, x):
    """value + sum of the values of the rows within the window (wl to the left, wr to the right)"""
    wl, wr = node["window"]
    t = x["time"]
    e = strax.endtime(x)
    v0 = combine(node, x, graph)
    v = np.zeros(len(x), np.int64)
    for i in range(len(x)):
        m = (e > t[i] - wl) & (t < e[i] + wr)
        v[i] = (v0[m].sum() + 7 * m.sum()) % M
    return mk_out(graph, node["name"], x, v)


def contained_whole(base, things):
    """Quadratic definition of strax.split_by_containment for sorted things and disjoint sorted
    containers: a thing belongs to the first container whose (exclusive) end lies beyond the thing's
    start, provided that container holds it entirely."""
    bt, be = base["time"], strax.endtime(base)
    tt, te = things["time"], strax.endtime(things)
    which = np.full(len(things), -1, int)
    for a in range(len(things)):
        for j in range(len(base)):
            if be[j] > tt[a]:
                if bt[j] <= tt[a] and te[a] <= be[j]:
                    which[a] = j
                break
    return which


def f_loop_whole(graph, node, base, things):
    bdep, tdep = node["deps"]
    which = contained_whole(base, things)
    v = np.zeros(len(base), np.int64)
    for j in range(len(base)):
        sel = things[which == j]
        v[j] = (node.get("a", 1) * base[vf(graph, bdep)][j] + sel[vf(graph, tdep)].sum() + node.get("b", 0) * len(sel)) % M
    return mk_out(graph, node["name"], base, v)


def downchunk_cuts(out, k):
    """row indices i at which a new sub-chunk starts: at least k rows since the last cut, no earlier
    row reaches beyond out[i].time, and the previous row starts strictly earlier (so that no
    zero-length row sits on the exclusive end of the sub-chunk)"""
    cuts = []
    offset = 0
    t = out["time"]
    e = strax.endtime(out)
    mx = -1
    for i in range(len(out)):
        if i - offset >= k and mx <= t[i] and t[i - 1] < t[i]:
            cuts.append(i)
            offset = i
        mx = max(mx, e[i])
    return cuts


# ------------------------------------------------------------------------------------------------
# whole-run oracle
# ------------------------------------------------------------------------------------------------

def merge_whole(graph, deps, arrs):
    """column merge of same-kind inputs exactly as Chunk.merge defines it: field order from the
    dependencies sorted by name, on a name collision the last dependency (depends_on order) wins"""
    if len(deps) == 1:
        return arrs[deps[0]]
    n = len(arrs[deps[0]])
    assert all(len(arrs[d]) == n for d in deps), "same-kind inputs of different length"
    dt = strax.merged_dtype([np_dtype(graph, d) for d in sorted(deps)])
    r = np.zeros(n, dt)
    for d in deps:
        for fn in arrs[d].dtype.names:
            r[fn] = arrs[d][fn]
    return r


def eval_whole(graph, gid, upto=None):
    """data type -> array for the whole run (each plugin's computation applied once)"""
    res = {}
    kinds = kind_of(graph)
    for n in graph["nodes"]:
        k = n["kind"]
        if k == "source":
            res[n["name"]] = SOURCE_DATA[(gid, n["name"])].copy()
            continue
        if k == "loop":
            res[n["name"]] = f_loop_whole(graph, n, res[n["deps"][0]], res[n["deps"][1]])
            continue
        x = merge_whole(graph, n["deps"], res)
        if k in ("rowwise", "downchunk"):
            res[n["name"]] = f_rowwise(graph, n, x)
        elif k == "filter":
            res[n["name"]] = f_filter(graph, n, x)
        elif k == "cut":
            res[n["name"]] = f_cut(graph, n, x)
        elif k == "mergeonly":
            res[n["name"]] = x
        elif k == "multi":
            res[n["name"] + "_p"] = f_rowwise(graph, n, x, n["name"] + "_p")
            res[n["name"] + "_q"] = f_filter(graph, n, x, n["name"] + "_q")
        elif k == "exhaust":
            res[n["name"]] = f_exhaust(graph, n, x)
        elif k == "overlap":
            res[n["name"]] = f_overlap(graph, n, x)
        else:
            raise ValueError(k)
    return res


# ------------------------------------------------------------------------------------------------
# real strax plugins
# ------------------------------------------------------------------------------------------------

class _Rec:
    """records the interval and the row counts strax hands to every do_compute call"""

    def do_compute(self, chunk_i=None, **kwargs):
        if CALLS is not None and kwargs:
            CALLS.append((self.c01_node["name"], [(k, int(c.start), int(c.end), len(c)) for k, c in kwargs.items()]))
        return super().do_compute(chunk_i=chunk_i, **kwargs)


def _single(kw):
    assert len(kw) == 1, "expected inputs of one data kind, got %s" % list(kw)
    return list(kw.values())[0]


class _Source(strax.Plugin):
    depends_on = ()

    def _chunks(self):
        return CHUNKINGS[(self.c01_gid, self.c01_node["name"], self.config["c01_chunking"])]

    def is_ready(self, chunk_i):
        return chunk_i < len(self._chunks())

    def source_finished(self):
        return True

    def compute(self, chunk_i):
        s, e, i0, i1 = self._chunks()[chunk_i]
        data = SOURCE_DATA[(self.c01_gid, self.c01_node["name"])][i0:i1].copy()
        return self.chunk(start=s, end=e, data=data)


class _Rowwise(_Rec, strax.Plugin):
    def compute(self, **kw):
        return f_rowwise(self.c01_graph, self.c01_node, _single(kw))


class _Filter(_Rec, strax.Plugin):
    def compute(self, **kw):
        return f_filter(self.c01_graph, self.c01_node, _single(kw))


class _Cut(_Rec, strax.CutPlugin):
    def cut_by(self, **kw):
        x = _single(kw)
        return f_cut(self.c01_graph, self.c01_node, x)[cutf(self.c01_node)]


class _MergeOnly(_Rec, strax.MergeOnlyPlugin):
    pass


class _Multi(_Rec, strax.Plugin):
    def compute(self, **kw):
        x = _single(kw)
        n = self.c01_node
        return {n["name"] + "_p": f_rowwise(self.c01_graph, n, x, n["name"] + "_p"),
                n["name"] + "_q": f_filter(self.c01_graph, n, x, n["name"] + "_q")}


class _Exhaust(_Rec, strax.ExhaustPlugin):
    def compute(self, **kw):
        return f_exhaust(self.c01_graph, self.c01_node, _single(kw))


class _Overlap(_Rec, strax.OverlapWindowPlugin):
    def get_window_size(self):
        w = self.c01_node["window"]
        return (w[0], w[1]) if w[0] != w[1] else w[0]

    def compute(self, **kw):
        return f_overlap(self.c01_graph, self.c01_node, _single(kw))


class _DownChunk(_Rec, strax.DownChunkingPlugin):
    def compute(self, start, end, **kw):
        out = f_rowwise(self.c01_graph, self.c01_node, _single(kw))
        last_start = start
        offset = 0
        for i in downchunk_cuts(out, self.c01_node["k"]):
            c = int(out["time"][i])
            yield self.chunk(start=last_start, end=c, data=out[offset:i])
            last_start, offset = c, i
        yield self.chunk(start=last_start, end=end, data=out[offset:])


class _Loop(_Rec, strax.LoopPlugin):
    def compute_loop(self, b, **kw):
        n = self.c01_node
        bdep, tdep = n["deps"]
        things = _single(kw)
        g = self.c01_graph
        v = (n.get("a", 1) * int(b[vf(g, bdep)]) + int(things[vf(g, tdep)].sum()) + n.get("b", 0) * len(things)) % M
        return {"time": b["time"], "endtime": b["endtime"], "id": b["id"], vf(g, n["name"]): v}


BASES = {"source": _Source, "rowwise": _Rowwise, "filter": _Filter, "cut": _Cut, "mergeonly": _MergeOnly,
         "multi": _Multi, "exhaust": _Exhaust, "overlap": _Overlap, "downchunk": _DownChunk, "loop": _Loop}


def make_classes(graph, gid):
    """one strax plugin class per node"""
    kinds = kind_of(graph)
    classes = []
    for n in graph["nodes"]:
        k = n["kind"]
        outs = outputs_of(n)
        attrs = {"c01_graph": graph, "c01_node": n, "c01_gid": gid, "__version__": "0",
                 "depends_on": tuple(n["deps"]) if k != "source" else (),
                 "provides": tuple(outs) if len(outs) > 1 else outs[0]}
        if k == "multi":
            attrs["data_kind"] = immutabledict({d: kinds[d] for d in outs})
            attrs["dtype"] = {d: dtype_of(graph, d) for d in outs}
            sw = n.get("save_when_multi")
            if sw:
                attrs["save_when"] = immutabledict({d: SAVE_WHEN[s] for d, s in zip(outs, sw)})
            ros = n.get("rechunk_multi")
            if ros:
                attrs["rechunk_on_save"] = immutabledict({d: bool(r) for d, r in zip(outs, ros)})
        else:
            attrs["data_kind"] = kinds[outs[0]]
            if k not in ("cut", "mergeonly"):
                attrs["dtype"] = dtype_of(graph, outs[0])
            if "save_when" in n:
                attrs["save_when"] = SAVE_WHEN[n["save_when"]]
            if "rechunk_on_save" in n:
                attrs["rechunk_on_save"] = bool(n["rechunk_on_save"])
        if "parallel" in n and k not in ("overlap", "downchunk"):
            attrs["parallel"] = n["parallel"]
        if "target_mb" in n:
            attrs["chunk_target_size_mb"] = n["target_mb"]
        if "max_messages" in n:
            attrs["max_messages"] = n["max_messages"]
        if k == "loop":
            attrs["loop_over"] = kinds[n["deps"][0]]
        if k == "cut":
            attrs["cut_name"] = cutf(n)
            attrs["cut_description"] = "cut " + n["cslot"]
        cls = type("C01%s%s" % (k.capitalize(), n["name"].capitalize()), (BASES[k],), attrs)
        if k == "source":
            cls = strax.takes_config(strax.Option("c01_chunking", default=0, track=False))(cls)
        classes.append(cls)
    return classes


def install_source(gid, node, chunkings):
    """register rows and chunkings of a source node"""
    rows = node["rows"]
    a = np.zeros(len(rows), strax.to_numpy_dtype(base_fields() + [(("value " + node["slot"], "v" + node["slot"]), np.int64)]))
    for i, (t, e, rid, v) in enumerate(rows):
        a[i] = (t, e, rid, v)
    SOURCE_DATA[(gid, node["name"])] = a
    for cid, ch in chunkings.items():
        CHUNKINGS[(gid, node["name"], int(cid))] = [tuple(c) for c in ch]
