"""C19 units: replace_merged / _replace_merged and merge_peaks / _merge_peaks vs Model/Merging.v."""
import itertools
from fractions import Fraction
from math import gcd

import numpy as np
import strax
from strax.processing import peak_merging as pm

from harness import impl as himpl
from harness import lib
from harness.props.c19_common import Unit, big, crosscheck, peak_dt, zl

# ------------------------------------------------------------------------------------------------
# replace_merged.  A case: (orig, merge) lists of (t, e); orig ids 0..n-1, merge ids -(k+1)
# ------------------------------------------------------------------------------------------------
NAME_RM = "replace_merged"
RULE_RM = ("replace_merged: all disjoint sorted peak lists of <=4 (thorough 5) peaks with lengths 1..2 and gaps 0..1, "
           "with every set of disjoint index ranges (each >= 1 peak) merged into one interval spanning first start to "
           "last end; plus seeded random cases where merge intervals are arbitrary sorted intervals (touching any "
           "number of peaks, possibly none; all lengths positive; skip windows pairwise non-overlapping); non-trivial = at least one merge of >= 2 "
           "peaks and one untouched peak; distinct by canonical JSON.")


def rm_arrays(orig, merge):
    o = himpl.mk_array([(t, e, i, 0) for i, (t, e) in enumerate(orig)])
    m = himpl.mk_array([(t, e, -(k + 1), 0) for k, (t, e) in enumerate(merge)])
    return o, m


def rm_impl(orig, merge):
    o, m = rm_arrays(orig, merge)
    try:
        r = strax.replace_merged(o, m)
    except AssertionError:
        return "err 2"
    return [int(x) for x in r["id"]]


def rm_windows(orig, merge):
    o, m = rm_arrays(orig, merge)
    if not len(m):
        return []
    return [(int(a), int(b)) for a, b in strax.touching_windows(o, m)]


def touches(a, b):
    """intervals overlap by at least one sample (touching_windows with window=0)"""
    return a[1] > b[0] and a[0] < b[1]


def rm_predicate(orig, merge, out):
    """None iff out = every merge element once + exactly the originals touching no merge element, in the
    original relative order, and the whole sorted by time."""
    if not isinstance(out, list):
        return "raised %s" % out
    keep = [i for i, o in enumerate(orig) if not any(touches(o, m) for m in merge)]
    if sorted(x for x in out if x < 0) != sorted(-(k + 1) for k in range(len(merge))):
        return "merged peaks lost or duplicated: %s" % out
    if [x for x in out if x >= 0] != keep:
        return "untouched originals %s expected, got %s" % (keep, [x for x in out if x >= 0])
    times = [orig[x][0] if x >= 0 else merge[-x - 1][0] for x in out]
    if any(a > b for a, b in zip(times, times[1:])):
        return "result not sorted by time: ids %s times %s" % (out, times)
    return None


def rm_cases(ctx):
    cases = []
    nmax = 5 if big(ctx) else 4
    for n in range(1, nmax + 1):
        for shape in itertools.product(range(2), (1, 2), repeat=n):
            orig, t = [], 0
            for i in range(n):
                t += shape[2 * i]
                orig.append((t, t + shape[2 * i + 1]))
                t += shape[2 * i + 1]
            # every set of disjoint index ranges: label each peak 0 (alone) or join-with-previous
            for cuts in itertools.product((0, 1, 2), repeat=n):
                # 0: untouched, 1: starts a merge group, 2: continues the group of the previous peak
                groups, ok, cur = [], True, None
                for i, c in enumerate(cuts):
                    if c == 2:
                        if cur is None:
                            ok = False
                            break
                        cur[1] = i + 1
                    else:
                        if cur is not None:
                            groups.append(tuple(cur))
                        cur = [i, i + 1] if c == 1 else None
                if not ok:
                    continue
                if cur is not None:
                    groups.append(tuple(cur))
                merge = [(orig[s][0], orig[e - 1][1]) for s, e in groups]
                cases.append((orig, merge, groups))
    r = ctx.rng
    for _ in range(20000 if ctx.thorough else 4000):
        n = r.randint(0, 8)
        orig, t = [], r.randint(0, 3)
        for i in range(n):
            t += r.choice([0, 0, 1, 3])
            ln = r.choice([1, 1, 2, 4])
            orig.append((t, t + ln))
            t += ln
        k = r.randint(0, 3)
        merge, t = [], r.randint(0, 4)
        for i in range(k):
            t += r.choice([0, 1, 2, 5])
            ln = r.choice([1, 2, 3, 6])
            merge.append((t, t + ln))
            t += ln
        ws = rm_windows(orig, merge)
        if any(a[1] > b[0] for a, b in zip(ws, ws[1:])):
            continue  # overlapping skip windows: _replace_merged would write beyond its result array
        cases.append((orig, merge, None))
    return cases


def unit_rm(ctx):
    u = Unit(ctx, NAME_RM)
    cases = rm_cases(ctx)
    wins = [rm_windows(o, m) for o, m, _ in cases]
    lines = ["replace_merged %d %d %s" % (len(o), len(m), " ".join("%d %d" % w for w in ws))
             for (o, m, _), ws in zip(cases, wins)]
    mout = lib.run_model_parallel("C19", lines)
    for (orig, merge, groups), ws, mo in zip(cases, wins, mout):
        out = rm_impl(orig, merge)
        mexp = mo if mo.startswith("err") else [int(x) for x in mo.split()[1:]]
        u.n += 1
        u.tally("err" if not isinstance(out, list) else ("merges=%d" % len(merge)))
        if groups is not None and any(e - s >= 2 for s, e in groups) and len(orig) > sum(e - s for s, e in groups):
            u.nontriv.add(lib.canon([orig, merge]))
        inp = {"orig": [list(x) for x in orig], "merge": [list(x) for x in merge]}
        # the property is claimed for merges built from the originals (groups) and, more generally, whenever the
        # windows are strictly increasing in their ends
        in_domain = groups is not None or all(a[1] < b[1] and a[1] <= b[0] for a, b in zip(ws, ws[1:]))
        if out != mexp:
            u.report(inp, str(out), str(mexp), rm_predicate(orig, merge, out))
            if u.bad > 5:
                break
        elif in_domain:
            reason = rm_predicate(orig, merge, out)
            if reason:
                u.report(inp, str(out), str(mexp), "implementation AND model: " + reason)
    u.done()
    k = len(cases) // 2
    ctx.sample({"unit": u.name, "orig": cases[k][0], "merge": cases[k][1], "windows": wins[k], "model": mout[k]})
    idxs = sorted(ctx.rng.sample(range(len(cases)), 100))
    eqs = []
    for i in idxs:
        o, m, _ = cases[i]
        mw = "; ".join("((%d), (%d), (%d))" % (-(k + 1), s, e) for k, (s, e) in enumerate(wins[i]))
        rhs = "Err (2)" if mout[i].startswith("err") else "Ok %s" % zl(mout[i].split()[1:])
        eqs.append("@replace_merged Z %s [%s] = %s" % (zl(range(len(o))), mw, rhs))
    crosscheck(ctx, u.name, eqs, "From SV Require Import Model.Merging.")


def replay_rm(inp):
    orig, merge = [tuple(x) for x in inp["orig"]], [tuple(x) for x in inp["merge"]]
    out = rm_impl(orig, merge)
    reason = rm_predicate(orig, merge, out)
    print("impl:", out, "spec:", reason or "holds")
    return 1 if reason else 0


# ------------------------------------------------------------------------------------------------
# merge_peaks.  A case: (ns, nch, peaks, se); peak = (t, len, dt, area, nhits, apc tuple, data tuple (ns ints))
# ------------------------------------------------------------------------------------------------
NAME_MP = "merge_peaks"
RULE_MP = ("merge_peaks: seeded random disjoint sorted peak lists of 2..5 (thorough 7) peaks with 4-sample buffers, "
           "dt in {1,2,4} (25%: {3,6} with samples divisible by 6), lengths 1..4, integer samples, gaps 0..3 (x dt), "
           "2 channels, with 1..2 disjoint merge ranges of >= 1 peak; also overlapping peaks and single-peak arrays "
           "(ValueError); compared field by field incl. the returned endtime array and the down-sampled waveform "
           "(exact rationals); non-trivial = a merge of >= 2 peaks with different dt or down-sampling; distinct by JSON.")


def mp_array(ns, nch, peaks):
    a = np.zeros(len(peaks), dtype=peak_dt(nch, ns))
    for i, (t, ln, dt, area, nh, apc, data) in enumerate(peaks):
        a[i]["time"], a[i]["length"], a[i]["dt"], a[i]["area"], a[i]["n_hits"] = t, ln, dt, area, nh
        a[i]["area_per_channel"][:] = apc
        a[i]["data"][:] = data
    return a


def mp_impl(ns, nch, peaks, se):
    a = mp_array(ns, nch, peaks)
    try:
        new, endt = pm._merge_peaks(a, np.array([s for s, _ in se], dtype=np.int64),
                                    np.array([e for _, e in se], dtype=np.int64))
    except ValueError:
        return "err 1"
    out = []
    for p, et in zip(new, endt):
        ln = int(p["length"])
        data = [Fraction(float(x)) for x in p["data"]]
        if any(x != 0 for x in data[max(ln, 0):]):
            return "non-zero samples beyond length: %s" % data
        out.append((int(p["time"]), ln, int(p["dt"]), Fraction(float(p["area"])), int(p["n_hits"]), int(et),
                    tuple(Fraction(float(x)) for x in p["area_per_channel"]), tuple(data[:ln])))
    return out


def mp_model(mo, nch):
    if mo.startswith("err"):
        return mo
    out = []
    for part in mo.split(" | ")[1:]:
        v = list(map(int, part.split()))
        t, ln, dt, area, nh, et = v[:6]
        apc = tuple(Fraction(x) for x in v[6:6 + nch])
        q = v[6 + nch:]
        data = tuple(Fraction(q[2 * i], q[2 * i + 1]) for i in range(len(q) // 2))
        out.append((t, ln, dt, Fraction(area), nh, et, apc, data))
    return out


def mp_predicate(ns, nch, peaks, se, out):
    """merging adds areas / hits / per-channel areas, starts at the first start, reports the last end, never
    extends beyond it, and keeps the waveform integral when nothing is truncated."""
    if not isinstance(out, list):
        if len(peaks) >= 2 and all(a[0] + a[1] * a[2] <= b[0] for a, b in zip(peaks, peaks[1:])):
            return "raised %s on disjoint peaks" % out
        return None
    if len(out) != len(se):
        return "%d merged peaks for %d merge ranges" % (len(out), len(se))
    for (s, e), (t, ln, dt, area, nh, et, apc, data) in zip(se, out):
        old = peaks[s:e]
        last_end = old[-1][0] + old[-1][1] * old[-1][2]
        if area != sum(p[3] for p in old):
            return "merged area %s != sum of areas %s" % (area, sum(p[3] for p in old))
        if nh != sum(p[4] for p in old):
            return "merged n_hits %s != sum %s" % (nh, sum(p[4] for p in old))
        if list(apc) != [sum(p[5][c] for p in old) for c in range(nch)]:
            return "merged area_per_channel %s is not the sum" % (apc,)
        if t != old[0][0]:
            return "merged peak starts at %d, first peak at %d" % (t, old[0][0])
        if et != last_end:
            return "reported endtime %d, last peak ends at %d" % (et, last_end)
        if not (t + ln * dt <= last_end):
            return "merged peak [%d,%d) extends beyond the last end %d" % (t, t + ln * dt, last_end)
        cdt = 0
        for p in old:
            cdt = gcd(cdt, p[2])
        len0 = (last_end - t) // cdt
        f = -(-len0 // ns)
        # C19_merge_waveform_conserves_integral / C19_merge_waveform_samples (disjoint peaks, aligned or not)
        if f <= 1 or len0 % f == 0:
            tot = sum(Fraction(x) for p in old for x in p[6][:p[1]])
            if sum(data) != tot:
                return "waveform integral %s != sum of the merged waveforms %s although nothing is truncated" % (
                    sum(data), tot)
        buf = [Fraction(0)] * len0
        for p in old:
            up, i0 = p[2] // cdt, (p[0] - t) // cdt
            for k in range(p[1]):
                for rr in range(up):
                    buf[i0 + k * up + rr] = Fraction(p[6][k], up)
        stored = [sum(buf[k * f:(k + 1) * f]) for k in range(len0 // f)] if f > 1 else buf
        if list(data) != stored:
            return "merged waveform %s, by definition (up-sampled constituents, chunk sums of %d) %s" % (
                [float(x) for x in data], max(f, 1), [float(x) for x in stored])
    return None


def mp_line(ns, nch, peaks, se):
    flat = []
    for (t, ln, dt, area, nh, apc, data) in peaks:
        flat += [t, ln, dt, area, nh] + list(apc) + list(data)
    return "merge_peaks %d %d %d %s %d %s" % (ns, nch, len(peaks), " ".join(map(str, flat)), len(se),
                                            " ".join("%d %d" % x for x in se))


def mp_cases(ctx):
    r = ctx.rng
    cases = []
    ns, nch = 4, 2
    for _ in range(60000 if ctx.thorough else 8000):
        n = r.randint(2, 7 if big(ctx) else 5) if r.random() < 0.97 else 1
        odd = r.random() < 0.25
        peaks, t = [], r.randint(0, 5)
        for i in range(n):
            dt = r.choice([3, 6] if odd else [1, 2, 4])
            ln = r.randint(1, ns)
            vals = [0, 6, 12, 18] if odd else [0, 1, 2, 3, 5, 8]
            data = [r.choice(vals) if j < ln else 0 for j in range(ns)]
            a0 = r.randint(0, 9)
            a1 = r.randint(0, 9)
            peaks.append((t, ln, dt, a0 + a1, r.randint(0, 4), (a0, a1), tuple(data)))
            t += ln * dt + r.choice([0, 0, 1, 2, 3]) * r.choice([1, dt])
            if r.random() < 0.02:
                t -= 1  # overlap -> "Peaks not disjoint"
        se, pos = [], 0
        for _k in range(r.randint(1, 2)):
            if pos >= n:
                break
            s = r.randint(pos, n - 1)
            e = r.randint(s + 1, n)
            se.append((s, e))
            pos = e
        cases.append((ns, nch, peaks, se))
    return cases


def unit_mp(ctx):
    u = Unit(ctx, NAME_MP)
    cases = mp_cases(ctx)
    mout = lib.run_model_parallel("C19", [mp_line(*c) for c in cases])
    for c, mo in zip(cases, mout):
        ns, nch, peaks, se = c
        out = mp_impl(*c)
        mexp = mp_model(mo, nch)
        u.n += 1
        if isinstance(out, list):
            ds = any(o[2] != gcd(*[p[2] for p in peaks[s:e]]) if e - s > 1 else o[2] != peaks[s][2]
                     for (s, e), o in zip(se, out))
            u.tally("downsampled" if ds else "not_downsampled")
            if any(e - s >= 2 and (len(set(p[2] for p in peaks[s:e])) > 1) for s, e in se) or ds:
                u.nontriv.add(lib.canon(c))
        else:
            u.tally(str(out)[:5])
        inp = {"ns": ns, "nch": nch, "peaks": [[p[0], p[1], p[2], p[3], p[4], list(p[5]), list(p[6])] for p in peaks],
               "se": [list(x) for x in se]}
        if out != mexp:
            u.report(inp, str(out), str(mexp), mp_predicate(ns, nch, peaks, se, out))
            if u.bad > 5:
                break
        else:
            reason = mp_predicate(ns, nch, peaks, se, out)
            if reason:
                u.report(inp, str(out), str(mexp), "implementation AND model: " + reason)
    u.done()
    k = len(cases) // 2
    ctx.sample({"unit": u.name, "case(ns,nch,peaks(t,len,dt,area,nhits,apc,data),ranges)": cases[k], "model": mout[k]})


def replay_mp(inp):
    peaks = [(p[0], p[1], p[2], p[3], p[4], tuple(p[5]), tuple(p[6])) for p in inp["peaks"]]
    se = [tuple(x) for x in inp["se"]]
    out = mp_impl(inp["ns"], inp["nch"], peaks, se)
    reason = mp_predicate(inp["ns"], inp["nch"], peaks, se, out)
    print("impl:", out, "spec:", reason or "holds")
    return 1 if reason else 0


class _U:
    def __init__(self, name, rule, unit, replay):
        self.NAME, self.RULE, self.unit, self.replay = name, rule, unit, replay


RM = _U(NAME_RM, RULE_RM, unit_rm, replay_rm)
MP = _U(NAME_MP, RULE_MP, unit_mp, replay_mp)
