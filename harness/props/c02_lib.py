"""C02 helpers: id<->name table, value encoding, token rendering, plugin-class factory from a model
class spec, interpreter of a history on real strax Contexts.

Specs are plain JSON-able Python objects (so a history can be written into a replay file):
  value : ["i", z] | ["s", sid] | ["l", [v..]] | ["t", [v..]] | ["d", [[k, v]..]]
  opt   : {"name": id, "default": value, "track": bool, "parent": id|None}
  cls   : {"cid", "name", "ver", "comp", "timeout", "provides": [id..], "depends": [id..],
           "opts": [opt..] (own options), "child": bool, "parent": cls|None}
  op    : ["set_config", c, mode, [[k, v]..]] | ["register", c, cls] | ["set_fuzzy", c, [ff..], [fo..]]
          | ["new_context", c] | ["empty_context"] | ["key_for", c, run, dt] | ["is_stored", c, run, dt]
          | ["get", c, run, dt] | ["make", c, run, dt]
"""
import hashlib
import json
import logging
import os
import shutil
from base64 import b32encode

import numpy as np
import strax

logging.getLogger("strax").setLevel(logging.ERROR)

COMPRESSORS = ["blosc", "zstd", "lz4", "bz2"]
MODES = ["update", "setdefault", "replace"]
NROWS = 2


# ------------------------------------------------------------------------------------------
# names: one namespace of ids.  <1000 keys (options, data types, class names): "n%03d", ordered
# like the ids; 1000.. version strings; 2000.. compressors; 3000.. string option values
# ------------------------------------------------------------------------------------------
def name(i):
    i = int(i)
    if i < 1000:
        return "n%03d" % i
    if i < 2000:
        return "v%d" % (i - 1000)
    if i < 3000:
        return COMPRESSORS[(i - 2000) % len(COMPRESSORS)]
    return "s%d" % (i - 3000)


def pyval(v):
    t, x = v
    if t == "i":
        return int(x)
    if t == "s":
        return name(x)
    if t == "l":
        return [pyval(y) for y in x]
    if t == "t":
        return tuple(pyval(y) for y in x)
    if t == "d":
        return {name(k): pyval(y) for k, y in x}
    raise ValueError(v)


def enc_value(v):
    t, x = v
    if t == "i":
        return [0, int(x)]
    if t == "s":
        return [1, int(x)]
    if t in ("l", "t"):
        out = [2 if t == "l" else 4, len(x)]
        for y in x:
            out += enc_value(y)
        return out
    if t == "d":
        out = [5, len(x)]
        for k, y in x:
            out += [int(k)] + enc_value(y)
        return out
    raise ValueError(v)


def enc_kvs(kvs):
    out = [len(kvs)]
    for k, v in kvs:
        out += [int(k)] + enc_value(v)
    return out


def full_opts(c):
    """takes_config of the class in order: the parent's options first (inherited), then its own"""
    base = full_opts(c["parent"]) if c.get("parent") else []
    return base + list(c["opts"])


def enc_cls(c):
    out = [c["cid"], c["name"], c["ver"], c["comp"], c["timeout"], len(c["provides"])] + list(c["provides"])
    out += [len(c["depends"])] + list(c["depends"])
    opts = full_opts(c)
    out += [len(opts)]
    for o in opts:
        out += [o["name"], 1 if o["track"] else 0, -1 if o["parent"] is None else o["parent"]] + enc_value(o["default"])
    out += [1 if c["child"] else 0]
    pars = [(c["parent"]["name"], c["parent"]["ver"])] if c.get("parent") else []
    out += [len(pars)]
    for a, b in pars:
        out += [a, b]
    return out


def enc_op(op):
    k = op[0]
    if k == "set_config":
        return [0, op[1], op[2]] + enc_kvs(op[3])
    if k == "register":
        return [1, op[1]] + enc_cls(op[2])
    if k == "set_fuzzy":
        return [2, op[1], len(op[2])] + list(op[2]) + [len(op[3])] + list(op[3])
    if k == "new_context":
        return [3, op[1]]
    if k == "empty_context":
        return [4]
    code = {"key_for": 5, "is_stored": 6, "get": 7, "make": 8}[k]
    return [code, op[1], op[2], op[3]]


def enc_hist(fx, ops):
    out = [1 if fx else 0, len(ops)]
    for op in ops:
        out += enc_op(op)
    return "hist " + " ".join(str(int(x)) for x in out)


# ------------------------------------------------------------------------------------------
# rendering of the model's token strings (json.dumps of the hashablized tree)
# ------------------------------------------------------------------------------------------
def parse_tokens(toks):
    """token list -> nested python (ints, strs, lists)"""
    pos = 0

    def rec():
        nonlocal pos
        t = toks[pos]
        pos += 1
        if t == 0:
            v = toks[pos]
            pos += 1
            return int(v)
        if t == 1:
            v = toks[pos]
            pos += 1
            return name(v)
        if t == 2:
            out = []
            while toks[pos] != 3:
                out.append(rec())
            pos += 1
            return out
        raise ValueError("bad token %r at %d" % (t, pos))

    v = rec()
    if pos != len(toks):
        raise ValueError("trailing tokens")
    return v


def render(toks):
    return json.dumps(parse_tokens(toks))


def b32hash(text, length=10):
    return b32encode(hashlib.sha1(text.encode("ascii")).digest())[:length].decode("ascii").lower()


def real_text(thing):
    """the string strax.deterministic_hash feeds to sha1"""
    return json.dumps(strax.hashablize(thing), cls=strax.utils.NumpyJSONEncoder)


# ------------------------------------------------------------------------------------------
# expected row values from the model's data tree
# ------------------------------------------------------------------------------------------
def _mix(own, r, ins):
    s = own + "#%d#" % r + ",".join(str(x) for x in ins)
    return int(hashlib.sha1(s.encode()).hexdigest()[:15], 16)


def tree_rows(tree):
    """tree = [own, [input trees]] as parsed from the model; returns the NROWS expected values"""
    own, inputs = tree
    own_s = json.dumps(own)
    ins = [tree_rows(t) for t in inputs]
    return [_mix(own_s, r, [x[r] for x in ins]) for r in range(NROWS)]


# ------------------------------------------------------------------------------------------
# real plugin classes from a spec
# ------------------------------------------------------------------------------------------
DT = strax.time_fields + [(("value", "v"), np.int64)]


def _own_json(self, out):
    cfg = {k: self.config[k] for k, o in self.takes_config.items() if o.track}
    return json.dumps(strax.hashablize([out, type(self).__name__, self.version(), cfg]),
                      cls=strax.utils.NumpyJSONEncoder)


def _rows(self, out, ins):
    r = np.zeros(NROWS, dtype=DT)
    r["time"] = np.arange(NROWS) * 10
    r["endtime"] = r["time"] + 10
    own = _own_json(self, out)
    for i in range(NROWS):
        r["v"][i] = _mix(own, i, [int(a["v"][i]) for a in ins])
    return r


def _compute_source(self, chunk_i):
    if self.multi_output:
        return {p: self.chunk(start=0, end=10 * NROWS, data=_rows(self, p, []), data_type=p) for p in self.provides}
    return self.chunk(start=0, end=10 * NROWS, data=_rows(self, self.provides[0], []))


def _compute_dep(self, **kw):
    ins = [kw[d] for d in self.depends_on]
    if self.multi_output:
        return {p: _rows(self, p, ins) for p in self.provides}
    return _rows(self, self.provides[0], ins)


class ClassFactory:
    """Python class objects by cid (re-registering the same cid re-uses the same object)."""

    def __init__(self):
        self.by_cid = {}

    def get(self, c):
        if c["cid"] in self.by_cid:
            return self.by_cid[c["cid"]]
        provides = tuple(name(p) for p in c["provides"])
        depends = tuple(name(d) for d in c["depends"])
        attrs = dict(provides=provides, depends_on=depends, __version__=name(c["ver"]),
                     compressor=name(c["comp"]), input_timeout=int(c["timeout"]),
                     child_plugin=bool(c["child"]), rechunk_on_save=False)
        if len(provides) > 1:
            attrs["dtype"] = {p: DT for p in provides}
            attrs["data_kind"] = {p: p for p in provides}
        else:
            attrs["dtype"] = DT
            attrs["data_kind"] = provides[0]
        if depends:
            attrs["compute"] = _compute_dep
        else:
            attrs["compute"] = _compute_source
            attrs["source_finished"] = lambda self: True
            attrs["is_ready"] = lambda self, chunk_i: chunk_i < 1
        base = self.get(c["parent"]) if c.get("parent") else strax.Plugin
        cls = type(name(c["name"]), (base,), attrs)
        own = [strax.Option(name(o["name"]), default=pyval(o["default"]), track=bool(o["track"]),
                            child_option=o["parent"] is not None,
                            parent_option_name=None if o["parent"] is None else name(o["parent"]))
               for o in c["opts"]]
        if own:
            cls = strax.takes_config(*own)(cls)
        self.by_cid[c["cid"]] = cls
        return cls


# ------------------------------------------------------------------------------------------
# interpreter of a history on the real strax
# ------------------------------------------------------------------------------------------
class RealRun:
    def __init__(self, workdir, factory=None):
        self.dir = workdir
        shutil.rmtree(workdir, ignore_errors=True)
        os.makedirs(workdir, exist_ok=True)
        self.store = os.path.join(workdir, "store")
        self.fac = factory or ClassFactory()
        self.ctxs = [self._new()]
        self.nfresh = 0

    def _new(self):
        return strax.Context(storage=strax.DataDirectory(self.store), register=[], config={})

    def close(self):
        shutil.rmtree(self.dir, ignore_errors=True)

    def fresh_rows(self, c, run, dt):
        """what a brand-new context with the same settings and an empty directory computes"""
        st = self.ctxs[c]
        self.nfresh += 1
        d = os.path.join(self.dir, "fresh%d" % self.nfresh)
        f = strax.Context(storage=strax.DataDirectory(d), config=dict(st.config))
        f._plugin_class_registry = st._plugin_class_registry.copy()
        try:
            key = f.key_for(str(run), name(dt))
            rows = [int(x) for x in f.get_array(str(run), name(dt), progress_bar=False)["v"]]
            return {"rows": rows, "hash": key.lineage_hash}
        except Exception as e:  # noqa
            return {"err": type(e).__name__}
        finally:
            shutil.rmtree(d, ignore_errors=True)

    def fresh_key(self, c, run, dt):
        st = self.ctxs[c]
        f = strax.Context(storage=[], config=dict(st.config))
        f._plugin_class_registry = st._plugin_class_registry.copy()
        try:
            return f.key_for(str(run), name(dt)).lineage_hash
        except Exception as e:  # noqa
            return "err:" + type(e).__name__

    def step(self, op):
        """returns the observation dict of one operation"""
        k = op[0]
        try:
            if k == "empty_context":
                self.ctxs.append(self._new())
                return {"k": "N", "c": len(self.ctxs) - 1}
            st = self.ctxs[op[1]]
            if k == "set_config":
                st.set_config({name(a): pyval(b) for a, b in op[3]}, mode=MODES[op[2]])
                return {"k": "N", "c": op[1]}
            if k == "register":
                cls = self.fac.get(op[2])
                try:
                    st.register(cls)
                    return {"k": "B", "v": True, "c": op[1]}
                except ValueError:
                    return {"k": "B", "v": False, "c": op[1]}
            if k == "set_fuzzy":
                st.set_context_config({"fuzzy_for": tuple(name(x) for x in op[2]),
                                       "fuzzy_for_options": tuple(name(x) for x in op[3])})
                return {"k": "N", "c": op[1]}
            if k == "new_context":
                self.ctxs.append(st.new_context())
                return {"k": "N", "c": len(self.ctxs) - 1}
            run, dt = str(op[2]), name(op[3])
            if k == "key_for":
                key = st.key_for(run, dt)
                return {"k": "K", "hash": key.lineage_hash, "text": real_text(key.lineage), "c": op[1]}
            if k == "is_stored":
                return {"k": "B", "v": bool(st.is_stored(run, dt)), "c": op[1]}
            if k == "get":
                a = st.get_array(run, dt, progress_bar=False)
                return {"k": "D", "rows": [int(x) for x in a["v"]], "c": op[1]}
            if k == "make":
                st.make(run, dt, progress_bar=False)
                return {"k": "M", "c": op[1]}
        except Exception as e:  # noqa
            return {"k": "E", "err": type(e).__name__, "msg": str(e)[:200], "c": op[1] if len(op) > 1 else 0}
        raise ValueError(op)

    def chash(self, c):
        try:
            return self.ctxs[c]._context_hash()
        except Exception as e:  # noqa
            return "err:" + type(e).__name__


def parse_model_line(line):
    """model output of one history -> list of observation dicts"""
    out = []
    for part in line.split(" | "):
        ob, ch = part.split(" ; ") if " ; " in part else (part.rstrip(" ;"), "")
        ob = ob.strip()
        toks = ob.split()
        ch = [int(x) for x in ch.split()]
        d = {"chash": ch}
        if toks[0] == "N":
            d["k"] = "N"
        elif toks[0] == "B":
            d.update(k="B", v=toks[1] == "1")
        elif toks[0] == "E":
            d.update(k="E", code=int(toks[1]))
        elif toks[0] == "K":
            d.update(k="K", toks=[int(x) for x in toks[1:]])
        elif toks[0] == "D":
            d.update(k="D", amb=toks[1] == "1", toks=[int(x) for x in toks[2:]])
        else:
            raise ValueError(line[:200])
        out.append(d)
    return out
