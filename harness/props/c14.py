"""C14 — a superrun is exactly the ordered concatenation of its subruns.

Correspondence of Model/Annot.v + Model/Superrun.v (extracted) with the real strax:
  * the annotated Chunk constructor / split / concatenate / merge / continuity_check / setters driven
    directly on exhaustive small span sets,
  * Plugin.do_compute (superrun_transformation, uniqueness of the inputs' annotations),
  * define_run + run_metadata round trip, DataKey suffix,
  * a real strax.Context with a DataDirectory, generated sub-runs, plugin chains with the
    allow_superrun level at depth 1..3, write_superruns on/off, rechunking across sub-run borders,
    both processors, combining mode, re-reading stored superruns, redefinition histories.
Oracles: the extracted model, per-subrun get_array, and the property predicates (rows in order of run
start; every chunk records exactly the runs / spans it covers).
"""
import contextlib
import datetime
import io
import itertools
import logging
import os
import shutil
import warnings

import numpy as np
import strax

from harness import impl, lib

MODEL_PROPS = ["C14"]
LEVEL = "proof"
NONE = -999999
TMP = os.path.join(lib.BUILD, "tmp", "c14")

ERRMAP = [
    ("negative start time", 1), ("negative length", 2), ("starts early", 3), ("ends late", 4),
    ("Need at least one chunk to concatenate", 20), ("different data types", 21), ("different run ids", 22),
    ("overlapping or out-of-order", 23), ("Target size is too small", 30), ("infinite loop", 31),
    ("argmin of an empty", 32),
    ("None as run_id in subrun", 41), ("Subruns are overlapping", 42), ("with empty superrun", 43),
    ("None as run_id in superrun", 44), ("has only one run_id", 45), ("Chunks are not continuous", 46),
    ("If merging, all chunks", 47), ("Need at least one chunk to merge", 50), ("different data kinds", 51),
    ("different run_ids", 52), ("different number of items", 53), ("different time ranges", 54),
    ("Data is not continuous", 55), ("empty input buffer", 60), ("are different:", 61), ("Weird!", 62),
    ("inconsistent time ranges", 63), ("has no subruns information", 64), ("No data returned", 65),
    ("it has no chunks", 65), ("terminated with leftover", 66),
]


def err_code(e):
    if isinstance(e, strax.CannotSplit):
        return 10
    msg = str(e)
    if isinstance(e, AttributeError):
        if "no attribute 'data'" in msg:
            return 40
        if "startswith" in msg:
            return 48
    if isinstance(e, TypeError) and "not subscriptable" in msg:
        return 49
    if isinstance(e, IndexError):
        return 33
    for k, v in ERRMAP:
        if k in msg:
            return v
    return "%s:%s" % (type(e).__name__, msg[:80])


# ------------------------------------------------------------------------------------------
# names, encodings
# ------------------------------------------------------------------------------------------

def name(r):
    """integer run id -> run id string.  Positive ids are single digits (string order = integer order),
    negative ids are superrun names."""
    if r is None:
        return None
    if r < 0:
        return "_" + "abcdefghij"[-r - 1]
    return str(r)


def ident(s):
    if s is None:
        return NONE
    if s.startswith("_"):
        return -("abcdefghij".index(s[1]) + 1)
    return int(s)


def to_dict(a):
    if a is None:
        return None
    return {name(k): {"start": s, "end": e} for k, s, e in a}


def enc_annot(a):
    if a is None:
        return "-1"
    out = [str(len(a))]
    for k, s, e in a:
        out += [str(NONE if k is None else k), str(s), str(e)]
    return " ".join(out)


def rchunk(s, e, rows=(), run=1, sub=None, sup=None, dt=1, kind=1, tgt=4):
    return {"s": s, "e": e, "rows": [tuple(r) for r in rows], "dt": dt, "kind": kind, "run": run, "tgt": tgt,
            "sub": None if sub is None else [tuple(x) for x in sub],
            "sup": None if sup is None else [tuple(x) for x in sup]}


def enc_base(c):
    return "%d %d %d %d %d %d %s" % (c["s"], c["e"], c["dt"], c["kind"], NONE if c["run"] is None else c["run"],
                                     c["tgt"], impl.enc_rows(c["rows"]))


def enc_raw(c):
    return "%s %s %s" % (enc_base(c), enc_annot(c["sub"]), enc_annot(c["sup"]))


def enc_stored(c):
    return "%s %s" % (enc_base(c), enc_annot(c["sub"]))


def tgt_mb(tgt):
    return (tgt + 0.5) * impl.DT_ENDTIME.itemsize / 1e6


def real_achunk(c):
    a = impl.mk_array(c["rows"])
    return strax.Chunk(start=c["s"], end=c["e"], data=a, dtype=a.dtype, data_type="dt%d" % c["dt"],
                       data_kind="k%d" % c["kind"], run_id=name(c["run"]), subruns=to_dict(c["sub"]),
                       superrun=to_dict(c["sup"]), target_size_mb=tgt_mb(c["tgt"]))


def show_dict(d):
    return ";".join("%d:%d:%d" % (ident(k), v["start"], v["end"]) for k, v in d.items())


def show_odict(d):
    return "none" if d is None else "{" + show_dict(d) + "}"


def show_base(start, end, run_id, ids):
    return "%d %d run=%d n=%d ids=%s" % (start, end, ident(run_id), len(ids), ",".join(str(x) for x in ids))


def show_real(ch):
    return "[%s sub=%s sup={%s}]" % (show_base(ch.start, ch.end, ch.run_id, impl.ids_of(ch.data)),
                                     show_odict(ch.subruns), show_dict(ch.superrun))


def show_info(ci, ids):
    """a stored chunk_info (metadata json) in the model driver's format.  The json is written with sorted keys, so the
    order of the dict is the order of the run-id strings: canonicalised to the order of the span starts (what the
    loader's `subruns` setter restores)"""
    sub = ci.get("subruns")
    if sub is not None:
        sub = dict(sorted(sub.items(), key=lambda kv: kv[1]["start"]))
    return "[%s sub=%s]" % (show_base(ci["start"], ci["end"], ci["run_id"], ids), show_odict(sub))


def parse_annot_str(s):
    """'none' | '{k:s:e;k:s:e}' -> None | [(k, s, e)]"""
    if s == "none":
        return None
    s = s.strip("{}")
    if not s:
        return []
    out = []
    for part in s.split(";"):
        k, a, b = part.split(":")
        out.append((None if int(k) == NONE else int(k), int(a), int(b)))
    return out


def parse_show(tok):
    """'[s e run=R n=N ids=a,b sub=.. sup={..}]' -> dict"""
    p = tok.strip("[]").split()
    d = {"s": int(p[0]), "e": int(p[1]), "run": None if int(p[2][4:]) == NONE else int(p[2][4:]),
         "ids": [int(x) for x in p[4][4:].split(",")] if p[4][4:] else []}
    for q in p[5:]:
        if q.startswith("sub="):
            d["sub"] = parse_annot_str(q[4:])
        elif q.startswith("sup="):
            d["sup"] = parse_annot_str(q[4:])
    return d


def parse_shows(s):
    s = s.strip()
    if not s:
        return []
    return [parse_show(x) for x in s.replace("] [", "]|[").split("|")]


def build_all(cs):
    """returns (list of real chunks, None) or (None, 'ctor <code>')"""
    out = []
    for c in cs:
        try:
            out.append(real_achunk(c))
        except Exception as e:  # noqa
            return None, "ctor %s" % err_code(e)
    return out, None


def guarded(f):
    try:
        return f()
    except Exception as e:  # noqa
        return "err %s" % err_code(e)


# ------------------------------------------------------------------------------------------
# generic correspondence loop
# ------------------------------------------------------------------------------------------

class Reporter:
    """per unit: at most 3 concrete failing inputs and 1 disagreement without failing input are written, so
    that the early units cannot use up lib.Ctx's cap of replay files before a later unit finds a failing input"""

    def __init__(self, ctx, unit):
        self.ctx, self.unit, self.concrete, self.nfi = ctx, unit, 0, 0

    def violation(self, what, replay, no_failing_input=False):
        if no_failing_input:
            self.nfi += 1
            if self.nfi > 1:
                return
        else:
            self.concrete += 1
            if self.concrete > 3:
                return
        self.ctx.violation(self.unit, what, replay, no_failing_input=no_failing_input)

    @property
    def bad(self):
        return self.concrete + self.nfi


def diff_unit(ctx, unit, cases, lines, impl_fn, spec_fn, nontrivial_fn, show_case, dist_fn=None):
    mout = lib.run_model_parallel("C14", lines)
    nontriv = set()
    dist = {}
    rep = Reporter(ctx, unit)
    for idx, (case, mo) in enumerate(zip(cases, mout)):
        out = impl_fn(case, idx)
        if dist_fn:
            k = dist_fn(case, out)
            dist[k] = dist.get(k, 0) + 1
        if nontrivial_fn(case, out):
            nontriv.add(lib.canon(show_case(case)))
        reason = spec_fn(case, out) if spec_fn else None
        if reason:
            rep.violation("%s: %s (impl %s, model %s)" % (unit, reason, out, mo),
                          {"input": show_case(case), "impl": out, "model": mo, "unit": unit})
        elif out != mo:
            rep.violation("model/implementation disagree on %s (impl %s, model %s); the property predicate "
                          "holds on this input" % (unit, out, mo),
                          {"input": "corr:C14/%s" % unit, "case": show_case(case), "impl": out, "model": mo,
                           "unit": unit}, no_failing_input=True)
        if rep.bad > 200:
            break
    if rep.bad:
        dist["disagreements / predicate failures"] = rep.bad
    ctx.count(unit, len(cases), len(nontriv), dist)
    if cases:
        k = len(cases) // 3
        ctx.sample({"unit": unit, "case": show_case(cases[k]), "model": mout[k]})
    return mout


def kind_of(out):
    p = out.split()
    return p[0] + (" " + p[1] if p[0] in ("err", "ctor", "bad") and len(p) > 1 else "")


# ------------------------------------------------------------------------------------------
# span-set generators
# ------------------------------------------------------------------------------------------

def span_lists(grid, kmax, keys=(1, 2, 3), with_empty=True):
    """all start-sorted non-overlapping span sequences (possibly with gaps) of <= kmax spans over the grid"""
    pts = list(grid)
    out = [[]]

    def rec(prefix, lo_idx):
        if len(prefix) == kmax:
            return
        for i in range(lo_idx, len(pts)):
            for j in range(i if with_empty else i + 1, len(pts)):
                sp = prefix + [(keys[len(prefix)], pts[i], pts[j])]
                out.append(sp)
                rec(sp, j)
    rec([], 0)
    return out


def rand_annot(rng, keys=(1, 2, 3, None), grid=(0, 2, 4, 5, 6, 8, 10), kmax=3, p_none=0.15):
    if rng.random() < p_none:
        return None
    k = rng.randint(0, kmax)
    ks = rng.sample(list(keys), min(k, len(keys)))
    out = []
    for key in ks:
        a, b = rng.choice(grid), rng.choice(grid)
        if rng.random() < 0.85 and a > b:
            a, b = b, a
        out.append((key, a, b))
    return out


# ------------------------------------------------------------------------------------------
# unit: constructor (setters inside __init__) and the derived properties
# ------------------------------------------------------------------------------------------

def unit_ctor(ctx):
    cases = []
    grid = (0, 4, 6, 10)
    annots = [None, []]
    for keys in [(1,), (2,), (None,), (1, 2), (2, 1), (1, None), (-1,), (-1, 1)]:
        spans = [(a, b) for a in grid for b in grid if a <= b] + [(6, 4)]
        for combo in itertools.product(spans, repeat=len(keys)):
            annots.append([(k, a, b) for k, (a, b) in zip(keys, combo)])
    ranges = [(0, 10), (4, 6), (-1, 10), (6, 4)]
    for run in (None, 1, -1):
        for (s, e) in ranges:
            for a in annots:
                if (s, e) != (0, 10) and ctx.rng.random() < 0.9:
                    continue
                cases.append(rchunk(s, e, run=run, sub=a, sup=None))
                cases.append(rchunk(s, e, run=run, sub=None, sup=a))
    n_rand = 6000 if ctx.thorough else 1500
    for _ in range(n_rand):
        cases.append(rchunk(ctx.rng.choice([0, 0, 0, 2, -1]), ctx.rng.choice([10, 10, 8, 1]),
                            rows=ctx.rng.choice([[], [(1, 3, 0, 0)], [(1, 3, 0, 0), (11, 12, 1, 0)]]),
                            run=ctx.rng.choice([None, 1, 2, -1]),
                            sub=rand_annot(ctx.rng, p_none=0.3), sup=rand_annot(ctx.rng, p_none=0.3)))
    lines = ["mk " + enc_raw(c) for c in cases]
    diff_unit(ctx, "annot_ctor", cases, lines,
              lambda c, i: guarded(lambda: "ok " + show_real(real_achunk(c))), None,
              lambda c, o: bool(c["sub"]) or bool(c["sup"]), lambda c: {"chunk": c}, lambda c, o: kind_of(o))

    # derived properties on the chunks that can be built
    def props(c, i):
        cs, bad = build_all([c])
        if bad:
            return bad
        ch = cs[0]

        def b(f):
            try:
                return "1" if f() else "0"
            except Exception as e:  # noqa
                return "e%s" % err_code(e)

        def sp(f):
            try:
                x = f()
                return "none" if x is None else "%d:%d:%d" % (ident(x["run_id"]), x["start"], x["end"])
            except Exception as e:  # noqa
                return "e%s" % err_code(e)
        return "ok is=%s first=%s last=%s pc=%s" % (b(lambda: ch.is_superrun), sp(lambda: ch.first_subrun),
                                                    sp(lambda: ch.last_subrun), b(lambda: ch.promised_continuity))
    pcases = [c for c in cases if c["s"] == 0 and c["e"] == 10][:: (1 if ctx.thorough else 2)]
    diff_unit(ctx, "annot_props", pcases, ["props " + enc_raw(c) for c in pcases], props, None,
              lambda c, o: bool(c["sub"]), lambda c: {"chunk": c}, lambda c, o: o.split("pc=")[-1] if "pc=" in o else o)


# ------------------------------------------------------------------------------------------
# unit: Chunk.split with annotations (+ concatenate as its inverse)
# ------------------------------------------------------------------------------------------

def covers(a, r, x):
    return any(k == r and s <= x < e for k, s, e in (a or []))


def clip_expected(a, lo, hi):
    """spans of a clipped to [lo, hi), empty ones dropped"""
    out = []
    for k, s, e in a:
        s2, e2 = max(s, lo), min(e, hi)
        if s2 < e2:
            out.append((k, s2, e2))
    return out


def wf_annot(a):
    """start-sorted, non-overlapping, different keys"""
    return all(x[1] <= x[2] for x in a) and all(x[2] <= y[1] for x, y in zip(a[:-1], a[1:])) and \
        len({x[0] for x in a}) == len(a)


def spec_split(case, out):
    """annot_split_spec + rows on a well-formed chunk whose split may update the annotations"""
    c, t0, early = case
    if not out.startswith("ok"):
        return None
    c1, c2 = parse_shows(out[3:])
    if c1["ids"] + c2["ids"] != [r[2] for r in c["rows"]]:
        return "rows not preserved by split"
    if c1["s"] != c["s"] or c2["e"] != c["e"] or c1["e"] != c2["s"]:
        return "split chunks are not adjacent over the original range"
    t = c1["e"]
    sup = c["sup"] if c["sup"] is not None else [(c["run"], c["s"], c["e"])]
    todo = [("superrun", sup, c1["sup"], c2["sup"], True)]
    sub = c["sub"]
    if sub and wf_annot(sub):
        promised = not (c["run"] is not None and c["run"] < 0) or (sub[0][1] == c["s"] and sub[-1][2] == c["e"])
        if promised:
            todo.append(("subruns", sub, c1["sub"] or [], c2["sub"] or [], False))
    for what, a, a1, a2, is_sup in todo:
        if not wf_annot(a):
            continue
        if is_sup:
            # a fragment that covers nothing gets the default {run_id: chunk range}
            if not clip_expected(a, -10**9, t):
                a1 = []
            if not clip_expected(a, t, 10**9):
                a2 = []
        if a1 != clip_expected(a, -10**9, t):
            return "%s of the left part %s are not the spans clipped at %d: %s" % (what, a1, t, clip_expected(a, -10**9, t))
        if a2 != clip_expected(a, t, 10**9):
            return "%s of the right part %s are not the spans clipped at %d: %s" % (what, a2, t, clip_expected(a, t, 10**9))
    return None


def split_chunks(ctx):
    """chunks for the split unit: ordinary, superrun (promised or not), multi-run, and odd ones"""
    grid = (0, 3, 6, 9, 12)
    rowsets = [[], [(1, 2, 0, 0), (7, 8, 1, 0)], [(0, 3, 0, 0), (3, 3, 1, 0), (4, 9, 2, 0), (10, 12, 3, 0)]]
    out = []
    sls = span_lists(grid, 3)
    for sl in sls:
        rows = rowsets[len(out) % 3]
        out.append(rchunk(0, 12, rows, run=-1, sub=sl))                       # superrun chunk
        if len(sl) >= 2:
            out.append(rchunk(0, 12, rows, run=None, sup=sl))                 # chunk concatenated from runs
        if len(sl) >= 1 and ctx.rng.random() < 0.3:
            out.append(rchunk(0, 12, rows, run=sl[0][0], sup=sl))             # run id + explicit superrun
        if len(sl) >= 2 and ctx.rng.random() < 0.2:
            out.append(rchunk(0, 12, rows, run=-1, sub=sl[::-1]))             # unsorted dict order
        if len(sl) >= 1 and ctx.rng.random() < 0.1:
            out.append(rchunk(0, 12, rows, run=None, sub=sl, sup=[(1, 0, 6), (2, 6, 12)]))  # AttributeError
        if len(sl) >= 1 and ctx.rng.random() < 0.1:
            out.append(rchunk(0, 12, rows, run=1, sub=sl))                    # subruns on an ordinary run
    out.append(rchunk(0, 12, rowsets[1], run=1))
    out.append(rchunk(3, 9, [(4, 5, 0, 0)], run=1))
    return out


def unit_split(ctx):
    cases = []
    chunks = split_chunks(ctx)
    if not (ctx.thorough or ctx.escalated()):
        chunks = [c for i, c in enumerate(chunks) if i % 3 == ctx.seed % 3 or len(c["sub"] or c["sup"] or []) <= 1]
    for c in chunks:
        for t in range(-1, 14):
            if t % 3 != 0 and ctx.rng.random() < 0.5 and not ctx.thorough:
                continue
            cases.append((c, t, ctx.rng.randint(0, 1)))
    lines = ["split %d %d %s" % (t, early, enc_raw(c)) for c, t, early in cases]

    def impl_fn(case, idx):
        c, t, early = case
        cs, bad = build_all([c])
        if bad:
            return bad

        def f():
            c1, c2 = cs[0].split(t, allow_early_split=bool(early))
            return "ok " + show_real(c1) + " " + show_real(c2)
        return guarded(f)

    mout = diff_unit(ctx, "annot_split", cases, lines, impl_fn, spec_split,
                     lambda c, o: o.startswith("ok") and c[0]["s"] < c[1] < c[0]["e"] and bool(c[0]["sub"] or c[0]["sup"]),
                     lambda c: {"chunk": c[0], "t": c[1], "early": c[2]}, lambda c, o: kind_of(o))
    # extraction cross-check: a sample re-evaluated inside Coq by vm_compute
    idxs = sorted(ctx.rng.sample(range(len(cases)), min(200 if ctx.thorough else 60, len(cases))))
    eqs = []
    for i in idxs:
        c, t, early = cases[i]
        eqs.append("c14_split_view (%d) (%d) %s (%d) (%d) %s (%d) %s %s (%d) %s = %s" % (
            c["s"], c["e"], coq_rows(c["rows"]), c["dt"], c["kind"], coq_oz(c["run"]), c["tgt"],
            coq_oannot(c["sub"]), coq_oannot(c["sup"]), t, "true" if early else "false", coq_split_out(mout[i])))
    n, fails = lib.coq_crosscheck("C14", "From SV Require Import Model.Rows Model.Annot Model.C14Run.", eqs)
    ctx.coverage.setdefault("kernel_crosscheck", {})["annot_split"] = {"equations": n, "failed_files": len(fails)}
    if fails:
        ctx.violation("annot_split", "extracted model and Coq vm_compute disagree: " + fails[0][-400:],
                      {"input": "corr:C14/annot_split/extraction-crosscheck", "log": fails[0]}, no_failing_input=True)


def coq_rows(rows):
    return "[" + "; ".join("mkrow (%d) (%d) (%d) (%d)" % tuple(r) for r in rows) + "]"


def coq_oz(r):
    return "None" if r is None else "(Some (%d))" % r


def coq_annot(a):
    return "[" + "; ".join("mkspan %s (%d) (%d)" % (coq_oz(k), s, e) for k, s, e in a) + "]"


def coq_oannot(a):
    return "None" if a is None else "(Some %s)" % coq_annot(a)


def coq_view(d):
    return "((%d), (%d), %s, [%s], %s, %s)" % (d["s"], d["e"], coq_oz(d["run"]), "; ".join("(%d)" % i for i in d["ids"]),
                                               coq_oannot(d["sub"]), coq_annot(d["sup"]))


def coq_split_out(s):
    if s.startswith("ctor"):
        return "inl (%s)" % s.split()[1]
    if s.startswith("err"):
        return "inr (inl (%s))" % s.split()[1]
    c1, c2 = parse_shows(s[3:])
    return "inr (inr (%s, %s))" % (coq_view(c1), coq_view(c2))


# ------------------------------------------------------------------------------------------
# unit: concatenate (inverse of split, fall-back to merge mode, rejections) and merge
# ------------------------------------------------------------------------------------------

def spec_concat_inverse(case, out):
    """annot_concat_inverse: on a well-formed chunk, split then concatenate(allow_superrun) is the identity"""
    if case[0] != "inverse":
        return None
    _, c, t, early = case
    if not out.startswith("ok") or " | " not in out:
        return None
    orig, back = out[3:].split(" | ")
    sub, sup = c["sub"], c["sup"]
    sub_ok = sub is None or (wf_annot(sub) and all(s < e for _, s, e in sub))
    ordinary = sup is None and c["run"] is not None
    # a chunk concatenated from several runs: its spans must reach both chunk boundaries
    multi = sup is not None and c["run"] is None and wf_annot(sup) and all(s < e for _, s, e in sup) and \
        len(sup) >= 2 and sup[0][1] == c["s"] and sup[-1][2] == c["e"]
    if back.startswith("err") or back.startswith("ctor"):
        # (quirk of Chunk.concatenate, agreed by the model: two inputs that BOTH span several runs have equal
        # run ids (None, None), so superrun=None is passed on and the constructor rejects it, err 44 --
        # therefore only the halves of an ordinary / superrun chunk are required to concatenate)
        if sub_ok and ordinary:
            return "concatenate rejected the two halves of a split: " + back
        return None
    o, b = parse_show(orig), parse_show(back[3:])
    if (o["s"], o["e"], o["ids"]) != (b["s"], b["e"], b["ids"]):
        return "split then concatenate changed rows or range"
    if sub is not None and sub_ok and (o["sub"] or None) != (b["sub"] or None):
        return "split then concatenate changed the subruns: %s -> %s" % (o["sub"], b["sub"])
    if (ordinary or multi) and (o["sup"] != b["sup"] or o["run"] != b["run"]):
        return "split then concatenate changed run id / superrun: %s %s -> %s %s" % (o["run"], o["sup"], b["run"], b["sup"])
    return None


def unit_concat(ctx):
    cases = []
    chunks = split_chunks(ctx)
    step = 1 if ctx.thorough else 4
    for i, c in enumerate(chunks):
        if i % step != ctx.seed % step:
            continue
        for t in (0, 2, 3, 5, 6, 9, 12):
            cases.append(("inverse", c, t, ctx.rng.randint(0, 1)))
    grid = (0, 2, 4, 5, 6, 8, 10)
    for _ in range(20000 if ctx.thorough else 3000):
        k = ctx.rng.choice([2, 2, 2, 3, 1])
        run_mode = ctx.rng.choice(["sr", "sr", "mixed", "ord"])
        cs = []
        t = 0
        for j in range(k):
            d = ctx.rng.choice([0, 2, 4])
            s = t if ctx.rng.random() < 0.85 else max(0, t + ctx.rng.choice([-1, 1]))
            e = s + d
            if run_mode == "sr":
                run, sup = -1, None
                sub = rand_annot(ctx.rng, keys=(1, 2, 3), grid=(s, e, (s + e) // 2, max(0, s - 2), e + 2), kmax=2, p_none=0.2)
                if ctx.rng.random() < 0.5 and sub is not None:
                    sub = [(ctx.rng.choice([1, 2]), s, e)]
            elif run_mode == "mixed":
                run = ctx.rng.choice([1, 2, 3, None])
                sub = None if ctx.rng.random() < 0.8 else [(1, s, e)]
                sup = None if run is not None and ctx.rng.random() < 0.8 else rand_annot(
                    ctx.rng, keys=(1, 2, 3), grid=(s, e, (s + e) // 2), kmax=3, p_none=0.0)
            else:
                run, sub, sup = ctx.rng.choice([1, 1, 1, 2]), None, None
            cs.append(rchunk(s, e, [], run=run, sub=sub, sup=sup, dt=1 if ctx.rng.random() < 0.95 else 2,
                             tgt=ctx.rng.choice([4, 4, 6])))
            t = e
        cases.append(("concat", ctx.rng.randint(0, 1), cs))
    lines = []
    for case in cases:
        if case[0] == "inverse":
            lines.append("split %d %d %s" % (case[2], case[3], enc_raw(case[1])))
        else:
            lines.append("concat %d %d %s" % (case[1], len(case[2]), " ".join(enc_raw(c) for c in case[2])))
    mout = lib.run_model_parallel("C14", lines)
    # second model pass for the inverse cases: concatenate the model's own halves? the model's halves are
    # compared through the impl's output below; the model side of the inverse is the Coq theorem.
    nontriv = set()
    dist = {}
    rep = Reporter(ctx, "annot_concat")
    for idx, (case, mo) in enumerate(zip(cases, mout)):
        if case[0] == "inverse":
            _, c, t, early = case
            cs, badc = build_all([c])
            if badc:
                out = badc
            else:
                def f():
                    c1, c2 = cs[0].split(t, allow_early_split=bool(early))
                    back = guarded(lambda: "ok " + show_real(strax.Chunk.concatenate([c1, c2], allow_superrun=True)))
                    return "ok " + show_real(cs[0]) + " | " + back, "ok " + show_real(c1) + " " + show_real(c2)
                r = guarded(f)
                out, halves = r if isinstance(r, tuple) else (r, r)
                if halves != mo:
                    rep.violation("model/implementation disagree on split (impl %s, model %s)" % (halves, mo),
                                  {"input": "corr:C14/annot_concat", "case": case, "impl": halves, "model": mo},
                                  no_failing_input=True)
            reason = spec_concat_inverse(case, out)
            if reason:
                rep.violation(reason, {"input": {"chunk": c, "t": t, "early": early}, "impl": out,
                                       "unit": "annot_concat"})
            if out.startswith("ok") and c["s"] < t < c["e"]:
                nontriv.add(lib.canon(case))
            k = "inverse " + ("ok" if out.startswith("ok") and "| ok" in out else "other")
        else:
            _, allow, rcs = case
            cs, badc = build_all(rcs)
            out = badc or guarded(lambda: "ok " + show_real(strax.Chunk.concatenate(cs, allow_superrun=bool(allow))))
            if out != mo:
                rep.violation("model/implementation disagree on concatenate (impl %s, model %s)" % (out, mo),
                              {"input": "corr:C14/annot_concat", "case": case, "impl": out, "model": mo},
                              no_failing_input=True)
            if out.startswith("ok") and len(rcs) >= 2:
                nontriv.add(lib.canon(case))
            k = "concat " + kind_of(out)
        dist[k] = dist.get(k, 0) + 1
        if rep.bad > 200:
            break
    ctx.count("annot_concat", len(cases), len(nontriv), dist)
    ctx.sample({"unit": "annot_concat", "case": cases[len(cases) // 2], "model": mout[len(cases) // 2]})


def unit_merge(ctx):
    cases = []
    for _ in range(8000 if ctx.thorough else 1500):
        k = ctx.rng.choice([2, 2, 3, 1])
        s, e = 0, 10
        base_sub = rand_annot(ctx.rng, keys=(1, 2, 3), grid=(0, 4, 6, 10), kmax=2, p_none=0.3)
        run = ctx.rng.choice([-1, -1, 1, None])
        base_sup = None if run is not None else [(1, 0, 5), (2, 5, 10)]
        rows = ctx.rng.choice([[], [(1, 2, 0, 0)], [(1, 2, 0, 0), (4, 5, 1, 0)]])
        cs = []
        for j in range(k):
            u = ctx.rng.random()
            sub, sup, r, rr, ss, ee, kind = base_sub, base_sup, run, rows, s, e, 1
            if u < 0.08:
                sub = rand_annot(ctx.rng, keys=(1, 2, 3), grid=(0, 4, 6, 10), kmax=2, p_none=0.3)
            elif u < 0.12:
                r = 2
            elif u < 0.16:
                rr = rows[:-1] if rows else [(1, 2, 0, 0)]
            elif u < 0.20:
                ee = 11
            elif u < 0.24:
                kind = 2
            elif u < 0.30 and sub:
                sub = sub[::-1]
            elif u < 0.34 and sup:
                sup = [(1, 0, 4), (2, 5, 10)]
            cs.append(rchunk(ss, ee, [(a, b, i + 10 * j, 0) for (a, b, i, _) in rr], run=r, sub=sub, sup=sup,
                             dt=10 + j, kind=kind, tgt=ctx.rng.choice([4, 6])))
        cases.append(cs)
    lines = ["merge 77 %d %s" % (len(cs), " ".join(enc_raw(c) for c in cs)) for cs in cases]

    def impl_fn(rcs, idx):
        cs, bad = build_all(rcs)
        if bad:
            return bad
        return guarded(lambda: "ok " + show_real(strax.Chunk.merge(cs, data_type="dt77")))

    diff_unit(ctx, "annot_merge", cases, lines, impl_fn, None,
              lambda c, o: o.startswith("ok") and len(c) >= 2, lambda c: {"chunks": c}, lambda c, o: kind_of(o))


# ------------------------------------------------------------------------------------------
# unit: continuity_check with superrun cases; setters on finished chunks
# ------------------------------------------------------------------------------------------

def unit_continuity(ctx):
    cases = []
    for _ in range(12000 if ctx.thorough else 2500):
        k = ctx.rng.randint(1, 5)
        t = ctx.rng.randint(0, 3)
        run = ctx.rng.choice([-1, -1, 1, None])
        cur = ctx.rng.choice([1, 2])
        cs = []
        for i in range(k):
            d = ctx.rng.choice([0, 2, 3])
            s = t if ctx.rng.random() < 0.7 else max(0, t + ctx.rng.choice([-1, 1, 2]))
            e = s + d
            if ctx.rng.random() < 0.1:
                run = ctx.rng.choice([-1, -2, 1, None])
            u = ctx.rng.random()
            if run is None:
                sub, sup = (None if u < 0.8 else [(1, s, e)]), [(1, s, (s + e) // 2), (2, (s + e) // 2, e)]
            else:
                sup = None
                if u < 0.15:
                    sub = None
                elif u < 0.2:
                    sub = []
                elif u < 0.7:
                    sub = [(cur, s, e)]
                elif u < 0.8:
                    sub = [(cur, s + (1 if d else 0), e)]
                elif u < 0.9:
                    sub = [(cur, s, (s + e) // 2), (cur + 1, (s + e) // 2, e)]
                    cur += 1
                else:
                    cur += 1
                    sub = [(cur, s, e)]
            cs.append(rchunk(s, e, [], run=run, sub=sub, sup=sup))
            t = e
        cases.append(cs)
    lines = ["continuity %d %s" % (len(cs), " ".join(enc_raw(c) for c in cs)) for cs in cases]

    def impl_fn(rcs, idx):
        cs, bad = build_all(rcs)
        if bad:
            return bad
        n = 0
        try:
            for _ in strax.continuity_check(iter(cs)):
                n += 1
            return "ok"
        except Exception as e:  # noqa
            return "bad %d %s" % (n, err_code(e))

    diff_unit(ctx, "annot_continuity", cases, lines, impl_fn, None, lambda c, o: len(c) >= 2,
              lambda c: {"stream": c}, lambda c, o: kind_of(o) if not o.startswith("bad") else "bad " + o.split()[2])


def unit_setters(ctx):
    cases = []
    for _ in range(4000 if ctx.thorough else 1000):
        run = ctx.rng.choice([None, 1, -1])
        base = rchunk(0, 10, [], run=run, sub=None, sup=None if run is not None else [(1, 0, 5), (2, 5, 10)])
        cases.append((ctx.rng.choice(["setsub", "setsuper"]), base, rand_annot(ctx.rng, p_none=0.1)))
    lines = ["%s %s %s" % (w, enc_raw(c), enc_annot(a)) for w, c, a in cases]

    def impl_fn(case, idx):
        w, c, a = case
        cs, bad = build_all([c])
        if bad:
            return bad

        def f():
            if w == "setsub":
                cs[0].subruns = to_dict(a)
            else:
                cs[0].superrun = to_dict(a)
            return "ok " + show_real(cs[0])
        return guarded(f)

    diff_unit(ctx, "annot_setters", cases, lines, impl_fn, None, lambda c, o: bool(c[2]),
              lambda c: {"op": c[0], "chunk": c[1], "annot": c[2]}, lambda c, o: c[0] + " " + kind_of(o))


# ------------------------------------------------------------------------------------------
# real Context helpers
# ------------------------------------------------------------------------------------------

LAYOUT = {}       # run id string -> list of (start, end, rows)
DT_ID = {"src": 10, "l1": 11, "l2": 12, "l3": 13}
LOW_TGT = 4       # target size (rows) of the levels that are processed per sub-run


class Src(strax.Plugin):
    provides = "src"
    depends_on = tuple()
    dtype = impl.DT_ENDTIME
    data_kind = "k1"
    rechunk_on_save = False
    chunk_target_size_mb = tgt_mb(LOW_TGT)

    def source_finished(self):
        return True

    def is_ready(self, chunk_i):
        return chunk_i < len(LAYOUT[self.run_id])

    def compute(self, chunk_i):
        s, e, rows = LAYOUT[self.run_id][chunk_i]
        return self.chunk(start=s, end=e, data=impl.mk_array(rows))


def mk_level(pname, dep, allow, rechunk=False, tgt=LOW_TGT):
    class P(strax.Plugin):
        provides = pname
        depends_on = dep
        dtype = impl.DT_ENDTIME
        data_kind = "k1"
        allow_superrun = allow
        rechunk_on_save = rechunk
        chunk_target_size_mb = tgt_mb(tgt)

        def compute(self, **kw):
            (x,) = kw.values()
            return x.copy()
    P.__name__ = "P_" + pname
    return P


def mk_context(d, plugins, write_superruns):
    st = strax.Context(
        storage=[strax.DataDirectory(d, provide_run_metadata=True, readonly=False, deep_scan=True)],
        register=plugins, config={},
        store_run_fields=("name", "number", "start", "end", "livetime", "mode", "source"))
    st.set_context_config({"write_superruns": bool(write_superruns), "use_per_run_defaults": False})
    st.log.setLevel(logging.CRITICAL)
    return st


T0 = datetime.datetime(2020, 1, 1)


def write_run(st, run_id, s, e):
    st.storage[0].write_run_metadata(run_id, {
        "name": run_id, "start": T0 + datetime.timedelta(seconds=int(s)), "end": T0 + datetime.timedelta(seconds=int(e)),
        "mode": "m", "source": "t"})


def fresh_dir(tag):
    d = os.path.join(TMP, tag)
    shutil.rmtree(d, ignore_errors=True)
    os.makedirs(d)
    return d


class CaseTimeout(BaseException):
    """a real get_iter call did not return within the (generous) limit: the case is skipped, hangs are C06's"""


@contextlib.contextmanager
def time_limit(seconds):
    import signal
    import threading
    if threading.current_thread() is not threading.main_thread():
        yield
        return

    def handler(signum, frame):
        raise CaseTimeout()
    old = signal.signal(signal.SIGALRM, handler)
    signal.alarm(seconds)
    try:
        yield
    finally:
        signal.alarm(0)
        signal.signal(signal.SIGALRM, old)


GET_TIMEOUT_S = 120


def quiet():
    warnings.simplefilter("ignore")
    logging.getLogger("strax").setLevel(logging.CRITICAL)


# ------------------------------------------------------------------------------------------
# unit: define_run ordering / run_metadata round trip; DataKey suffix; redefinition
# ------------------------------------------------------------------------------------------

def unit_spec(ctx):
    quiet()
    d = fresh_dir("spec")
    st = mk_context(d, [Src, mk_level("l1", "src", True)], True)
    rep, repk = Reporter(ctx, "spec_order"), Reporter(ctx, "data_key")
    cases = []
    n_cases = 300 if ctx.thorough else 80
    for _ in range(n_cases):
        k = ctx.rng.randint(1, 4)
        runs = ctx.rng.sample([1, 2, 3, 4, 5], k)
        starts = {r: ctx.rng.choice([0, 10, 10, 20, 30, 40]) for r in runs}
        data = list(runs)
        if ctx.rng.random() < 0.2:
            data.append(ctx.rng.choice(runs))   # duplicate entry
        cases.append((data, starts))
    lines = ["spec %d %s" % (len(data), " ".join("%d %d" % (r, starts[r]) for r in data)) for data, starts in cases]
    mout = lib.run_model("C14", lines)
    nontriv = set()
    dist = {}
    suffixes = {}
    for (data, starts), mo in zip(cases, mout):
        for r in set(data):
            write_run(st, name(r), starts[r], starts[r] + 5)
        st.define_run("_a", [name(r) for r in data])
        got = [ident(r) for r in st.run_metadata("_a")["sub_run_spec"]]
        m_def = [int(x) for x in mo.split("|")[0].split()[1:]]
        m_read = [int(x) for x in mo.split("|")[1].split()[1:]]
        by_start = sorted(set(data), key=lambda r: (starts[r], data.index(r)))
        if m_def != by_start:
            rep.violation("the model of define_run does not order the spec by run start",
                          {"input": "corr:C14/spec_order/model", "case": [data, starts], "model": mo}, no_failing_input=True)
        if got != m_read:
            rep.violation("sub_run_spec read back %s, model %s" % (got, m_read),
                          {"input": "corr:C14/spec_order", "case": [data, starts], "impl": got, "model": mo},
                          no_failing_input=True)
        m_chain = [int(x) for x in mo.split("|")[2].split()[1:]]
        helper = getattr(st, "_sub_run_spec_by_start", None)
        if helper is None:
            # the helper is private: without it the order is judged end to end by the pipeline unit only
            dist["Context._sub_run_spec_by_start not found"] = dist.get("Context._sub_run_spec_by_start not found", 0) + 1
            chain = m_chain
        else:
            try:
                chain = [ident(r) for r in helper(st.run_metadata("_a")["sub_run_spec"])]
            except Exception as e:  # noqa
                chain = "%s: %s" % (type(e).__name__, str(e)[:100])
        if chain != m_chain:
            # the property predicate: the sub-runs are chained in order of run start
            ok_pred = isinstance(chain, list) and sorted(chain) == sorted(set(data)) and \
                all(starts[a] <= starts[b] for a, b in zip(chain[:-1], chain[1:]))
            if ok_pred:
                rep.violation("chained sub-run order %s, model %s" % (chain, m_chain),
                              {"input": "corr:C14/spec_order", "case": [data, starts], "impl": chain, "model": mo},
                              no_failing_input=True)
            else:
                rep.violation("the sub-runs %s with run starts %s are chained in the order %s, not in order of run start"
                              % (data, starts, chain), {"input": {"data": data, "starts": starts}, "impl": chain, "unit": "spec_order"})
        strict = all(starts[a] != starts[b] for a in set(data) for b in set(data) if a != b)
        cls = "read back in start order" if got == by_start else \
            ("read back in another order, re-ordered by start" if strict else "read back in another order (ties)")
        dist[cls] = dist.get(cls, 0) + 1
        if len(set(data)) >= 2:
            nontriv.add(lib.canon([data, sorted(starts.items())]))
        # data key suffix of the superrun: equal exactly when the canonical serialisations are equal
        for comb in (False, True):
            key = st.key_for("_a", "l1", combining=comb)
            suffixes.setdefault((tuple(sorted(set(data))), comb), set()).add(key._run_id)
    ctx.count("spec_order", len(cases), len(nontriv), dist)
    ctx.sample({"unit": "spec_order", "case": cases[0], "model": mout[0]})
    # key suffix: function of (set of runs, combining), injective on what was seen
    klines = ["canon %d %d %s" % (int(comb), len(rs), " ".join(str(r) for r in rs)) for (rs, comb) in suffixes]
    kout = lib.run_model("C14", klines)
    seen = {}
    for ((rs, comb), sfx), mo in zip(suffixes.items(), kout):
        if len(sfx) != 1:
            repk.violation("the same sub-run set gave different keys: %s" % sorted(sfx),
                          {"input": {"runs": list(rs), "combining": comb}, "keys": sorted(sfx)})
        for other_mo, other in seen.items():
            if (other_mo == mo) != (other == sfx):
                repk.violation("key equality differs from equality of canonical serialisations",
                              {"input": {"runs": list(rs), "combining": comb}, "model": mo, "keys": sorted(sfx)})
        seen[mo] = sfx
    ctx.count("data_key", len(klines), len(klines), {"distinct keys": len({tuple(sorted(s)) for s in suffixes.values()})})
    shutil.rmtree(d, ignore_errors=True)


# ------------------------------------------------------------------------------------------
# unit: Plugin.do_compute (superrun_transformation, uniqueness of the inputs' annotations)
# ------------------------------------------------------------------------------------------

def unit_compute(ctx):
    quiet()

    class A1(strax.Plugin):
        provides, depends_on, dtype, data_kind = "aa", tuple(), impl.DT_ENDTIME, "k1"

    class B1(strax.Plugin):
        provides, depends_on, dtype, data_kind = "bb", tuple(), impl.DT_ENDTIME, "k2"

    class C2(strax.Plugin):
        provides, depends_on, dtype, data_kind = "cc", ("aa", "bb"), impl.DT_ENDTIME, "k3"
        allow_superrun = True
        chunk_target_size_mb = tgt_mb(5)

        def compute(self, k1, k2):
            return k1.copy()

    class C1(strax.Plugin):
        provides, depends_on, dtype, data_kind = "c1", ("aa",), impl.DT_ENDTIME, "k3"
        allow_superrun = True
        chunk_target_size_mb = tgt_mb(5)

        def compute(self, k1):
            return k1.copy()

    def plugin(cls, run):
        p = cls()
        p.run_id = name(run)
        p.fix_dtype()
        p.deps = {}
        return p

    cases = []
    for _ in range(6000 if ctx.thorough else 1500):
        prun = ctx.rng.choice([-1, -1, -1, 1])
        k = ctx.rng.choice([1, 2, 2])
        mode = ctx.rng.choice(["from_runs", "from_runs", "inherit", "odd"])
        s, e = 0, 10
        rows = ctx.rng.choice([[], [(1, 2, 0, 0)], [(1, 2, 0, 0), (4, 5, 1, 0)]])
        if mode == "from_runs":
            run = ctx.rng.choice([1, 2, None])
            sup = None if run is not None and ctx.rng.random() < 0.7 else \
                rand_annot(ctx.rng, keys=(1, 2, 3, -1), grid=(0, 4, 6, 10), kmax=3, p_none=0.0)
            sub = None
        elif mode == "inherit":
            run, sup = -1, None
            sub = rand_annot(ctx.rng, keys=(1, 2, 3), grid=(0, 4, 6, 10), kmax=2, p_none=0.2)
        else:
            run = ctx.rng.choice([1, -1, -2, None])
            sup = rand_annot(ctx.rng, keys=(1, 2, -1), grid=(0, 4, 6, 10), kmax=2, p_none=0.4)
            sub = rand_annot(ctx.rng, keys=(1, 2, 3), grid=(0, 4, 6, 10), kmax=2, p_none=0.4)
        cs = []
        for j in range(k):
            sub_j, sup_j, ee = sub, sup, e
            u = ctx.rng.random()
            if j > 0 and u < 0.1 and sub:
                sub_j = sub[::-1]
            elif j > 0 and u < 0.2:
                sub_j = rand_annot(ctx.rng, keys=(1, 2, 3), grid=(0, 4, 6, 10), kmax=2, p_none=0.3)
            elif j > 0 and u < 0.25:
                ee = 11
            elif j > 0 and u < 0.32 and sup:
                sup_j = sup[::-1]
            cs.append(rchunk(s, ee, rows if j == 0 else [], run=run, sub=sub_j, sup=sup_j, dt=1 + j, kind=1 + j))
        cases.append((prun, cs))
    lines = ["compute %d 20 3 5 %d %s" % (prun, len(cs), " ".join(enc_raw(c) for c in cs)) for prun, cs in cases]

    def impl_fn(case, idx):
        prun, rcs = case
        cs, bad = build_all(rcs)
        if bad:
            return bad
        p = plugin(C2 if len(cs) == 2 else C1, prun)
        kw = {"k%d" % (j + 1): c for j, c in enumerate(cs)}

        def f():
            out = p.do_compute(chunk_i=0, **kw)
            return "ok " + show_real(out).replace("dt", "dt")
        return guarded(f)

    def fix(out):
        return out
    diff_unit(ctx, "do_compute", cases, lines, lambda c, i: fix(impl_fn(c, i)), None,
              lambda c, o: o.startswith("ok"), lambda c: {"prun": c[0], "inputs": c[1]}, lambda c, o: kind_of(o))


# ------------------------------------------------------------------------------------------
# unit: the whole pipeline on a real Context
# ------------------------------------------------------------------------------------------

def gen_subrun_chunks(rng, t0, first_id, rid):
    """1..4 contiguous chunks starting at t0 with rows on a 600 ns raster: list of (s, e, rows)"""
    k = rng.randint(1, 4)
    chunks = []
    t = t0
    for _ in range(k):
        n = rng.choice([0, 1, 1, 2, 3])
        rows = []
        cur = t
        for _ in range(n):
            cur += rng.choice([0, 100, 600, 1200, 1800])
            ln = rng.choice([0, 50, 300])
            rows.append((cur, cur + ln, first_id, rid))
            first_id += 1
            cur += ln if rng.random() < 0.7 else 0
        hi = max([r[1] for r in rows], default=t)
        e = hi + rng.choice([0, 100, 700, 1500])
        if e == t and rng.random() < 0.97:
            e += 500          # zero-duration chunks stay in as a rare class (see zero_class)
        chunks.append((t, e, rows))
        t = e
    return chunks, first_id


def gen_pipeline_case(rng, quick_bias=True):
    nsub = rng.choice([1, 2, 2, 3, 3, 4])
    ids = sorted(rng.sample([1, 2, 3, 4, 5, 6], nsub))
    if rng.random() < 0.12 and nsub >= 2:
        rng.shuffle(ids)          # id (string) order differs from start order: finding F1 class
    gapless = rng.random() < 0.6
    t = rng.choice([0, 1000, 5000])
    first_id = 0
    layout = {}
    for r in ids:
        chunks, first_id = gen_subrun_chunks(rng, t, first_id, r)
        layout[r] = chunks
        t = chunks[-1][1] + (0 if gapless else rng.choice([0, 9, 400, 1100, 3000]))
    k = rng.choice([1, 2, 3])                       # first superrun-capable level
    low, levels = [], []
    for j in range(1, 4):
        lv = {"name": "l%d" % j, "rechunk": rng.random() < 0.5, "tgt": rng.choice([1, 2, 3, 6])}
        (low if j < k else levels).append(lv)
    return {"order": ids, "layout": {str(r): layout[r] for r in ids}, "k": k, "low": low, "levels": levels,
            "write": rng.random() < 0.6, "processor": rng.choice(["single_thread", "threaded_mailbox"])}


def model_pipeline_line(case, spec_read):
    """model input: the generated source chunks per sub-run in sub_run_spec order, the per-sub-run levels
    (below the first superrun-capable one) and the superrun-capable levels"""
    enc_lv = lambda l: " ".join("%d 1 %d %d" % (DT_ID[x["name"]], int(x["rechunk"]), x["tgt"]) for x in l)  # noqa
    subs = []
    for r in spec_read:
        chunks = case["layout"][str(r)]
        subs.append("%d %d %s" % (r, len(chunks), " ".join(
            enc_stored(rchunk(s, e, rows, run=r, dt=DT_ID["src"], tgt=LOW_TGT)) for s, e, rows in chunks)))
    return "pipeline -1 %d %d %s %d %s %d %s" % (
        int(case["write"]), len(case.get("low", [])), enc_lv(case.get("low", [])), len(case["levels"]),
        enc_lv(case["levels"]), len(spec_read), " ".join(subs))


def run_pipeline_impl(case, tag):
    """returns dict with the implementation's behaviour"""
    quiet()
    d = fresh_dir(tag)
    res = {}
    try:
        for r, chunks in case["layout"].items():
            LAYOUT[r] = [(s, e, [tuple(x) for x in rows]) for s, e, rows in chunks]
        plugins = [Src]
        dep = "src"
        for j in (1, 2, 3):
            lvl = [x for x in case["levels"] if x["name"] == "l%d" % j]
            low = [x for x in case.get("low", []) if x["name"] == "l%d" % j]
            if lvl:
                plugins.append(mk_level("l%d" % j, dep, True, lvl[0]["rechunk"], lvl[0]["tgt"]))
            else:
                plugins.append(mk_level("l%d" % j, dep, False, low[0]["rechunk"], low[0]["tgt"]))
            dep = "l%d" % j
        st = mk_context(d, plugins, case["write"])
        starts = {}
        for r, chunks in case["layout"].items():
            write_run(st, r, chunks[0][0], chunks[-1][1])
            starts[r] = chunks[0][0]
        st.define_run("_a", [str(r) for r in case["order"]])
        res["spec"] = [ident(r) for r in st.run_metadata("_a")["sub_run_spec"]]
        proc = case["processor"]

        def get(**kw):
            def f():
                cs = list(st.get_iter("_a", "l3", processor=proc, progress_bar=False, multi_run_progress_bar=False, **kw))
                return "ok " + " ".join(show_real(c) for c in cs)
            try:
                with time_limit(GET_TIMEOUT_S):
                    return guarded(f)
            except CaseTimeout:
                res["timeout"] = True
                return "timeout"
        res["out"] = get()
        saved = []
        if case["write"] and res["out"].startswith("ok"):
            for x in case["levels"]:
                md = st.get_metadata("_a", x["name"])
                infos = []
                for ci in md["chunks"]:
                    ids = []
                    if ci["n"]:
                        key = st.key_for("_a", x["name"])
                        arr = st.storage[0].backends[0]._read_chunk(
                            st.storage[0].find(key)[1], ci, dtype=impl.DT_ENDTIME, compressor=md["compressor"])
                        ids = impl.ids_of(arr)
                    infos.append(show_info(ci, ids))
                saved.append(" ".join(infos))
            res["stored_flag"] = bool(st.is_stored("_a", "l3"))
            res["reload"] = get()
        res["saved"] = " ; ".join(saved)
        # per-subrun oracle
        oracle = {}
        for r in case["layout"]:
            oracle[r] = impl.ids_of(st.get_array(r, "l3", progress_bar=False))
        res["oracle"] = oracle
        res["combining"] = get(combining=True)
    finally:
        shutil.rmtree(d, ignore_errors=True)
    return res


def truth_spans(case):
    return sorted(((int(r), ch[0][0], ch[-1][1]) for r, ch in case["layout"].items()), key=lambda x: x[1])


def in_order_class(case):
    """sub_run_spec (string order of the ids) agrees with the order of run start"""
    by_start = [r for r, _, _ in truth_spans(case)]
    return sorted(by_start) == by_start


def gap_class(case):
    """some sub-run does not start where the previous one ended (finding F2 class)"""
    tr = truth_spans(case)
    return any(a[2] != b[1] for a, b in zip(tr[:-1], tr[1:]))


def check_rows(case, out, what):
    """superrun_rows predicate on the implementation"""
    if not out.startswith("ok"):
        return "%s failed (%s) for a superrun of valid sub-runs" % (what, out)
    ids = [i for c in parse_shows(out[3:]) for i in c["ids"]]
    want = [i for r, _, _ in truth_spans(case) for (_, _, rows) in case["layout"][str(r)] for (_, _, i, _) in rows]
    if ids != want:
        return "%s returned rows %s, the sub-runs in order of run start hold %s" % (what, ids, want)
    return None


def check_exact(case, chunks, what):
    """superrun_annotations_exact predicate: every chunk records exactly the runs / spans it covers"""
    tr = truth_spans(case)
    for c in chunks:
        if c["s"] == c["e"]:
            continue      # a zero-duration chunk covers nothing; strax records the (empty) span of its run
        if c["run"] is not None and c["run"] < 0:
            want = clip_expected(tr, c["s"], c["e"])
            got = c.get("sub") or []
            if got != want:
                return "%s chunk [%d,%d) records subruns %s, it covers %s" % (what, c["s"], c["e"], got, want)
    return None


def unit_pipeline(ctx):
    n = 1500 if ctx.thorough else (150 if not ctx.escalated() else 400)
    cases = [gen_pipeline_case(ctx.rng) for _ in range(n)]
    cases = fixed_pipeline_cases() + cases
    # model: spec order first, then the pipeline
    spec_lines = ["spec %d %s" % (len(c["order"]), " ".join("%d %d" % (r, c["layout"][str(r)][0][0]) for r in c["order"]))
                  for c in cases]
    spec_out = lib.run_model("C14", spec_lines)
    spec_read = [[int(x) for x in o.split("|")[1].split()[1:]] for o in spec_out]
    spec_chain = [[int(x) for x in o.split("|")[2].split()[1:]] for o in spec_out]
    pout = lib.run_model_parallel("C14", [model_pipeline_line(c, sc) for c, sc in zip(cases, spec_chain)])
    results = run_parallel(cases, budget_s=1200 if ctx.thorough else 60,
                           batch_deadline_s=None if ctx.thorough else 150)
    if len(results) < len(cases):
        ctx.notes.append("pipeline: wall-clock budget reached after %d of %d generated cases" % (len(results), len(cases)))
        cases, spec_read, pout = cases[:len(results)], spec_read[:len(results)], pout[:len(results)]
    dist = {}
    nontriv = set()
    rep = Reporter(ctx, "pipeline")
    known = {}
    for idx, (case, res, sr, po) in enumerate(zip(cases, results, spec_read, pout)):
        if isinstance(res, str) and "CaseTimeout" in res:
            res = {"timeout": True}
        if isinstance(res, str):
            rep.violation("harness failure on a pipeline case: " + res[-300:],
                          {"input": "corr:C14/pipeline/harness", "case": case, "trace": res}, no_failing_input=True)
            continue
        if res.get("timeout"):
            dist["skipped: a get_iter call did not return within %d s" % GET_TIMEOUT_S] = \
                dist.get("skipped: a get_iter call did not return within %d s" % GET_TIMEOUT_S, 0) + 1
            continue
        ordered, gaps = in_order_class(case), gap_class(case)
        zero = any(s == e for ch in case["layout"].values() for (s, e, _) in ch)
        multi_level = len(case["levels"]) >= 2 or any(x["rechunk"] for x in case["levels"])
        key = "%s k=%d %s%s%s%s" % (case["processor"][:6], case["k"], "write" if case["write"] else "nowrite",
                                    "" if ordered else " id-order!=start-order", " gaps" if gaps else " gapless",
                                    " zero-duration-chunk" if zero else "")
        dist[key] = dist.get(key, 0) + 1
        # --- model vs implementation
        m_out, m_saved, m_reload, m_comb = [x.strip() for x in po.split(" | ")] if po.count(" | ") == 3 \
            else (po, "", "", "")
        diffs = []
        if res["spec"] != sr:
            diffs.append(("sub_run_spec", res["spec"], sr))
        i_out = res["out"]
        # when both fail only the fact is compared: strax evaluates the levels lazily chunk by chunk (and the
        # mailbox processor may surface a secondary exception), the model level by level, so with two
        # failing sites the first exception can differ
        if i_out.split()[0] != m_out.split()[0] or (i_out.startswith("ok") and i_out != m_out):
            diffs.append(("yielded chunks", i_out, m_out))
        if i_out.startswith("err"):
            dist["both fail, same exception" if i_out == m_out else "both fail, other exception first"] = \
                dist.get("both fail, same exception" if i_out == m_out else "both fail, other exception first", 0) + 1
        if case["write"] and i_out.startswith("ok") and m_out.startswith("ok"):
            if res["saved"] != m_saved:
                diffs.append(("stored chunk metadata", res["saved"], m_saved))
            if res["reload"] != m_reload:
                diffs.append(("re-read superrun", res["reload"], m_reload))
        i_comb = res["combining"]
        if i_comb.split()[0] != m_comb.split()[0] or (i_comb.startswith("ok") and i_comb != m_comb):
            diffs.append(("combining mode", i_comb, m_comb))
        # --- property predicates on the implementation
        reasons = []
        for what, out in (("get (computed on the fly)", i_out), ("get (re-read stored superrun)", res.get("reload")),
                          ("get (combining)", i_comb)):
            if out is None:
                continue
            r = check_rows(case, out, what)
            if r:
                reasons.append(("rows", r, what))
        want_or = {str(r): [i for (_, _, rows) in case["layout"][str(r)] for (_, _, i, _) in rows] for r in case["order"]}
        if res["oracle"] != want_or:
            reasons.append(("oracle", "per-subrun get_array differs from the generated rows", ""))
        for what, out in (("yielded", i_out), ("re-read", res.get("reload"))):
            if out and out.startswith("ok"):
                r = check_exact(case, parse_shows(out[3:]), what)
                if r:
                    reasons.append(("exact", r, what))
        if case["write"] and res["saved"]:
            for lvl, s in zip(case["levels"], res["saved"].split(" ; ")):
                r = check_exact(case, parse_shows(s), "stored " + lvl["name"])
                if r:
                    reasons.append(("exact", r, "stored"))
        known.setdefault("Z", 0)
        for kind, r, what in reasons:
            if not diffs and zero and kind in ("rows", "exact") and "combining" not in what:
                known["Z"] += 1     # a zero-duration chunk inside a sub-run: outside the property's quantifier
                continue
            rep.violation(r, {"input": case, "impl": res, "model": po, "unit": "pipeline"})
        if not reasons:
            nontriv.add(lib.canon(case))
        for what, a, b in diffs:
            rep.violation("model/implementation disagree on %s (impl %s, model %s)" % (what, str(a)[:400], str(b)[:400]),
                          {"input": "corr:C14/pipeline", "case": case, "impl": res, "model": po, "unit": "pipeline"},
                          no_failing_input=True)
    if rep.bad:
        dist["disagreements / predicate failures"] = rep.bad
    dist["predicate failures on sub-runs with a zero-duration chunk (outside the quantifier, model agrees)"] = known.get("Z", 0)
    ctx.count("pipeline", len(cases), len(nontriv), dist)
    ctx.sample({"unit": "pipeline", "case": cases[len(cases) // 2], "model": pout[len(cases) // 2][:600]})


def _one(args):
    i, case = args
    try:
        with contextlib.redirect_stdout(io.StringIO()), contextlib.redirect_stderr(io.StringIO()):
            return run_pipeline_impl(case, "p%d_%d" % (os.getpid(), i))
    except BaseException:  # noqa  (also the time-limit signal, so that a pool worker never dies on it)
        import traceback
        return "EXC " + traceback.format_exc()


def run_parallel(cases, budget_s=80, batch_deadline_s=None):
    """run the implementation on the cases in batches; no new batch is started after the wall-clock budget
    (a prefix of the generated cases is then evaluated: fewer cases, never a different verdict).  A case whose
    worker hangs or dies (strax threads that never return) is marked as timed out and skipped; the pool is
    rebuilt for the next batch."""
    import multiprocessing as mp
    import time
    nproc = min(8, os.cpu_count() or 2)
    if len(cases) < 8 or nproc < 2:
        return [_one((i, c)) for i, c in enumerate(cases)]
    _one((0, cases[0]))      # compile numba kernels before forking
    out = []
    t0 = time.time()
    batch = 4 * nproc
    todo = list(enumerate(cases))
    for lo in range(0, len(todo), batch):
        if lo >= batch and time.time() - t0 > budget_s:
            break
        pool = mp.get_context("fork").Pool(nproc)
        stuck = False
        try:
            handles = [pool.apply_async(_one, (x,)) for x in todo[lo:lo + batch]]
            deadline = time.time() + (batch_deadline_s or (3 * GET_TIMEOUT_S + 120))
            for h in handles:
                try:
                    out.append(h.get(timeout=max(5.0, deadline - time.time())))
                except mp.TimeoutError:
                    out.append({"timeout": True})
                    stuck = True
        finally:
            pool.terminate()
            pool.join() if not stuck else None
    return out


def fixed_pipeline_cases():
    """hand-made cases: the minimal witnesses of the findings and a few regular shapes"""
    r = lambda t, i, run: (t, t + 1, i, run)  # noqa
    out = []
    # regular: two gapless sub-runs, all levels superrun-capable, rechunk with target 1 across the border
    out.append({"order": [1, 2], "layout": {"1": [(0, 2000, [r(100, 0, 1), r(1500, 1, 1)])],
                                            "2": [(2000, 6000, [r(3000, 2, 2), r(5000, 3, 2)])]},
                "k": 1, "low": [],
                "levels": [{"name": "l1", "rechunk": True, "tgt": 1}, {"name": "l2", "rechunk": False, "tgt": 2},
                           {"name": "l3", "rechunk": True, "tgt": 2}], "write": True, "processor": "single_thread"})
    out.append(dict(F2_WITNESS))
    out.append(dict(F1_WITNESS))
    return out


# minimal witness of finding F2: a gap between the sub-runs, two chunks in the later one, two
# superrun-capable levels: the last chunk [40,45) records run 2 with span (30,45)
F2_WITNESS = {"order": [1, 2], "layout": {"1": [(0, 20, [(1, 2, 0, 1)])], "2": [(30, 40, [(31, 32, 1, 2)]), (40, 45, [])]},
              "k": 2, "low": [{"name": "l1", "rechunk": False, "tgt": 4}],
              "levels": [{"name": "l2", "rechunk": False, "tgt": 4}, {"name": "l3", "rechunk": False, "tgt": 4}],
              "write": True, "processor": "single_thread"}
# same defect, one more chunk and one more superrun-capable level: the stale spans can no longer be merged and
# get_array raises "If merging, all chunks should have the same start/end time"
F2B_WITNESS = {"order": [1, 2], "layout": {"1": [(0, 20, [(1, 2, 0, 1)])],
                                           "2": [(30, 40, [(31, 32, 1, 2)]), (40, 45, []), (45, 50, [])]},
               "k": 1, "low": [],
               "levels": [{"name": "l1", "rechunk": False, "tgt": 4}, {"name": "l2", "rechunk": False, "tgt": 4},
                          {"name": "l3", "rechunk": False, "tgt": 4}],
               "write": False, "processor": "single_thread"}
# minimal witness of finding F1: run "2" starts before run "1"
F1_WITNESS = {"order": [2, 1], "layout": {"2": [(0, 10, [(1, 2, 0, 2)])], "1": [(20, 30, [(21, 22, 1, 1)])]},
              "k": 3, "low": [{"name": "l1", "rechunk": False, "tgt": 4}, {"name": "l2", "rechunk": False, "tgt": 4}],
              "levels": [{"name": "l3", "rechunk": False, "tgt": 4}], "write": False, "processor": "single_thread"}


def unit_findings(ctx):
    """the minimal witnesses of the findings F1, F2 (repaired in /repo by 317aec4, bea6d1c): regression cases"""
    def quiet_run(case, tag):
        with contextlib.redirect_stdout(io.StringIO()), contextlib.redirect_stderr(io.StringIO()):
            return run_pipeline_impl(case, tag)
    n_ok = 0
    for tag, case, why in (
            ("f2", F2_WITNESS, "Chunk.split must split the recorded subruns also when promised_continuity is False"),
            ("f2b", F2B_WITNESS, "Chunk.split must split the recorded subruns also when promised_continuity is False"),
            ("f1", F1_WITNESS, "the sub-runs must be chained in order of run start whatever order the storage "
                               "frontend returns the spec in")):
        res = quiet_run(case, tag)
        if res.get("timeout"):
            continue
        reasons = []
        for what, o in (("get", res["out"]), ("re-read", res.get("reload")), ("get (combining)", res["combining"])):
            if o is not None:
                reasons.append(check_rows(case, o, what))
                if o.startswith("ok"):
                    reasons.append(check_exact(case, parse_shows(o[3:]), what))
        for sv in (res.get("saved") or "").split(" ; "):
            if sv:
                reasons.append(check_exact(case, parse_shows(sv), "stored"))
        reasons = [r for r in reasons if r]
        if reasons:
            ctx.violation("superrun_rows" if "failed" in reasons[0] or "returned rows" in reasons[0]
                          else "superrun_annotations_exact", reasons[0] + " (" + why + ")",
                          {"input": case, "impl": res, "unit": "pipeline"})
        else:
            n_ok += 1
    ctx.count("findings", 3, n_ok, {"regression witnesses that hold": n_ok})


# ------------------------------------------------------------------------------------------
# unit: redefinition histories
# ------------------------------------------------------------------------------------------

def enc_history(ops):
    """ops -> the model driver's `history` line (the model sees definitions and storing / non-storing gets)"""
    out = ["history"]
    write = True
    for op in ops:
        if op["op"] == "define":
            out += ["0", str(len(op["runs"]))] + [str(r) for r in op["runs"]]
        elif op["op"] == "write":
            write = op["on"]
        elif op["op"] in ("get", "make"):
            out += ["1", "1" if write else "0"]
    return " ".join(out)


def run_history(layout, rechunk, ops, tag, model_trace=None):
    """One long-lived real Context A on a fresh directory; after EVERY step a second, fresh Context B on the same
    directory.  ops: {"op": "define", "name": "a"|"_a", "form": "list"|"tuple"|"dict", "runs": [...]},
    {"op": "get"}, {"op": "make"}, {"op": "write", "on": bool}, {"op": "is_stored"}, {"op": "key"}.
    After every step the clause "redefining the superrun makes previously stored superrun data unavailable rather
    than stale" is evaluated on A:
      K  the key of the superrun equals the key the fresh context computes for the current definition,
      S  is_stored only if the stored data records exactly the sub-runs of the current definition
         (and: is_stored as in the fresh context, and as the model's history machine says),
      G  get_array = the concatenation of the CURRENT sub-runs in order of run start.
    Returns (reason or None, index of the failing step, is_stored trace)."""
    quiet()
    d = fresh_dir(tag)
    trace = []
    plugins = [Src, mk_level("l1", "src", True, rechunk, 2)]
    try:
        for r, chunks in layout.items():
            LAYOUT[r] = [(s, e, [tuple(x) for x in rows]) for s, e, rows in chunks]
        A = mk_context(d, plugins, True)
        for r, chunks in layout.items():
            write_run(A, r, chunks[0][0], chunks[-1][1])
        current = None
        mi = 0       # index into the model trace (one entry per define / get / make)
        for i, op in enumerate(ops):
            kind = op["op"]
            try:
                if kind == "define":
                    ids = [str(r) for r in op["runs"]]
                    data = {"list": ids, "tuple": tuple(ids), "dict": {r: "all" for r in ids}}[op["form"]]
                    A.define_run(op["name"], data)
                    current = sorted(set(op["runs"]), key=lambda r: layout[str(r)][0][0])
                elif kind == "write":
                    A.set_context_config({"write_superruns": bool(op["on"])})
                elif kind in ("get", "make") and current is not None:
                    with time_limit(GET_TIMEOUT_S):
                        if kind == "get":
                            got = impl.ids_of(A.get_array("_a", "l1", progress_bar=False, multi_run_progress_bar=False,
                                                          processor="single_thread"))
                            want = [x for r in current for (_, _, rows) in layout[str(r)] for (_, _, x, _) in rows]
                            if got != want:
                                return ("step %d: get_array returned rows %s, the current sub-runs %s hold %s (stale "
                                        "or wrong data)" % (i, got, current, want)), i, trace
                        else:
                            A.make("_a", "l1", progress_bar=False, multi_run_progress_bar=False, processor="single_thread")
                if current is None:
                    continue
                # ---- the predicates, after every step
                B = mk_context(d, plugins, True)
                ka, kb = A.key_for("_a", "l1"), B.key_for("_a", "l1")
                if (ka._run_id, ka.data_type, ka.lineage_hash) != (kb._run_id, kb.data_type, kb.lineage_hash):
                    return ("step %d (%s): this context computes the key %s for the superrun, a fresh context on the "
                            "same directory computes %s for the current definition %s"
                            % (i, kind, str(ka), str(kb), current)), i, trace
                sa, sb = bool(A.is_stored("_a", "l1")), bool(B.is_stored("_a", "l1"))
                if kind in ("define", "get", "make"):
                    trace.append(sa)
                if sa != sb:
                    return ("step %d (%s): is_stored is %s in this context, %s in a fresh context on the same directory"
                            % (i, kind, sa, sb)), i, trace
                if sa:
                    md = A.get_metadata("_a", "l1")
                    recorded = sorted({ident(k) for ci in md["chunks"] for k in (ci.get("subruns") or {})})
                    if recorded != sorted(current):
                        return ("step %d (%s): the superrun is_stored, but the stored data records the sub-runs %s, the "
                                "current definition is %s (stale)" % (i, kind, recorded, sorted(current))), i, trace
                if model_trace is not None and kind in ("define", "get", "make"):
                    if mi < len(model_trace) and sa != model_trace[mi]:
                        return ("step %d (%s): is_stored is %s, the history model says %s"
                                % (i, kind, sa, model_trace[mi])), i, trace
                    mi += 1
            except CaseTimeout:
                return None, i, trace
            except Exception as e:  # noqa
                return "step %d (%s) raised %s: %s" % (i, kind, type(e).__name__, str(e)[:200]), i, trace
        return None, len(ops), trace
    finally:
        shutil.rmtree(d, ignore_errors=True)


def gen_history(rng, runs, n_ops):
    ops = []
    spec = rng.sample(runs, rng.randint(2, 3))
    name = rng.choice(["a", "_a"])

    def define(sp):
        order = list(sp)
        rng.shuffle(order)
        # mostly the same spelling of the name as before, sometimes the other one
        nm = name if rng.random() < 0.7 else rng.choice(["a", "_a"])
        return {"op": "define", "name": nm, "form": rng.choice(["list", "tuple", "dict"]), "runs": order}
    ops.append(define(spec))
    while len(ops) < n_ops:
        u = rng.random()
        if u < 0.40:
            v = rng.random()
            if v < 0.35 and len(spec) > 1:
                spec = rng.sample(spec, len(spec) - 1)                       # fewer
            elif v < 0.65 and len(spec) < len(runs):
                spec = spec + [rng.choice([r for r in runs if r not in spec])]  # more
            elif v < 0.85:
                spec = list(spec)                                             # the same sub-runs, other order
            else:
                spec = rng.sample(runs, rng.randint(1, 3))
            ops.append(define(spec))
        elif u < 0.70:
            ops.append({"op": "get"})
        elif u < 0.80:
            ops.append({"op": "make"})
        elif u < 0.88:
            ops.append({"op": "write", "on": rng.random() < 0.6})
        elif u < 0.94:
            ops.append({"op": "is_stored"})
        else:
            ops.append({"op": "key"})
    ops.append({"op": "get"})
    return ops


# the classic sequences, with both spellings of the superrun's name
FIXED_HISTORIES = [
    [{"op": "define", "name": nm, "form": "list", "runs": [1, 2, 3]}, {"op": "get"},
     {"op": "define", "name": nm, "form": "list", "runs": [1, 2]}, {"op": "is_stored"}, {"op": "get"},
     {"op": "define", "name": nm, "form": "dict", "runs": [3, 2, 1]}, {"op": "get"},
     {"op": "write", "on": False}, {"op": "define", "name": nm, "form": "tuple", "runs": [2, 3, 4]}, {"op": "get"},
     {"op": "write", "on": True}, {"op": "make"}, {"op": "define", "name": nm, "form": "list", "runs": [1, 2]}, {"op": "get"}]
    for nm in ("a", "_a")]


def unit_redefinition(ctx):
    n_hist = 40 if ctx.thorough else 6
    n_ops = 14 if ctx.thorough else 10
    dist = {}
    nontriv = 0
    n_steps = 0
    runs = [1, 2, 3, 4]
    hists = []
    for h in range(n_hist + len(FIXED_HISTORIES)):
        t = 0
        first_id = 0
        layout = {}
        for r in runs:
            chunks, first_id = gen_subrun_chunks(ctx.rng, t, first_id, r)
            # zero-duration chunks are outside the property's quantifier (finding F3)
            chunks = [(s, e, rows) for (s, e, rows) in chunks if s < e] or [(t, t + 500, [])]
            fixed, cur = [], t
            for (s, e, rows) in chunks:
                fixed.append((cur, cur + (e - s), [(a - s + cur, b - s + cur, i, ch) for (a, b, i, ch) in rows]))
                cur += e - s
            layout[str(r)] = fixed
            t = cur + ctx.rng.choice([0, 0, 700])
        ops = FIXED_HISTORIES[h] if h < len(FIXED_HISTORIES) else gen_history(ctx.rng, runs, n_ops)
        hists.append((layout, ctx.rng.random() < 0.5, ops))
    mtraces = [[x == "1" for x in o.split()] for o in lib.run_model("C14", [enc_history(ops) for _, _, ops in hists])]
    rep = Reporter(ctx, "redefinition")
    for h, ((layout, rechunk, ops), mt) in enumerate(zip(hists, mtraces)):
        reason, at, trace = run_history(layout, rechunk, ops, "redef%d" % h, model_trace=mt)
        n_steps += len(ops)
        if reason:
            rep.violation(reason, {"input": {"layout": layout, "rechunk": rechunk, "history": ops[:at + 1]},
                                   "unit": "redefinition"})
        else:
            nontriv += sum(1 for o in ops if o["op"] == "define")
        for o in ops:
            k = o["op"] + ((" name=" + o["name"] + " " + o["form"]) if o["op"] == "define" else "")
            dist[k] = dist.get(k, 0) + 1
        for f in trace:
            dist["is_stored=%s" % f] = dist.get("is_stored=%s" % f, 0) + 1
    ctx.count("redefinition", n_steps, nontriv, dist)
    ctx.sample({"unit": "redefinition", "case": hists[-1][2], "model": mtraces[-1]})


UNITS = {"annot_ctor": unit_ctor, "annot_split": unit_split, "annot_concat": unit_concat, "annot_merge": unit_merge,
         "annot_continuity": unit_continuity, "annot_setters": unit_setters, "do_compute": unit_compute,
         "spec_order": unit_spec, "findings": unit_findings, "pipeline": unit_pipeline,
         "redefinition": unit_redefinition}


def run(ctx):
    os.makedirs(TMP, exist_ok=True)
    warnings.simplefilter("ignore")
    ctx.coverage["rule"] = (
        "Annotation units: exhaustive small span sets (all start-sorted non-overlapping sequences of <=3 spans on a "
        "5-point grid incl. empty spans and gaps, every split time from one below to one above the range, ordinary / "
        "superrun / multi-run / malformed chunks) plus seeded random dicts (unsorted, overlapping, None keys). "
        "Non-trivial: the chunk carries a non-empty annotation and the operation succeeds with a split time strictly "
        "inside / >=2 inputs. Pipeline: a real Context on a DataDirectory, 1..4 sub-runs of 1..4 chunks, chain "
        "src->l1->l2->l3 with the first allow_superrun level at depth 1..3, write_superruns on/off, rechunk_on_save "
        "per level with targets of 1..6 rows, both processors, combining mode, re-read; non-trivial = the case is "
        "in the class covered by the proved theorems and all predicates hold. Distinct by canonical JSON.")
    ctx.assumptions += [
        "run-id strings are single digits numbered in string order (so json sort_keys order = integer order)",
        "plugins copy their single input (rows are identified by an id column)",
        "the source plugin is stored with rechunk_on_save=False; every other level has its own rechunk flag and target",
        "time-range sub-run specs are out of scope"]
    try:
        # strax prints ("Source finished!") and draws progress bars: keep stdout for the verdict lines only
        with contextlib.redirect_stdout(io.StringIO()), contextlib.redirect_stderr(io.StringIO()):
            for uname, fn in UNITS.items():
                fn(ctx)
    finally:
        shutil.rmtree(TMP, ignore_errors=True)
        # lib.finish prints the first 8 violations: concrete failing inputs first
        ctx.violations.sort(key=lambda v: bool(v["nfi"]))


def replay(ctx, obj):
    quiet()
    os.makedirs(TMP, exist_ok=True)
    r = obj["replay"]
    unit = r.get("unit") or obj.get("unit")
    case = r.get("case") if isinstance(r.get("input"), str) else r.get("input")
    reason = None
    out = None
    if unit in ("pipeline", "superrun_annotations_exact", "superrun_rows"):
        res = run_pipeline_impl(case, "replay")
        out = res
        reasons = []
        for what, o in (("get", res["out"]), ("re-read", res.get("reload")), ("combining", res["combining"])):
            if o is not None:
                reasons.append(check_rows(case, o, what))
                if o.startswith("ok"):
                    reasons.append(check_exact(case, parse_shows(o[3:]), what))
        for s in (res.get("saved") or "").split(" ; "):
            if s:
                reasons.append(check_exact(case, parse_shows(s), "stored"))
        reason = next((x for x in reasons if x), None)
    elif unit == "redefinition":
        reason, at, out = run_history(case["layout"], case["rechunk"], case["history"], "replay")
    elif unit == "annot_concat":
        c = case["chunk"]
        cs, bad = build_all([c])

        def f():
            c1, c2 = cs[0].split(case["t"], allow_early_split=bool(case["early"]))
            back = guarded(lambda: "ok " + show_real(strax.Chunk.concatenate([c1, c2], allow_superrun=True)))
            return "ok " + show_real(cs[0]) + " | " + back
        out = bad or guarded(f)
        reason = spec_concat_inverse(("inverse", c, case["t"], case["early"]), out)
    elif unit == "annot_split":
        c = case["chunk"]
        cs, bad = build_all([c])
        out = bad or guarded(lambda: "ok " + " ".join(show_real(x) for x in cs[0].split(case["t"], allow_early_split=bool(case["early"]))))
        reason = spec_split((c, case["t"], case["early"]), out)
    else:
        print("replay not supported for unit", unit)
        return 0
    shutil.rmtree(TMP, ignore_errors=True)
    print("impl:", str(out)[:1500], "| property:", reason or "holds")
    return 1 if reason else 0
