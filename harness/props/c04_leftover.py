"""C04 unit `forked_leftover_retry` — the retry after the abrupt death of a *forked* (inlined, multi-process) saver.

The fault sweep of c04.py kills and fails non-forked savers only; the Coq file-system model (Model/Storage*.v)
has no per-chunk `metadata_<chunk>.json` files.  This unit covers the history the sweep cannot produce, on
the implementation, judged by the property predicate itself (it is the search for a concrete failing input
when the constructor's rmtree/makedirs trace stops matching the model; it is not part of a proof):

  1. real `strax.FileSaver` objects with `is_forked = True` (what `ParallelSourcePlugin` makes of an inlined
     saver) save the first j chunks of one or all data types of the graph and are then abandoned without
     close() -- the state a worker process killed before `FileSaver._close` leaves behind: `<key>_temp` with
     chunk files, a main metadata file holding only chunk 0, and one `metadata_<chunk>.json` per chunk;
  2. the identical request is made with a non-forked processor configuration (`Context.make`);
  3. a fresh read-only Context observes: the request returned normally, the target is stored, and every data
     type reported stored loads completely and equals the in-memory oracle.
"""
import os
import shutil
import tempfile

from harness.fsfault import graphs, runner

UNIT = "forked_leftover_retry"

CONFIGS = [
    dict(graph="g1", proc="single_thread", workers=None, rechunk=False),
    dict(graph="g1", proc="threaded_mailbox", workers=2, rechunk=False),
    dict(graph="g3", proc="single_thread", workers=None, rechunk=False, n_chunks=2),
    dict(graph="g2", proc="threaded_mailbox", workers=None, rechunk=False, n_chunks=4),
]


def plant(root, cfg, dtypes, j):
    """abandoned forked savers for `dtypes`, each after saving its first j chunks; -> files left per data type"""
    kw = runner.cfg_kw(cfg)
    kw["crash_at"] = None
    left = {}
    for d in dtypes:
        src = graphs.context(None, cfg["graph"], **kw)
        chunks = list(src.get_iter(runner.RUN_ID, d, processor="single_thread", progress_bar=False))
        st = graphs.context(root, cfg["graph"], **kw)
        key = st.key_for(runner.RUN_ID, d)
        md = st.get_single_plugin(runner.RUN_ID, d).metadata(runner.RUN_ID, d)
        saver = st.storage[0].saver(key, md)
        saver.is_forked = True
        for i, c in enumerate(chunks[:j]):
            saver.save(c, i)
        left[d] = sorted(os.listdir(saver.tempdirname))
        del saver
    return left


def cases(tier_big):
    out = []
    for cfg in CONFIGS:
        dts = [d for d in graphs.data_types(cfg["graph"])]
        n = int(cfg.get("n_chunks", 3))
        js = range(1, n + 1) if tier_big else sorted({1, n})
        for j in js:
            for which in ([[d] for d in dts] + ([dts] if len(dts) > 1 else [])):
                out.append({"cfg": cfg, "dtypes": which, "j": j})
    return out


def run_case(case, scratch_root):
    """-> (key for the distribution, None | (what, replay))"""
    runner.quiet_logs()
    cfg = case["cfg"]
    root = tempfile.mkdtemp(prefix="left_", dir=scratch_root)
    scratch = tempfile.mkdtemp(prefix="logs_", dir=scratch_root)
    try:
        left = plant(root, cfg, case["dtypes"], case["j"])
        n_md = sum(1 for fs in left.values() for f in fs if f.startswith("metadata_"))
        r = runner.run_make(root, cfg, {}, scratch)
        orc = runner.oracle_rows(cfg)
        obs = runner.observe(root, cfg, orc)
        target = cfg.get("target") or graphs.target(cfg["graph"])
        rep = {"unit": UNIT, "input": {"cfg": cfg, "abandoned_forked_savers": case["dtypes"], "chunks_saved_each": case["j"],
                                       "left_in_temp": left},
               "outcome": r["outcome"], "exc": r["exc"], "observed": obs}
        key = "%s/j%d/%ddt/%s" % (cfg["graph"] + ("/st" if cfg["proc"] == "single_thread" else "/tm"), case["j"],
                                  len(case["dtypes"]), r["outcome"])
        nontrivial = n_md >= 1
        if r["outcome"] != "ok":
            return key, nontrivial, ("the identical request after the death of a forked saver does not succeed without manual "
                                     "cleanup: %s %s" % (r["outcome"], r["exc"][:200]), rep)
        for d, o in obs.items():
            if o["stored"] is True and o["load"] != "ok":
                return key, nontrivial, ("%s is reported stored after the retry but does not load as the correct data: %s"
                                         % (d, o["load"]), rep)
            if o["stored"] not in (True, False):
                return key, nontrivial, ("is_stored(%s) %s" % (d, o["stored"]), rep)
        if obs[target]["stored"] is not True:
            return key, nontrivial, ("the retried request returned normally but its target %s is not stored" % target, rep)
        return key, nontrivial, None
    finally:
        shutil.rmtree(root, ignore_errors=True)
        shutil.rmtree(scratch, ignore_errors=True)
