"""C13 — production is limited by demand and buffer capacity (backpressure).

The real strax.ThreadedMailboxProcessor, built from ProcessorComponents over real strax plugins (chains,
diamonds, multi-output plugins with saved / discarded side outputs, loaders, in-memory or DataDirectory
savers; also through Context.get_iter), runs under the controlled scheduler (harness/sched).  The consumer
takes p chunks and pauses; every other thread runs until nothing can run (quiescence is detected by the
scheduler, never by a timeout).  The same schedule is fed to the extracted Coq network model
(coq/Model/MailboxNet.v) and the observations are compared after every step.  Independently of the model
the property's own predicates are evaluated on every implementation run:

  P1  the number of source advances at quiescence is the same for runs of N and 2N source chunks
      (the N-run's schedule is replayed on the 2N-run, which must come to rest at the same point);
  P2  it is at most the bound (B_chain / B_fanout of Props/C13.v for chains / fan-outs; the maximum over
      all schedules of the model's state graph for the small configurations);
  P3  no mailbox ever holds more than max_messages undelivered messages;
  P0  the pipeline does not come to rest while the consumer is still asking (no stall);
  P4  lazy mode: every source advance happens while _can_fetch() is true: a driving subscriber waits and
      nobody waits for a message that is already in the mailbox.
Finding F1 (design_notes/C13.md; fixed in /repo by ede7cda): before the fix _can_fetch compared with the
lowest buffered number, and P4 failed whenever a mailbox had a second, slower subscriber.  Its deterministic
witness schedule is replayed on every run; if it is reproduced (a revert) that is a VIOLATION.
"""
import json
import logging
import os
import sys
import threading
from functools import partial

import numpy as np
import strax
import strax.mailbox

from harness import lib
from harness.sched import explore_dfs, run_schedule
from harness.sched.core import pool_threads, shutdown_pool

MODEL_PROPS = ["C13"]
LEVEL = "proof"

BIG_TIMEOUT = 10 ** 9
CODE = {"runnable": 0, "blocked": 1, "done": 2, "dead": 3, "new": 4}

# ------------------------------------------------------------------------------------------
# plugin graphs
# ------------------------------------------------------------------------------------------
# graph = {"nodes": [{"cls": str, "provides": [int], "deps": [int], "mm": int|None}], "target": int,
#          "loaders": [int], "savers": {int: n}}        data type i is called "d<i>"
# The first node(s) without deps are source plugins.


def dname(i):
    return "d%d" % int(i)


def G(nodes, target, loaders=(), savers=None):
    return {"nodes": [{"cls": "P%d" % k, "provides": list(n[0]), "deps": list(n[1]),
                       "mm": (n[2] if len(n) > 2 else None)} for k, n in enumerate(nodes)],
            "target": target, "loaders": list(loaders), "savers": dict(savers or {})}


def chain(L, savers=None, loaders=(), mm=None):
    """source d0 -> d1 -> ... -> d(L-1); L senders"""
    nodes = [([0], [])] + [([i], [i - 1]) for i in range(1, L)]
    if mm:
        nodes = [n + (mm.get(k),) for k, n in enumerate(nodes)]
    return G(nodes, L - 1, loaders, savers)


def diamond(savers=None):
    """d0 -> d1, d0 -> d2, (d1, d2) -> d3"""
    return G([([0], []), ([1], [0]), ([2], [0]), ([3], [1, 2])], 3, (), savers)


def fanout(k, target=1, savers=None, tail=False, loaders=()):
    """d0 -> multi-output (d1..dk); the target is one output, the others are saved or discarded"""
    nodes = [([0], []), (list(range(1, k + 1)), [0])]
    if tail:
        nodes.append(([k + 1], [target]))
        target = k + 1
    return G(nodes, target, loaders, savers)


def fan_join(savers=None):
    """d0 -> multi-output (d1, d2); (d1, d2) -> d3: both outputs required, d2 flows freely by construction"""
    return G([([0], []), ([1, 2], [0]), ([3], [1, 2])], 3, (), savers)


# ------------------------------------------------------------------------------------------
# real strax objects for a graph
# ------------------------------------------------------------------------------------------
CUR = {"N": 0, "counts": {}, "gates": [], "proc": None, "sched": None}
_CTX_CACHE = {}


def _rows(i):
    r = np.zeros(1, strax.time_fields)
    r["time"] = 10 * i
    r["endtime"] = 10 * i + 1
    return r


def _advance(d):
    """called at every advance of the source of data type d (compute of a source plugin / next of a loader)"""
    CUR["counts"][d] = CUR["counts"].get(d, 0) + 1
    proc, sched = CUR["proc"], CUR["sched"]
    if proc is not None and proc.mailboxes[d].lazy and not CUR.get("warm"):
        m = proc.mailboxes[d]
        waiting, drive = m._subscriber_waiting_for, m._subscriber_can_drive
        nums = [n for n, _ in m._mailbox]
        low = min(nums) if nums else None
        CUR["gates"].append((len(sched.schedule) - 1, d, int(bool(m._can_fetch())),
                             int(any(c and w is not None for c, w in zip(drive, waiting))),
                             int(not (nums and any(w is not None and w <= low for w in waiting))),
                             int(not any(w is not None and w in nums for w in waiting))))


def make_classes(graph):
    classes = []
    for node in graph["nodes"]:
        prov = tuple(dname(i) for i in node["provides"])
        deps = tuple(dname(i) for i in node["deps"])
        ns = {"depends_on": deps, "rechunk_on_save": False, "save_when": strax.SaveWhen.NEVER,
              "max_messages": node["mm"], "parallel": False, "__version__": "0"}
        if len(prov) == 1:
            ns["provides"] = prov[0]
            ns["dtype"] = strax.time_fields
            ns["data_kind"] = prov[0]
        else:
            ns["provides"] = prov
            ns["dtype"] = {d: strax.time_fields for d in prov}
            ns["data_kind"] = {d: d for d in prov}
        if not deps:
            d0 = prov[0]

            def is_ready(self, chunk_i):
                return chunk_i < CUR["N"]

            def source_finished(self):
                return True

            def compute(self, chunk_i, d0=d0):
                _advance(d0)
                return self.chunk(start=10 * chunk_i, end=10 * chunk_i + 10, data=_rows(chunk_i))
            ns.update(is_ready=is_ready, source_finished=source_finished, compute=compute)
        elif len(prov) == 1:
            def compute(self, **kw):
                x = kw[sorted(kw)[0]]
                r = np.zeros(len(x), strax.time_fields)
                r["time"], r["endtime"] = x["time"], x["endtime"]
                return r
            ns["compute"] = compute
        else:
            def compute(self, prov=prov, **kw):
                x = kw[sorted(kw)[0]]
                out = {}
                for d in prov:
                    r = np.zeros(len(x), strax.time_fields)
                    r["time"], r["endtime"] = x["time"], x["endtime"]
                    out[d] = r
                return out
            ns["compute"] = compute
        classes.append(type(node["cls"], (strax.Plugin,), ns))
    return classes


class MemSaver(strax.Saver):
    """In-memory saver: the real Saver.save_from / save / close with storage kept in a list."""
    allow_rechunk = False

    def __init__(self):
        super().__init__({"run_id": "0"})
        self.stored = []

    def _save_chunk(self, data, chunk_info, executor=None):
        self.stored.append(len(data))
        return {}, None

    def _save_chunk_metadata(self, chunk_info):
        self.md["chunks"].append(chunk_info)

    def _close(self):
        pass


def graph_key(graph):
    return json.dumps(graph, sort_keys=True)


def get_context(graph, storage=None):
    key = (graph_key(graph), storage)
    st = _CTX_CACHE.get(key)
    if st is None:
        st = strax.Context(storage=[strax.DataDirectory(storage)] if storage else [],
                           register=make_classes(graph), timeout=BIG_TIMEOUT)
        st.log.disabled = True
        _CTX_CACHE[key] = st
    return st


def build_components(graph):
    """ProcessorComponents for the graph: plugins from a real Context (so instances, dependency wiring and
    iteration order are strax's own), loaders and savers made by hand."""
    st = get_context(graph)
    comps = st.get_components("0", dname(graph["target"]))
    plugins = dict(comps.plugins)
    loaders, loader_plugins = {}, {}
    if graph["loaders"]:
        loaded = [dname(i) for i in graph["loaders"]]
        needed, todo = set(), [dname(graph["target"])]
        while todo:
            d = todo.pop()
            if d in needed or d in loaded:
                continue
            needed.add(d)
            todo += list(plugins[d].depends_on)
        for d in loaded:
            p = plugins[d]

            def loader(executor=None, d=d, p=p):
                for i in range(CUR["N"]):
                    _advance(d)
                    yield strax.Chunk(start=10 * i, end=10 * i + 10, data=_rows(i), data_type=d,
                                      data_kind=p.data_kind_for(d), dtype=p.dtype_for(d), run_id="0",
                                      target_size_mb=p.chunk_target_size_mb)
            loaders[d] = loader
            loader_plugins[d] = p
        plugins = {d: p for d, p in plugins.items() if d in needed}
    savers = {dname(i): [MemSaver() for _ in range(n)] for i, n in sorted(graph["savers"].items(),
                                                                           key=lambda kv: int(kv[0]))}
    return strax.ProcessorComponents(plugins=plugins, loaders=loaders, loader_plugins=loader_plugins,
                                     savers=savers, targets=(dname(graph["target"]),))


def conf_tokens(comps, lazy, cap, p, N, single=1):
    """the model driver's configuration line for real ProcessorComponents"""
    num = lambda d: int(d[1:])
    plist, defs = [], []
    for d, pl in comps.plugins.items():
        q = next((k for k, x in enumerate(defs) if x is pl), None)
        if q is None:
            q = len(defs)
            defs.append(pl)
        plist.append((num(d), q))
    toks = [len(plist)]
    for d, q in plist:
        toks += [d, q]
    toks.append(len(defs))
    for pl in defs:
        prov = [num(d) for d in pl.provides]
        deps = [num(d) for d in pl.depends_on]
        toks += [len(prov)] + prov + [len(deps)] + deps + [-1 if pl.max_messages is None else pl.max_messages]
    ld = [num(d) for d in comps.loaders]
    toks += [len(ld)] + ld
    sv = [(num(d), len(s)) for d, s in comps.savers.items()]
    toks.append(len(sv))
    for d, n in sv:
        toks += [d, n]
    toks += [num(comps.targets[0]), int(bool(lazy)), single, cap, p, N]
    return toks, [type(pl).__name__ for pl in defs]


def parse_wire(out, clsnames):
    """-> (mailboxes [(name, cap, lazy, drives)], threads [(real thread name, description)])"""
    mb_part, th_part = out.split(" # ")
    mbs = []
    for s in mb_part.split(" ; "):
        v = [int(x) for x in s.split()]
        name = dname(v[1]) if v[0] == 0 else clsnames[v[1]] + "_divide_outputs"
        mbs.append((name, v[2], v[3], v[4:]))
    ths = []
    for s in th_part.split(" ; "):
        desc, prog = s.split(" : ")
        t = desc.split()
        if t[0] == "load":
            name = "load:" + dname(int(t[1]))
        elif t[0] == "build":
            name = "build:" + dname(int(t[1]))
        elif t[0] == "mo":
            name = "divide_outputs:" + dname(int(t[1]))
        elif t[0] == "div":
            name = "read_0:%s_divide_outputs_mailbox" % clsnames[int(t[1])]
        elif t[0] == "save":
            name = "save_%d:%s" % (int(t[2]), dname(int(t[1])))
        elif t[0] == "discard":
            name = "discard_" + dname(int(t[1]))
        else:
            name = "consumer"
        ths.append((name, desc, prog))
    return mbs, ths


# ------------------------------------------------------------------------------------------
# the real processor under the controlled scheduler
# ------------------------------------------------------------------------------------------
# case = {"graph": graph, "lazy": bool, "cap": int, "p": int, "N": int, "via": "components" | "context",
#         "store": [int] (via context: data types saved by real DataDirectory savers)}

class _Captured:
    proc = None


def _tmpdir():
    import tempfile
    return tempfile.mkdtemp(prefix="c13_", dir=os.environ.get("TMPDIR", "/tmp"))


def context_for(case, tmp):
    """a real Context for the case: DataDirectory storage in tmp, save_when ALWAYS for the stored data types"""
    import immutabledict
    graph = case["graph"]
    store = [dname(i) for i in case.get("store", [])]
    classes = make_classes(graph)
    for c in classes:
        prov = strax.to_str_tuple(c.provides)
        if any(d in store for d in prov):
            c.save_when = strax.SaveWhen.ALWAYS if len(prov) == 1 else immutabledict.immutabledict(
                {d: (strax.SaveWhen.ALWAYS if d in store else strax.SaveWhen.NEVER) for d in prov})
    st = strax.Context(storage=[strax.DataDirectory(tmp)] if tmp else [], register=classes,
                       timeout=BIG_TIMEOUT, allow_lazy=case["lazy"], max_messages=case["cap"])
    st.log.disabled = True
    return st


class NetSystem:
    def __init__(self, sched, case):
        self.sched, self.case = sched, case
        sched.patch(strax.mailbox)
        CUR.update(N=case["N"], counts={}, gates=[], proc=None, sched=sched, warm=True)
        p = case["p"]
        self.got = []
        self.tmp = None
        sysobj = self
        if case.get("via") == "context":
            # Context.get_iter builds the components and the processor itself (at the first next());
            # the instance is captured by a spy on the constructor
            self.tmp = _tmpdir() if case.get("store") else None
            st = context_for(case, self.tmp)
            captured = {}
            orig_init = strax.ThreadedMailboxProcessor.__init__

            def spy_init(this, components, *a, **kw):
                orig_init(this, components, *a, **kw)
                captured["proc"], captured["comps"] = this, components
                for m in this.mailboxes.values():
                    m.log.disabled = True
                this.log.disabled = True
                CUR["proc"] = this

            def consumer():
                it = st.get_iter("0", dname(case["graph"]["target"]), processor="threaded_mailbox",
                                 progress_bar=False)
                sysobj.it = it
                for _ in range(p):
                    sysobj.got.append(next(it))
                sched.block_until(lambda: False, "consumer paused")
            self.consumer = sched.threading.Thread(target=consumer, name="consumer")
            self.consumer.start()
            strax.ThreadedMailboxProcessor.__init__ = spy_init
            try:
                self._start_consumer()
            finally:
                strax.ThreadedMailboxProcessor.__init__ = orig_init
            self.proc, self.comps = captured["proc"], captured["comps"]
        else:
            comps = build_components(case["graph"])
            self.comps = comps
            self.proc = strax.ThreadedMailboxProcessor(comps, allow_lazy=case["lazy"], max_messages=case["cap"],
                                                       timeout=BIG_TIMEOUT, max_workers=None)
            proc = self.proc
            for m in proc.mailboxes.values():
                m.log.disabled = True
            proc.log.disabled = True
            CUR["proc"] = proc

            def consumer():
                it = proc.iter()
                sysobj.it = it
                for _ in range(p):
                    sysobj.got.append(next(it))
                sched.block_until(lambda: False, "consumer paused")
            self.consumer = sched.threading.Thread(target=consumer, name="consumer")
            self.consumer.start()
            self._start_consumer()
        # warm-up: every other thread runs its thread-local prologue up to its first lock acquisition
        ctid = self.consumer.tid
        todo = iter([t for t in range(len(sched.threads)) if t != ctid])
        sched.run_driver(lambda s: next(todo, None))
        self.ntid = len(sched.threads)
        del sched.schedule[:]
        CUR["warm"] = False
        self.names = [t.name for t in sched.threads]
        self.maxbox = {k: len(m._mailbox) for k, m in self.proc.mailboxes.items()}

    def _start_consumer(self):
        """the consumer subscribes to the target mailbox (one lock region), starts the mailbox threads and
        parks at the first lock acquisition of Mailbox._read"""
        sched, ctid = self.sched, self.consumer.tid
        for _ in range(200):       # through Context.get_iter the constructor's subscribe() calls are steps too
            others = [t for t in sched.threads if t.tid != ctid]
            if others and all(t.state != "new" for t in others):
                return
            sched.step(ctid)
        raise RuntimeError("the consumer did not start the mailbox threads")

    # ---- binding to the model's thread / mailbox order
    def bind(self, mbs, ths):
        tid_of = {}
        for k, (name, _, _) in enumerate(ths):
            if name not in self.names:
                return "the processor has no thread named %r (threads: %s)" % (name, self.names)
            tid_of[k] = self.names.index(name)
        if sorted(tid_of.values()) != list(range(self.ntid)):
            return "thread sets differ: processor %s, model %s" % (self.names, [t[0] for t in ths])
        self.tid_of = tid_of
        self.mid_of = {v: k for k, v in tid_of.items()}
        self.mb_order = [name for name, _, _, _ in mbs]
        for name in self.mb_order:
            if name not in self.proc.mailboxes:
                return "the processor has no mailbox %r (mailboxes: %s)" % (name, list(self.proc.mailboxes))
        if len(self.mb_order) != len(self.proc.mailboxes):
            return "mailbox sets differ: processor %s, model %s" % (list(self.proc.mailboxes), self.mb_order)
        return None

    def wiring_diff(self, mbs, ths, lazy):
        """compare the constructed processor with the model's expected wiring (after the consumer subscribed)"""
        for name, cap, lz, drives in mbs:
            m = self.proc.mailboxes[name]
            if m.max_messages != cap:
                return "mailbox %s: max_messages %s, expected %s" % (name, m.max_messages, cap)
            if [int(x) for x in m._subscriber_can_drive] != list(drives):
                return "mailbox %s: can_drive %s, expected %s" % (name, m._subscriber_can_drive, drives)
            if bool(m.lazy) != bool(lazy):
                return "mailbox %s: lazy=%s, expected %s" % (name, m.lazy, lazy)
        idx = {name: k for k, name in enumerate(self.mb_order)}
        for name, desc, prog in ths:
            if desc.startswith("div"):
                t = self.sched.threads[self.names.index(name)]
                kw = getattr(t._target, "keywords", None) or {}
                outs = [idx[d] for d in kw.get("outputs", ())]
                gated = [idx[d] for d in kw.get("outputs", ()) if d not in kw.get("flow_freely", ())]
                ops = prog.split()[1:]
                m_gated = [int(o[1:]) for o in ops if o[0] == "G"]
                m_outs = [int(o[1:]) for o in ops if o[0] == "S"]
                if outs != m_outs:
                    return "%s sends to %s, expected %s" % (name, outs, m_outs)
                if bool(kw.get("lazy")) != bool(lazy):
                    return "%s lazy=%s expected %s" % (name, kw.get("lazy"), lazy)
                if lazy and gated != m_gated:
                    return "%s is gated by %s, expected %s (flow_freely=%s)" % (
                        name, gated, m_gated, sorted(kw.get("flow_freely", ())))
        return None

    def observe(self):
        s = self.sched
        for k, m in self.proc.mailboxes.items():
            n = len(m._mailbox)
            if n > self.maxbox[k]:
                self.maxbox[k] = n
        if not hasattr(self, "tid_of"):
            return None
        o = [CODE[s.status(self.tid_of[k])] for k in range(self.ntid)]
        for name in self.mb_order:
            m = self.proc.mailboxes[name]
            o += [len(m._mailbox), m._n_sent, int(m.closed)] + [x + 1 for x in m._subscribers_have_read]
        return " ".join(map(str, o))

    def final_info(self):
        s = self.sched
        return {"status": [s.status(t) for t in range(self.ntid)], "names": self.names,
                "exc": [type(t.exc).__name__ if t.exc is not None else None for t in s.threads],
                "counts": dict(CUR["counts"]), "gates": list(CUR["gates"]), "maxbox": dict(self.maxbox),
                "caps": {k: m.max_messages for k, m in self.proc.mailboxes.items()},
                "got": len(self.got)}

    def close(self):
        CUR["proc"] = None
        if self.tmp:
            import shutil
            self._tmp_to_remove = self.tmp


def cleanup_tmp(system):
    tmp = getattr(system, "_tmp_to_remove", None)
    if tmp:
        import shutil
        shutil.rmtree(tmp, ignore_errors=True)


# ------------------------------------------------------------------------------------------
# one case: wiring, runs, comparisons, predicates
# ------------------------------------------------------------------------------------------

def sources_of(comps):
    """data types fed by a loader or a plugin without dependencies"""
    out = list(comps.loaders)
    for d, p in comps.plugins.items():
        if not p.depends_on:
            out += [x for x in p.provides if x not in out]
    return out


def model_conf(case, N=None):
    """(tokens, plugin class names, components) for the case (components are built outside a scheduler)"""
    CUR.update(N=N or case["N"], counts={}, gates=[], proc=None, warm=True)
    if case.get("via") == "context":
        tmp = _tmpdir() if case.get("store") else None
        try:
            st = context_for(case, tmp)
            comps = st.get_components("0", dname(case["graph"]["target"]))
            for svs in comps.savers.values():
                for s in svs:
                    try:
                        s.close()
                    except Exception:
                        pass
        finally:
            if tmp:
                import shutil
                shutil.rmtree(tmp, ignore_errors=True)
    else:
        comps = build_components(case["graph"])
    toks, cls = conf_tokens(comps, case["lazy"], case["cap"], case["p"], N or case["N"])
    return toks, cls, comps


def line(cmd, toks, extra=()):
    return " ".join([cmd] + [str(t) for t in toks] + [str(x) for x in extra])


def valid_comps_failure(comps):
    """The hypothesis of C13_wire_wellformed (Proof/MailboxNetWire.v: valid_comps) evaluated on real
    ProcessorComponents: every mailbox gets exactly one sender and every plugin is listed under data types it
    provides.  Returns None or a description."""
    keys = [("KD", d) for d in comps.loaders]
    seen = []
    for d, pl in comps.plugins.items():
        if d not in pl.provides:
            return "plugin %s is listed under %s which it does not provide" % (type(pl).__name__, d)
        if any(pl is x for x in seen):
            continue
        seen.append(pl)
        if len(pl.provides) > 1:
            keys.append(("KM", len(seen) - 1))
            keys += [("KD", x) for x in pl.provides if x not in comps.loaders]
        else:
            keys.append(("KD", d))
    dup = sorted({k for k in keys if keys.count(k) > 1})
    if dup:
        return "mailboxes with more than one sender: %s" % dup
    return None


class CaseRunner:
    """Everything for one case inside one worker process."""

    def __init__(self, case):
        self.case = case
        self.toks, self.cls, comps = model_conf(case)
        self.invalid = valid_comps_failure(comps)
        self.sources = sources_of(comps)
        self.toks2 = list(self.toks)
        self.toks2[-1] = 2 * case["N"]
        self.mbs, self.ths = parse_wire(lib.run_model("C13", [line("wire", self.toks)])[0], self.cls)
        self.wiring_problem = None
        self.checked_wiring = False

    def factory(self, N=None):
        case = dict(self.case)
        if N is not None:
            case["N"] = N

        def fac(sched):
            system = NetSystem(sched, case)
            err = system.bind(self.mbs, self.ths)
            if err is None and not self.checked_wiring:
                err = system.wiring_diff(self.mbs, self.ths, self.case["lazy"])
                self.checked_wiring = True
            if err is not None:
                self.wiring_problem = err
                # fall back to the processor's own order so that the run can still be judged
                system.tid_of = {k: k for k in range(system.ntid)}
                system.mid_of = dict(system.tid_of)
                system.mb_order = list(system.proc.mailboxes)
            return system
        return fac

    # -- schedules are stored in real tids; the model wants its own thread indices
    def to_model(self, system_mid_of, schedule):
        return [system_mid_of[t] for t in schedule]


def run_to_rest(fac, choose, max_steps=20000):
    """run a fresh system until nothing is enabled; choose(enabled, last) picks the next thread"""
    holder = {}

    def fac2(sched):
        holder["sys"] = fac(sched)
        return holder["sys"]
    res = run_schedule(fac2, [], extend=choose, max_steps=max_steps)
    return res, holder["sys"]


def replay_on(fac, schedule, max_steps=20000):
    holder = {}

    def fac2(sched):
        holder["sys"] = fac(sched)
        return holder["sys"]
    res = run_schedule(fac2, list(schedule), max_steps=max_steps)
    return res, holder["sys"]


def predicates(case, res, sources, bound=None, qrange=None, strong=False):
    """P2..P4 on one implementation run that came to rest; returns a description of the failure or None"""
    info = res.system_info
    if res.outcome == "limit":
        return "the pipeline did not come to rest within the step limit"
    for t, (stt, exc) in enumerate(zip(info["status"], info["exc"])):
        if stt == "dead":
            return "thread %s died with %s" % (info["names"][t], exc)
    for k, n in info["maxbox"].items():
        if n > info["caps"][k]:
            return "P3: mailbox %s held %d undelivered messages, max_messages %s" % (k, n, info["caps"][k])
    p = case["p"]
    if info["got"] < min(p, case["N"]):
        return ("P0: the pipeline came to rest although the consumer is still asking: it received %d of the %d "
                "chunks it wants" % (info["got"], p))
    for d in sources:
        a = info["counts"].get(d, 0)
        if bound is not None and a > p + bound:
            return ("P2: source %s advanced %d times although the consumer stopped after %d chunks; "
                    "bound %d + %d" % (d, a, p, p, bound))
        if qrange is not None and d in qrange and qrange[d][1] >= 0 and a > qrange[d][1]:
            return ("P2: source %s advanced %d times although the consumer stopped after %d chunks; the model "
                    "never exceeds %d in any schedule" % (d, a, p, qrange[d][1]))
    if case["lazy"]:
        for (step, d, cf, drv, nle, npres) in info["gates"]:
            if not cf or not drv:
                return ("P4: source %s advanced at step %d while _can_fetch()=%s (a driving subscriber waits: %s)"
                        % (d, step, bool(cf), bool(drv)))
            if not npres:
                return ("P4: source %s advanced at step %d while a subscriber was waiting for a message that is "
                        "already in the mailbox" % (d, step))
    return None


class Binding:
    """what the comparison needs from a system after its scheduler is gone"""

    def __init__(self, system):
        self.names, self.mid_of, self.tid_of, self.mb_order = system.names, system.mid_of, system.tid_of, system.mb_order


def compare_batch(runner, items):
    """items: [(toks, Binding, RunResult)].  Step-by-step comparison of implementation runs with the extracted
    model (one driver process for all of them).  Returns [None | description] per item."""
    lines = []
    for toks, bnd, res in items:
        msched = [bnd.mid_of[t] for t in res.schedule]
        lines.append(line("run", toks, [len(msched)] + msched))
        if runner.case["lazy"]:
            lines.append(line("gates", toks, [len(msched)] + msched))
    outs = iter(lib.run_model("C13", lines))
    verdicts = []
    for toks, bnd, res in items:
        out = next(outs)
        gout = next(outs) if runner.case["lazy"] else None
        verdicts.append(_compare_one(runner, bnd, res, out, gout))
    return verdicts


def _compare_one(runner, system, res, out, gout):
    body, tail = out.split(" # ")
    parts = [x.strip() for x in body.split(" | ")] if body.strip() else []
    if parts and parts[-1].startswith("DISABLED"):
        pos = int(parts[-1].split()[1])
        return "model: thread %s scheduled at step %d is not enabled; the implementation ran it" % (
            system.names[res.schedule[pos]], pos)
    for i, (a, b) in enumerate(zip(res.obs, parts)):
        if a != b:
            return "step %d (thread %s): implementation observes [%s], model [%s]" % (
                i, system.names[res.schedule[i]], a, b)
    tt = tail.split()
    q = tt[0]
    en = tt[1:tt.index("A")]
    adv = [int(x) for x in tt[tt.index("A") + 1:]]
    if res.outcome in ("deadlock", "complete"):
        if q != "Q":
            return "the implementation is at rest, the model still enables threads %s" % (
                [system.names[system.tid_of[int(x)]] for x in en],)
    info = res.system_info
    for d in runner.sources:
        k = system.mb_order.index(d) if d in system.mb_order else None
        if k is not None and adv[k] != info["counts"].get(d, 0):
            return "source %s advanced %d times, the model says %d" % (d, info["counts"].get(d, 0), adv[k])
    if gout is not None:
        mg = []
        for g in [x.strip() for x in gout.split(" | ") if x.strip() and not x.strip().startswith("DISABLED")]:
            v = [int(x) for x in g.split()]
            name = system.mb_order[v[1]]
            if name in runner.sources:
                mg.append((v[0], name) + tuple(v[2:]))
        ig = [tuple(g) for g in info["gates"]]
        if sorted(mg) != sorted(ig):
            return "fetch-gate views differ: implementation %s, model %s" % (sorted(ig)[:6], sorted(mg)[:6])
    return None


def compare_with_model(runner, toks, system, res):
    return compare_batch(runner, [(toks, Binding(system), res)])[0]


def exec_task(task):
    """One exploration task in a worker process.  Returns a JSON-able summary."""
    import random
    import time
    t0 = time.time()
    case = task["case"]
    if task["kind"] == "f1":
        bad, info, schedule, names = f1_witness()
        return {"case": case, "kind": "f1", "bad": bad, "counts": info["counts"], "gates": info["gates"],
                "schedule": schedule, "names": names}
    runner = CaseRunner(case)
    N = case["N"]
    out = {"case": case, "kind": task["kind"], "runs": 0, "steps": 0, "nontrivial": 0, "failures": [],
           "disagreements": [], "n_failures": 0, "n_disagreements": 0, "saturated": 0, "adv": {},
           "wiring": None, "explore": None, "sample": None, "hashes": []}
    # exact model range over all schedules (small configurations)
    qrange = None
    if task.get("explore"):
        eo = lib.run_model("C13", [line("explore", runner.toks, [task["explore"]]),
                                   line("explore", runner.toks2, [task["explore"]])])
        per = []
        for o in eo:
            head, *rest = o.split(" ; ")
            h = [int(x) for x in head.split()]
            per.append((h, [[int(x) for x in r.split()] for r in rest]))
        (h1, r1), (h2, r2) = per
        out["explore"] = {"states": h1[0], "edges": h1[1], "truncated": h1[2], "quiescent": h1[3],
                          "states_2N": h2[0], "truncated_2N": h2[2]}
        if not h1[2] and not h2[2]:
            names = [m[0] for m in runner.mbs]
            qrange = {names[k]: (r1[k][0], r1[k][1]) for k in range(len(names))}
            for k, nm in enumerate(names):
                if nm in runner.sources and r1[k][2] < N and (r1[k][:3] != r2[k][:3]):
                    out["disagreements"].append({"what": "model: the range of source advances of %s depends on the "
                                                 "run length: N=%d %s, 2N %s" % (nm, N, r1[k], r2[k]), "schedule": []})
            out["explore"]["qrange"] = {nm: qrange[nm] for nm in runner.sources if nm in qrange}
    bound = task.get("bound")
    rng = random.Random(task.get("seed", 0))
    results = []
    pending = []

    def judge(res, system, toksN, note=""):
        out["runs"] += 1
        out["steps"] += len(res.schedule)
        if res.outcome not in ("deadlock", "complete", "limit"):
            out["disagreements"].append({"what": "harness: run ended with %s %s" % (res.outcome, res.error),
                                         "schedule": res.schedule})
            return
        f = predicates(case, res, runner.sources, bound=bound, qrange=qrange)
        sf = None
        if f:
            out["n_failures"] += 1
            if len(out["failures"]) < 2:
                out["failures"].append({"what": f + note, "schedule": res.schedule, "names": system.names,
                                        "final": res.system_info})
        elif sf:
            out.setdefault("strong", []).append({"what": sf, "schedule": res.schedule, "names": system.names})
        if task.get("compare", True):
            pending.append((toksN, Binding(system), res))

    def one_pair(choose):
        res, system = run_to_rest(runner.factory(N), choose)
        cleanup_tmp(system)
        judge(res, system, runner.toks)
        info = res.system_info
        if res.outcome not in ("deadlock", "complete"):
            return res
        advN = {d: info["counts"].get(d, 0) for d in runner.sources}
        for d, a in advN.items():
            out["adv"][str(a - case["p"])] = out["adv"].get(str(a - case["p"]), 0) + 1
        if any(a >= N for a in advN.values()):
            out["saturated"] += 1
            return res
        # P1: the same schedule on a run twice as long must come to rest at the same point
        res2, system2 = replay_on(runner.factory(2 * N), res.schedule)
        cleanup_tmp(system2)
        out["runs"] += 1
        out["steps"] += len(res2.schedule)
        adv2 = {d: res2.system_info["counts"].get(d, 0) for d in runner.sources}
        f = None
        if res2.outcome == "not-enabled":
            f = "P1: the schedule of the %d-chunk run cannot be replayed on the %d-chunk run: %s" % (N, 2 * N, res2.error)
        elif res2.outcome == "open":
            f = ("P1: after the schedule that brought the %d-chunk run to rest (sources advanced %s) the %d-chunk "
                 "run is still running: threads %s can run" % (N, advN, 2 * N,
                                                               [system2.names[t] for t in res2.enabled[-1]]
                                                               if res2.enabled else "?"))
        elif adv2 != advN:
            f = "P1: source advances at rest differ: %s for %d chunks, %s for %d chunks" % (advN, N, adv2, 2 * N)
        if f:
            out["n_failures"] += 1
            if len(out["failures"]) < 2:
                out["failures"].append({"what": f, "schedule": res.schedule, "names": system.names,
                                        "final": res2.system_info})
        if any(1 in [int(x) for x in o.split()[:system.ntid]] for o in res.obs if o) and info["got"] == case["p"]:
            out["nontrivial"] += 1
        return res

    if task["kind"] == "random":
        sticky = task.get("sticky", 0.0)
        for _ in range(task["n"]):
            def choose(en, last):
                if last is not None and last in en and sticky and rng.random() < sticky:
                    return last
                return en[rng.randrange(len(en))]
            r = one_pair(choose)
            results.append(r)
    elif task["kind"] == "adversarial":
        # deterministic adversaries: starve one thread as long as anything else can run
        nthreads = len(runner.ths)
        for victim in range(nthreads):
            for prefer_low in (True, False):
                def choose(en, last, victim=victim, prefer_low=prefer_low):
                    others = [t for t in en if t != victim]
                    pool = others or en
                    return pool[0] if prefer_low else pool[-1]
                r = one_pair(choose)
                results.append(r)
    elif task["kind"] == "dfs":
        holder = {}

        def fac(sched):
            holder["sys"] = runner.factory(N)(sched)
            return holder["sys"]
        n = 0
        for res in explore_dfs(fac, task["bound_pre"], max_runs=task["max_runs"], max_steps=20000):
            system = holder["sys"]
            cleanup_tmp(system)
            judge(res, system, runner.toks)
            n += 1
            if res.outcome in ("deadlock", "complete"):
                out["nontrivial"] += 1
            results.append(res)
        out["truncated"] = n >= task["max_runs"]
    for (toksN, bnd, res), d in zip(pending, compare_batch(runner, pending) if pending else []):
        if d:
            out["n_disagreements"] += 1
            if len(out["disagreements"]) < 2:
                out["disagreements"].append({"what": d, "schedule": res.schedule, "names": bnd.names})
    out["wiring"] = runner.wiring_problem or (
        ("components outside valid_comps (hypothesis of C13_wire_wellformed): " + runner.invalid) if runner.invalid else None)
    import zlib
    out["hashes"] = sorted({zlib.crc32(repr(r.schedule).encode()) for r in results})
    if results:
        r = results[len(results) // 2]
        out["sample"] = {"case": tag(case), "schedule_len": len(r.schedule), "outcome": r.outcome,
                         "source_advances": r.system_info["counts"] if r.system_info else None,
                         "max_mailbox": r.system_info["maxbox"] if r.system_info else None}
    short = [(t_, b_, r_) for (t_, b_, r_) in pending if 0 < len(r_.schedule) <= 40 and t_ is runner.toks]
    if short:
        t_, b_, r_ = short[len(short) // 2]
        out["xcheck"] = {"toks": list(t_), "msched": [b_.mid_of[x] for x in r_.schedule]}
    npool, busy = pool_threads()
    out["threads_left"] = len([t for t in threading.enumerate() if t.name != "tqdm_monitor"]) - 1 - npool + busy
    out["wall"] = round(time.time() - t0, 2)
    return out


def tag(case):
    g = case["graph"]
    shape = "+".join("%s<-%s" % (",".join(map(str, n["provides"])), ",".join(map(str, n["deps"]))) for n in g["nodes"])
    return "%s target d%d%s%s %s cap%d p%d N%d%s" % (
        shape, g["target"], " loaders%s" % g["loaders"] if g["loaders"] else "",
        " savers%s" % g["savers"] if g["savers"] else "", "lazy" if case["lazy"] else "eager",
        case["cap"], case["p"], case["N"], " via-context store%s" % case.get("store") if case.get("via") == "context" else "")


# ------------------------------------------------------------------------------------------
# worker processes
# ------------------------------------------------------------------------------------------
def _silence():
    logging.disable(logging.CRITICAL)
    sys.unraisablehook = lambda *a: None
    dn = os.open(os.devnull, os.O_WRONLY)
    os.dup2(dn, 1)
    os.dup2(dn, 2)


def _worker_init():
    _silence()


def _safe_exec(task):
    try:
        return exec_task(task)
    except Exception:
        import traceback
        return {"case": task["case"], "kind": task["kind"], "crash": traceback.format_exc()[-2500:]}


def run_tasks(tasks, nproc=None):
    import multiprocessing as mp
    nproc = nproc or min(16, os.cpu_count() or 4)
    ctxm = mp.get_context("fork")
    order = sorted(range(len(tasks)), key=lambda i: -tasks[i].get("weight", 1))
    with ctxm.Pool(min(nproc, max(1, len(tasks))), initializer=_worker_init) as pool:
        res = pool.map(_safe_exec, [tasks[i] for i in order], chunksize=1)
    out = [None] * len(tasks)
    for i, r in zip(order, res):
        out[i] = r
    return out


# ------------------------------------------------------------------------------------------
# what is explored
# ------------------------------------------------------------------------------------------
def is_chain(graph):
    ns = graph["nodes"]
    return (not graph["loaders"] and all(len(n["provides"]) == 1 for n in ns)
            and all(n["deps"] == ([] if k == 0 else [ns[k - 1]["provides"][0]]) for k, n in enumerate(ns))
            and graph["target"] == ns[-1]["provides"][0] and all(n["mm"] is None for n in ns))


def is_fanout(graph):
    ns = graph["nodes"]
    return (len(ns) == 2 and not ns[0]["deps"] and len(ns[0]["provides"]) == 1 and len(ns[1]["provides"]) > 1
            and ns[1]["deps"] == ns[0]["provides"] and graph["target"] in ns[1]["provides"]
            and not graph["loaders"] and all(n["mm"] is None for n in ns))


def coq_bound(case):
    """B of Props/C13.v for the shapes the theorems cover (relative to p), else None"""
    g, c = case["graph"], case["cap"]
    if not (is_chain(g) or is_fanout(g)):
        return None
    key = (len(g["nodes"]), c)
    if key not in _BOUNDS:
        b_chain, b_fanout = [int(x) for x in lib.run_model("C13", ["bounds %d %d" % key])[0].split()]
        _BOUNDS[key] = (b_chain, b_fanout)
    return _BOUNDS[key][0] if is_chain(g) else _BOUNDS[key][1]


_BOUNDS = {}


def build_tasks(ctx):
    big = ctx.thorough
    esc = ctx.escalated() and not big      # anchors / constants drifted: a larger quick budget
    rng = ctx.rng
    tasks = []

    def add(kind, graph, lazy, cap, p, N=None, **kw):
        case = {"graph": graph, "lazy": bool(lazy), "cap": cap, "p": p, "via": kw.pop("via", "components")}
        if "store" in kw:
            case["store"] = kw.pop("store")
        nn = len(graph["nodes"]) + 2
        case["N"] = N if N is not None else p + nn * (2 * cap + 2) + 3
        t = {"kind": kind, "case": case, "bound": coq_bound(case), "seed": rng.getrandbits(48)}
        t.update(kw)
        t.setdefault("weight", {"dfs": 10 ** 6, "random": 10 ** 3 * kw.get("n", 1), "adversarial": 10 ** 4}[kind])
        tasks.append(t)

    shapes = [("chain2", chain(2)), ("chain3", chain(3)), ("chain4", chain(4)),
              ("chain3+savers", chain(3, savers={1: 1})), ("chain3+savers2", chain(3, savers={0: 1, 2: 2})),
              ("chain3+loader", chain(3, loaders=[0])), ("chain3+convert", chain(3, loaders=[0], savers={0: 1})),
              ("chain3+mm", chain(3, mm={1: 1})),
              ("diamond", diamond()), ("diamond+savers", diamond(savers={1: 1, 2: 1})),
              ("fanout2", fanout(2)), ("fanout2+saved", fanout(2, savers={2: 1})),
              ("fanout3", fanout(3, target=2, savers={3: 1})), ("fanout2+tail", fanout(2, tail=True)),
              ("fanout2+tail+saved", fanout(2, tail=True, savers={1: 1, 2: 1})),
              ("fanjoin", fan_join()), ("fanjoin+saved", fan_join(savers={2: 1}))]
    # (1) exhaustive model ranges + adversarial and random schedules, every shape, capacities 1..4, both modes
    for name, g in shapes:
        for lazy in (False, True):
            for cap in (1, 2, 3, 4):
                small = len(g["nodes"]) <= 3 and cap <= 2 and sum(g["savers"].values()) <= 1
                for p in ((1, 2) if not big else (1, 2, 3)):
                    ex = (25000 if big else 6000) if (small and p <= 2 and (big or (p == 1 and (lazy or cap == 1)))) \
                        else None
                    if big or esc or (p == 1 and cap <= 2) or (p == 2 and cap == 3):
                        add("adversarial", g, lazy, cap, p, explore=ex)
                    if big or esc or (cap + p) % 2 == 0:
                        add("random", g, lazy, cap, p, n=(40 if big else 8 if esc else 5),
                            sticky=rng.choice([0.0, 0.5, 0.85]), explore=None)
    # (2) exhaustive enumeration with a preemption bound on the smallest configurations
    for g, lazy, cap, p, N, b in [(chain(2), False, 1, 1, 3, 2), (chain(2), True, 1, 1, 3, 2),
                                  (chain(2), False, 2, 1, 4, 1), (chain(3), True, 1, 1, 2, 1),
                                  (chain(2, savers={0: 1}), True, 1, 1, 3, 1), (fanout(2), True, 1, 1, 2, 1),
                                  (fanout(2), False, 1, 1, 2, 1), (diamond(), True, 1, 1, 2, 1)]:
        add("dfs", g, lazy, cap, p, N=N, bound_pre=(b + 1 if big else b), max_runs=(20000 if big else 600 if esc else 200))
    # (3) through a real Context.get_iter with DataDirectory savers
    for g, store in [(chain(3), [1]), (chain(2), []), (fanout(2, tail=True), [2]), (diamond(), [1])]:
        for lazy in (False, True):
            add("random", g, lazy, rng.randint(1, 3), rng.randint(1, 2), n=(12 if big else 3), sticky=0.5,
                via="context", store=store, weight=10 ** 5)
    tasks.append({"kind": "f1", "case": F1_CASE, "weight": 10 ** 7})
    return tasks


def run(ctx):
    import time
    ctx.coverage["rule"] = (
        "one evaluation = one execution of the real ThreadedMailboxProcessor under the controlled scheduler in "
        "which the consumer takes p chunks and pauses and every other thread runs until nothing can run, compared "
        "step by step with the extracted Coq network model and judged by P1-P4; every run that does not exhaust "
        "its source is repeated with twice as many source chunks under the same schedule (P1). non-trivial = the "
        "consumer received its p chunks and some thread had to wait; distinct by (configuration, schedule).")
    ctx.assumptions.append(
        "one scheduler step = one lock region of mailbox.py plus the lock-free code up to the next lock "
        "acquisition / wait (plugin compute, Plugin.iter bookkeeping, saver writes are lock-free and thread-local)")
    ctx.assumptions.append("harness plugins are 1:1 (one chunk out per chunk of every dependency, aligned chunk "
                           "boundaries); worker pools (max_workers > 1) are outside the model: lazy is off there")
    import resource
    tasks = build_tasks(ctx)
    t0 = time.time()
    c0 = resource.getrusage(resource.RUSAGE_CHILDREN)
    results = run_tasks(tasks)
    c1 = resource.getrusage(resource.RUSAGE_CHILDREN)
    cpu = (c1.ru_utime + c1.ru_stime) - (c0.ru_utime + c0.ru_stime)
    ctx.notes.append("exploration wall time %.1fs for %d tasks; CPU time of the worker processes %.1fs "
                     "(= %.1fs per core on 16 idle cores)" % (time.time() - t0, len(tasks), cpu, cpu / 16.0))
    walls = sorted((r.get("wall", 0) for r in results), reverse=True)
    ctx.notes.append("sum of task wall times %.1fs, longest task %.1fs" % (sum(walls), walls[0] if walls else 0))
    slow = sorted([r for r in results if "wall" in r], key=lambda r: -r["wall"])[:6]
    ctx.notes.append("slowest tasks: " + "; ".join("%s %s %d runs %.1fs" % (r["kind"], tag(r["case"]), r["runs"], r["wall"])
                                                   for r in slow))
    summarise(ctx, tasks, results)


def summarise(ctx, tasks, results):
    dist = {}
    seen = set()
    n_eval = n_nontriv = 0
    strong_hits = []
    concrete = False
    xchecks = []
    for r in results:           # the deterministic witness of finding F1 first
        if "crash" not in r and r["kind"] == "f1":
            report_f1(ctx, r)
    for t, r in zip(tasks, results):
        c = r["case"]
        if "crash" in r:
            ctx.violation("harness", "the harness crashed on %s: %s" % (tag(c), r["crash"][-400:]),
                          {"input": "corr:C13/harness-crash", "case": c, "traceback": r["crash"]},
                          no_failing_input=True)
            continue
        if r["kind"] == "f1":
            continue
        if r.get("xcheck"):
            xchecks.append(r["xcheck"])
        unit = unit_of(c)
        d = dist.setdefault(unit, {"tasks": 0, "runs": 0, "steps": 0, "saturated_runs": 0})
        d["tasks"] += 1
        d["runs"] += r["runs"]
        d["steps"] += r["steps"]
        d["saturated_runs"] += r["saturated"]
        for key in ("lazy" if c["lazy"] else "eager", "cap%d" % c["cap"], "p%d" % c["p"], r["kind"]):
            d[key] = d.get(key, 0) + r["runs"]
        for k, v in r["adv"].items():
            d["advances_beyond_p=%s" % k] = d.get("advances_beyond_p=%s" % k, 0) + v
        if r.get("explore"):
            d["model_states_explored"] = d.get("model_states_explored", 0) + r["explore"]["states"]
            if r["explore"]["truncated"] or r["explore"]["truncated_2N"]:
                d["model_graphs_truncated"] = d.get("model_graphs_truncated", 0) + 1
        hs = {(tag(c), h) for h in r["hashes"]}
        new = hs - seen
        seen |= hs
        nt = min(r["nontrivial"], len(new))
        n_eval += r["runs"]
        n_nontriv += nt
        ctx.count(unit, r["runs"], nt)
        if r["sample"]:
            ctx.sample(r["sample"])
        if r["threads_left"]:
            ctx.violation("harness", "the controlled scheduler left %d threads behind" % r["threads_left"],
                          {"input": "corr:C13/stray-threads"}, no_failing_input=True)
        for f in r["failures"]:
            concrete = True
            ctx.violation(unit, "ThreadedMailboxProcessor violates C13 (%s): %s" % (tag(c), f["what"]),
                          {"input": {"case": c, "schedule": f["schedule"]}, "threads": f["names"],
                           "final": f["final"]})
        for s in r.get("strong", [])[:1]:
            strong_hits.append((c, s))
    for unit, d in dist.items():
        ctx.coverage["distribution"].setdefault(unit, {}).update(d)
    # the literal lazy-mode clause (finding F1) is reported once, by the dedicated witness task
    if strong_hits:
        strong_hits.sort(key=lambda cs: (len(cs[0]["graph"]["nodes"]), len(cs[1]["schedule"])))
        ctx.notes.append("P4s (literal lazy clause) fails in %d explored tasks; smallest: %s" % (
            len(strong_hits), tag(strong_hits[0][0])))
    kernel_crosscheck(ctx, xchecks)
    # disagreements: wiring first, then behaviour
    for t, r in zip(tasks, results):
        if "crash" in r or r["kind"] == "f1":
            continue
        c = r["case"]
        unit = unit_of(c)
        if r["wiring"]:
            ctx.violation("wiring", "ThreadedMailboxProcessor wiring differs from the model (%s): %s" % (tag(c), r["wiring"]),
                          {"input": "corr:C13/wiring", "case": c, "what": r["wiring"]}, no_failing_input=True)
        if r["n_disagreements"] or r["disagreements"]:
            dis = r["disagreements"][0]
            ctx.violation(unit, "model and implementation disagree (%s, %d of %d runs): %s" % (
                tag(c), max(r["n_disagreements"], 1), r["runs"], dis["what"]),
                {"input": "corr:C13/%s/%s" % (unit, r["kind"]), "case": c, "schedule": dis["schedule"],
                 "what": dis["what"]}, no_failing_input=True)


def unit_of(case):
    g = case["graph"]
    if case.get("via") == "context":
        return "context"
    if any(len(n["provides"]) > 1 for n in g["nodes"]):
        return "fanout"
    if any(len(n["deps"]) > 1 for n in g["nodes"]):
        return "diamond"
    return "chain"


# ------------------------------------------------------------------------------------------
# finding F1: the lazy gate counts a subscriber waiting for a buffered message as demand
# ------------------------------------------------------------------------------------------
F1_CASE = {"graph": chain(2, savers={0: 1}), "lazy": True, "cap": 3, "p": 2, "N": 12, "via": "components"}
F1_INPUT = {"case": "source d0 -> plugin d1, in-memory saver on d0, lazy, max_messages 3, consumer takes 2 chunks",
            "schedule": "the saver of d0 never runs; the source d0 runs whenever it can"}


def f1_witness():
    """-> (description, details) if the pinned behaviour is reproduced, else (None, details)"""
    holder = {}

    def fac(sched):
        holder["sys"] = NetSystem(sched, F1_CASE)
        s = holder["sys"]
        s.tid_of = {k: k for k in range(s.ntid)}
        s.mid_of = dict(s.tid_of)
        s.mb_order = list(s.proc.mailboxes)
        return s

    def choose(en, last):
        names = holder["sys"].names
        pool = [t for t in en if not names[t].startswith("save_")] or en
        # keep the source running whenever it can, otherwise the lowest other thread
        src = [t for t in pool if names[t] == "build:d0"]
        return src[0] if src else pool[0]
    res = run_schedule(fac, [], extend=choose, max_steps=5000)
    info = res.system_info
    bad = [g for g in info["gates"] if g[2] and not g[5]]
    return (bad, info, res.schedule, holder["sys"].names)


def report_f1(ctx, r):
    ctx.coverage["f1_witness"] = {"reproduced": bool(r["bad"]), "source_advances": r["counts"]}
    if r["bad"]:
        ctx.violation("lazy-gate",
                      "lazy mode: source d0 advanced %d times (%d of them while build:d1 was waiting for a chunk "
                      "that was already in the mailbox) although the consumer takes only 2 chunks: _can_fetch "
                      "does not test what is buffered (finding F1, fixed by ede7cda, is back)"
                      % (r["counts"].get("d0", 0), len(r["bad"])),
                      {"input": F1_INPUT, "schedule": r["schedule"], "threads": r["names"], "gates": r["gates"],
                       "counts": r["counts"]})


# ------------------------------------------------------------------------------------------
# extraction cross-check inside Coq
# ------------------------------------------------------------------------------------------
def coq_conf(toks):
    """Coq terms (comps, opts, p, N) for a driver configuration"""
    t = list(toks)
    pos = [0]

    def take(n):
        v = t[pos[0]:pos[0] + n]
        pos[0] += n
        return v
    nl = lambda l: "[" + "; ".join("%d" % x for x in l) + "]"
    (npl,) = take(1)
    plugins = [tuple(take(2)) for _ in range(npl)]
    (nd,) = take(1)
    defs = []
    for _ in range(nd):
        (np_,) = take(1)
        prov = take(np_)
        (ndep,) = take(1)
        deps = take(ndep)
        (mm,) = take(1)
        defs.append("mkPlugin %s %s %s" % (nl(prov), nl(deps), "None" if mm < 0 else "(Some %d)" % mm))
    (nld,) = take(1)
    loaders = take(nld)
    (ns,) = take(1)
    savers = [tuple(take(2)) for _ in range(ns)]
    target, al, single, mm, p, N = take(6)
    comps = "(mkComps [%s] [%s] %s [%s] %d)" % (
        "; ".join("(%d, %d)" % x for x in plugins), "; ".join(defs), nl(loaders),
        "; ".join("(%d, %d)" % x for x in savers), target)
    opts = "(mkOpts %s %s %d)" % ("true" if al else "false", "true" if single else "false", mm)
    return comps, opts, p, N


def kernel_crosscheck(ctx, xchecks):
    if not xchecks:
        return
    picks = [xchecks[i] for i in sorted(ctx.rng.sample(range(len(xchecks)), min(24, len(xchecks))))]
    lines = [line("run", x["toks"], [len(x["msched"])] + x["msched"]) for x in picks]
    outs = lib.run_model("C13", lines)
    eqs = []
    for x, o in zip(picks, outs):
        body = o.split(" # ")[0]
        parts = [q.strip() for q in body.split(" | ") if q.strip() and not q.strip().startswith("DISABLED")]
        comps, opts, p, N = coq_conf(x["toks"])
        rhs = "[" + "; ".join("[" + "; ".join("(%s)" % v for v in q.split()) + "]" for q in parts) + "]"
        eqs.append("nrun_obs (net_of (wire %s %s %d) %d)%%nat ([%s])%%nat = (%s)%%Z" % (
            comps, opts, p, N, "; ".join(str(v) for v in x["msched"]), rhs))
    n, fails = lib.coq_crosscheck(
        "C13", "From SV Require Import Base.Prelude Model.Mailbox Model.MailboxNet Model.C13Run.", eqs, shard=8)
    ctx.coverage.setdefault("kernel_crosscheck", {})["network"] = {"equations": n, "failed_files": len(fails)}
    if fails:
        ctx.violation("extraction", "extracted model and Coq vm_compute disagree: " + fails[0][-400:],
                      {"input": "corr:C13/extraction-crosscheck", "log": fails[0]}, no_failing_input=True)


def replay(ctx, obj):
    _quiet = os.environ.get("C13_VERBOSE") is None
    r = obj["replay"]
    inp = r.get("input")
    if inp == F1_INPUT or (isinstance(inp, dict) and inp.get("case") == F1_INPUT["case"]):
        bad, info, schedule, names = f1_witness()
        print("finding F1: schedule", [names[t] for t in schedule])
        print("source advances:", info["counts"], "gate views (step, source, can_fetch, driver waits, none<=lowest, "
              "none waits for a buffered message):", info["gates"])
        print("property (literal lazy clause):", "VIOLATED" if bad else "holds")
        shutdown_pool()
        return 1 if bad else 0
    if not isinstance(inp, dict):
        print("nothing to replay for", inp)
        return 0
    case, schedule = inp["case"], inp["schedule"]
    case["graph"]["savers"] = {int(k): v for k, v in case["graph"]["savers"].items()}   # JSON made the keys strings
    logging.disable(logging.CRITICAL)
    sys.unraisablehook = lambda *a: None
    runner = CaseRunner(case)
    res, system = replay_on(runner.factory(case["N"]), schedule)
    cleanup_tmp(system)
    bound = coq_bound(case)
    f = predicates(case, res, runner.sources, bound=bound)
    advN = {d: res.system_info["counts"].get(d, 0) for d in runner.sources}
    print("case:", tag(case))
    print("schedule:", [system.names[t] for t in res.schedule])
    print("outcome:", res.outcome, "source advances:", advN, "max mailbox sizes:", res.system_info["maxbox"])
    if f is None and res.outcome in ("deadlock", "complete") and all(a < case["N"] for a in advN.values()):
        res2, system2 = replay_on(runner.factory(2 * case["N"]), res.schedule)
        cleanup_tmp(system2)
        adv2 = {d: res2.system_info["counts"].get(d, 0) for d in runner.sources}
        print("same schedule with %d chunks: outcome %s, source advances %s" % (2 * case["N"], res2.outcome, adv2))
        if res2.outcome in ("open", "not-enabled") or adv2 != advN:
            f = "P1: the point of rest depends on the run length"
    d = compare_with_model(runner, runner.toks, system, res)
    print("model comparison:", d or "agrees")
    print("property:", f or "holds on this schedule")
    shutdown_pool()
    return 1 if f else 0
