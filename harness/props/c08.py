"""C08 — Plugin.iter: time-aligned inputs, every input row exactly once, errors instead of drops.

The real `strax.Plugin.iter` (and `ExhaustPlugin`) is driven directly: a harness plugin with hand-set
`depends_on`, `deps` (stub objects providing `data_kind_for`), `save_when`, iterators over generated
`strax.Chunk` lists and a `compute(start, end, **kinds)` that records what it receives.  The extracted
Coq model `plugin_iter` / `exhaust_iter` (coq/Model/PluginIter.v) runs on the same cases; results are
compared call by call (range, row ids per dependency, error class).  Independently of the model the
property's own predicates (alignment, adjacency, exactly-once, error-not-drop, pass-limit totality) are
evaluated on the implementation's behaviour for every case.
"""
import itertools
import os
import warnings

import numpy as np
import strax
from immutabledict import immutabledict

from harness import lib

MODEL_PROPS = ["C08"]
LEVEL = "proof"
NONE_RUN = -999999
RUN = 7
EXPLICIT = int(strax.SaveWhen.EXPLICIT)

ERRMAP = [
    ("negative start time", 1), ("negative length", 2), ("starts early", 3), ("ends late", 4),
    ("Need at least one chunk", 20), ("different data types", 21), ("different run ids", 22),
    ("overlapping or out-of-order", 23),
    ("Cannot work with empty input buffer", 40), ("ended prematurely", 41),
    ("unable to get time-consistent", 42), ("terminated without fetching last", 43),
    ("terminated with leftover", 44), ("of different data kinds", 45),
    ("Cannot merge chunks of different run_ids", 46), ("different number of items", 47),
    ("Cannot merge chunks with different time ranges", 48), ("got inconsistent time ranges", 49),
    ("superruns or subrunses", 50),
]
ERRNAME = {40: "empty-input", 41: "premature-end", 42: "too-many-passes", 43: "not-exhausted", 44: "leftover",
           45: "merge-kind", 46: "merge-run", 47: "merge-length", 48: "merge-range", 49: "ranges", 50: "superrun"}


def err_code(e):
    if isinstance(e, strax.CannotSplit):
        return 10
    msg = str(e)
    for k, v in ERRMAP:
        if k in msg:
            return v
    return "%s:%s" % (type(e).__name__, msg[:80])


# ------------------------------------------------------------------------------------------
# cases
#   case = {"kinds": [kind per dep], "sw": int, "ex": 0|1, "deps": [[chunk, ...] per dep], "tag": str}
#   chunk = {"s","e","rows":[(t,e,id,ch)], "dt","kind","run"}
# ------------------------------------------------------------------------------------------

def achunk(s, e, rows, dt, kind, run=RUN):
    return {"s": s, "e": e, "rows": [tuple(r) for r in rows], "dt": dt, "kind": kind, "run": run}


def enc_rows(rows):
    out = [str(len(rows))]
    for r in rows:
        out += [str(int(x)) for x in r]
    return " ".join(out)


def enc_chunk(c):
    return "%d %d %d %d %d %d %s" % (c["s"], c["e"], c["dt"], c["kind"],
                                     NONE_RUN if c["run"] is None else c["run"], 4, enc_rows(c["rows"]))


def enc_case(case):
    parts = ["iter", str(case["ex"]), str(case["sw"]), str(len(case["deps"]))]
    for k, cs in zip(case["kinds"], case["deps"]):
        parts += [str(k), str(len(cs))] + [enc_chunk(c) for c in cs]
    return " ".join(parts)


def mk_case(kinds, sw, dep_parts, ex=0, tag=""):
    """dep_parts: per dependency a list of (start, end, rows)."""
    deps = [[achunk(a, b, rows, i, kinds[i]) for (a, b, rows) in parts] for i, parts in enumerate(dep_parts)]
    return {"kinds": list(kinds), "sw": sw, "ex": ex, "deps": deps, "tag": tag}


# ------------------------------------------------------------------------------------------
# the real Plugin.iter
# ------------------------------------------------------------------------------------------

_DT = {}


def dt_for(i, enc):
    key = (i, enc)
    if key not in _DT:
        if enc == "endtime":
            _DT[key] = np.dtype([(("Start time", "time"), np.int64), (("End time", "endtime"), np.int64),
                                 ("id%d" % i, np.int64)])
        else:
            _DT[key] = np.dtype([(("Start time", "time"), np.int64), ("length", np.int32), ("dt", np.int16),
                                 ("id%d" % i, np.int64)])
    return _DT[key]


def real_chunk(c, enc):
    i = c["dt"]
    a = np.zeros(len(c["rows"]), dtype=dt_for(i, enc))
    for j, (t, e, rid, _ch) in enumerate(c["rows"]):
        a[j] = (t, e, rid) if enc == "endtime" else (t, e - t, 1, rid)
    return strax.Chunk(start=c["s"], end=c["e"], data=a, dtype=a.dtype, data_type="d%d" % i,
                       data_kind="k%d" % c["kind"], run_id=None if c["run"] is None else str(c["run"]))


class _Dep:
    """stand-in for self.deps[d]: Plugin.iter only asks it for the data kind"""

    def __init__(self, kind):
        self.kind = kind

    def data_kind_for(self, d):
        return self.kind


def _plugin_class(base):
    class HarnessPlugin(base):
        depends_on = ()
        provides = ("c08_out",)
        data_kind = "c08_out_kind"
        dtype = strax.time_fields
        parallel = False

        def do_compute(self, chunk_i=None, **kwargs):
            # what do_compute is handed: one chunk per kind
            self._pending = {k: (v.start, v.end) for k, v in kwargs.items() if isinstance(v, strax.Chunk)}
            return super().do_compute(chunk_i=chunk_i, **kwargs)

        def compute(self, start, end, **kw):
            ids = {}
            for arr in kw.values():
                for n in arr.dtype.names:
                    if n.startswith("id"):
                        ids[int(n[2:])] = [int(x) for x in arr[n]]
            self.calls.append((int(start), int(end), [ids.get(i) for i in range(len(self.depends_on))],
                               sorted(set(self._pending.values()))))
            return np.zeros(0, dtype=strax.time_fields)
    return HarnessPlugin


_CLS = {}


def make_plugin(case):
    ex = case["ex"]
    if ex not in _CLS:
        _CLS[ex] = _plugin_class(strax.ExhaustPlugin if ex else strax.Plugin)
    p = _CLS[ex]()
    n = len(case["kinds"])
    p.depends_on = tuple("d%d" % i for i in range(n))
    p.deps = {"d%d" % i: _Dep("k%d" % k) for i, k in enumerate(case["kinds"])}
    p.save_when = immutabledict({"c08_out": case["sw"]})
    p.run_id = str(RUN)
    p.calls = []
    p._pending = {}
    return p


class _Timeout(Exception):
    pass


BASE_LIMIT = 10.0        # seconds of USER CPU of this process (ITIMER_VIRTUAL) for one run of Plugin.iter; a
                         # normal run needs about a millisecond.  Not wall-clock and not system time, so neither
                         # a loaded machine nor fork / paging overhead can use it up.
CONFIRM_FACTOR = 10      # a timeout is re-tried in a fresh process with CONFIRM_FACTOR x BASE_LIMIT, twice
WALL_BACKSTOP = 3 * 3600  # seconds; a confirmation child that is still not done is given up as inconclusive

_ARMED = False
_HANDLER_SET = False


def _on_alarm(signum, frame):
    global _ARMED
    if _ARMED:               # one shot; a late or stray signal outside a timed region is ignored
        _ARMED = False
        raise _Timeout()


def _arm(limit):
    import signal
    import threading
    global _ARMED, _HANDLER_SET
    if threading.current_thread() is not threading.main_thread():
        return
    if not _HANDLER_SET:
        signal.signal(signal.SIGVTALRM, _on_alarm)      # installed once per process, never removed
        _HANDLER_SET = True
    _ARMED = True
    signal.setitimer(signal.ITIMER_VIRTUAL, limit)


def _disarm():
    import signal
    import threading
    global _ARMED
    _ARMED = False
    if threading.current_thread() is threading.main_thread():
        signal.setitimer(signal.ITIMER_VIRTUAL, 0)


def _run_timed(p, iters, limit, max_results):
    out = None
    n = 0
    try:
        _arm(limit)
        for _res in p.iter(iters):
            n += 1
            if n > max_results:
                out = "RUNAWAY"
                break
    except _Timeout:
        out = "TIMEOUT"
    except Exception as e:  # noqa
        out = err_code(e)
    finally:
        _disarm()
    return out


def real_run(case, enc="endtime", limit=None):
    """One run of the real Plugin.iter on `case`.
    -> {"calls": [(start, end, [ids per dep], [distinct (start,end) of the merged inputs])], "out": o}
    o = None (normal end) | error code | "RUNAWAY" (more results than input chunks: deterministic) |
    "TIMEOUT" (more than `limit` seconds of user CPU: only a suspicion, see confirm_timeout)."""
    p = make_plugin(case)
    iters = {"d%d" % i: iter([real_chunk(c, enc) for c in cs]) for i, cs in enumerate(case["deps"])}
    max_results = sum(len(cs) for cs in case["deps"]) + 5
    import resource
    import time
    w0, ru0 = time.time(), resource.getrusage(resource.RUSAGE_SELF)
    try:
        out = _run_timed(p, iters, BASE_LIMIT if limit is None else limit, max_results)
    except _Timeout:          # the signal arrived while the timed region was being left
        out = "TIMEOUT"
    finally:
        _disarm()
    res = {"calls": p.calls, "out": out}
    if out == "TIMEOUT":
        ru1 = resource.getrusage(resource.RUSAGE_SELF)
        res["diag"] = "pid %d: wall %.1fs user %.1fs sys %.1fs (limit %.1fs user)" % (
            os.getpid(), time.time() - w0, ru1.ru_utime - ru0.ru_utime, ru1.ru_stime - ru0.ru_stime,
            BASE_LIMIT if limit is None else limit)
    return res


def _confirm_child(conn, case, enc, limit):
    try:
        warnings.simplefilter("ignore")
        r = real_run(case, enc, limit)
        conn.send(r)
    except BaseException as e:  # noqa
        try:
            conn.send({"calls": [], "out": "HARNESS-ERROR %s: %s" % (type(e).__name__, str(e)[:200])})
        except Exception:  # noqa
            pass
    finally:
        conn.close()


def run_in_fresh_process(case, enc, limit):
    """run one case alone in a freshly forked process; -> result dict, or None if the child gave no answer"""
    import multiprocessing as mp
    ctxm = mp.get_context("fork")
    try:
        recv, send = ctxm.Pipe(duplex=False)
        proc = ctxm.Process(target=_confirm_child, args=(send, case, enc, limit))
        proc.start()
        send.close()
        r = None
        if recv.poll(WALL_BACKSTOP):
            try:
                r = recv.recv()
            except (EOFError, OSError):
                r = None
        if proc.is_alive() and r is None:
            proc.kill()
        proc.join(60)
        recv.close()
        return r
    except Exception:  # noqa  (fork failed, pipe failed, ...)
        return None


def confirm_timeout(case, enc="endtime"):
    """A run hit BASE_LIMIT.  Re-try in a fresh process with CONFIRM_FACTOR times the limit; if that times out
    too, once more, alone.  -> ("result", r) the run finished after all (the machine was slow) |
    ("hang", r) it reproducibly does not finish | ("inconclusive", None) no answer could be obtained."""
    last = None
    for _attempt in range(2):
        r = run_in_fresh_process(case, enc, CONFIRM_FACTOR * BASE_LIMIT)
        if r is None or str(r["out"]).startswith("HARNESS-ERROR"):
            return ("inconclusive", None)
        if r["out"] != "TIMEOUT":
            return ("result", r)
        last = r
    return ("hang", last)


def warm_up():
    """compile the numba kernel split_array for every row dtype the harness uses, once, before forking workers"""
    for enc in ("endtime", "length"):
        for i in range(4):
            c = real_chunk(achunk(0, 9, [(0, 3, 100 * i, 0), (2, 6, 100 * i + 1, 0), (7, 8, 100 * i + 2, 0)], i, 0), enc)
            for t in (1, 5, 7):
                c.split(t, allow_early_split=True)


def fmt_real(r):
    calls = " | ".join("%d %d %s" % (s, e, ";".join(",".join(str(x) for x in (ids or [])) for ids in idl))
                       for (s, e, idl, _rng) in r["calls"])
    return calls + (" # ok" if r["out"] is None else " # err %s" % r["out"])


MAX_SUSPECTS = 6          # timeouts per batch after which the rest of the batch is postponed
_SUSPECTS = None          # shared counter (multiprocessing.Value), created before the workers are forked


def _worker(batch):
    """run a slice of cases; never raises"""
    warnings.simplefilter("ignore")
    out = []
    local = 0
    for idx, case in batch:
        try:
            seen = _SUSPECTS.value if _SUSPECTS is not None else local
            if seen >= MAX_SUSPECTS:
                # circuit breaker: many timeouts mean a hanging implementation or a crawling machine; the
                # suspects are examined first, the postponed cases are run afterwards
                out.append(("SKIPPED", {"calls": [], "out": "SKIPPED"}))
                continue
            r = real_run(case, "endtime" if idx % 2 == 0 else "length")
            if r["out"] == "TIMEOUT":
                local += 1
                if _SUSPECTS is not None:
                    with _SUSPECTS.get_lock():
                        _SUSPECTS.value += 1
            out.append((fmt_real(r), r))
        except Exception as e:  # noqa
            r = {"calls": [], "out": "HARNESS-ERROR %s: %s" % (type(e).__name__, str(e)[:200])}
            out.append((fmt_real(r), r))
    return out


def _noop():
    return 0


class Runner:
    """runs the implementation on batches of cases: in-process for small batches, otherwise on a pool of
    workers that is forked ONCE, while this process is still small (forking a process that holds hundreds of
    thousands of generated cases costs minutes of system time on a busy machine)"""

    def __init__(self):
        import multiprocessing as mp
        global _SUSPECTS
        self.nproc = min(16, os.cpu_count() or 4)
        self.mpctx = mp.get_context("fork")
        _SUSPECTS = self.mpctx.Value("i", 0)
        self.ex = None
        self._start()

    def _start(self):
        from concurrent.futures import ProcessPoolExecutor
        import gc
        try:
            # keep the children's garbage collector away from the inherited heap (every gc header it
            # writes to is a copied page)
            gc.collect()
            gc.freeze()
            self.ex = ProcessPoolExecutor(self.nproc, mp_context=self.mpctx)
            self.ex.submit(_noop).result()        # with the fork context all workers are started now
        except Exception:  # noqa
            self.ex = None
        finally:
            gc.unfreeze()

    def close(self):
        if self.ex is not None:
            try:
                self.ex.shutdown(wait=False, cancel_futures=True)
            except Exception:  # noqa
                pass
            self.ex = None

    def run(self, cases):
        """results in order; a slice whose worker died (killed from outside, out of memory) is run again, at
        last in this process"""
        idx_cases = list(enumerate(cases))
        if _SUSPECTS is not None:
            _SUSPECTS.value = 0
        if len(cases) < 12000 or self.ex is None:
            return _worker(idx_cases)
        size = len(cases) // self.nproc + 1          # one slice per worker: as few hand-offs as possible
        batches = [idx_cases[i:i + size] for i in range(0, len(idx_cases), size)]
        outs = [None] * len(batches)
        for _attempt in range(2):
            todo = [i for i, o in enumerate(outs) if o is None]
            if not todo or self.ex is None:
                break
            try:
                futs = {i: self.ex.submit(_worker, batches[i]) for i in todo}
                for i, f in futs.items():
                    try:
                        outs[i] = f.result()
                    except Exception:  # noqa  (BrokenProcessPool, ...)
                        pass
            except Exception:  # noqa
                pass
            if any(o is None for o in outs):
                self.close()
                self._start()
        for i, o in enumerate(outs):
            if o is None:
                outs[i] = _worker(batches[i])
        return [x for o in outs for x in o]


# ------------------------------------------------------------------------------------------
# the property's own predicates, evaluated on the implementation's behaviour
# ------------------------------------------------------------------------------------------

def straddled(rows, y):
    return any(r[0] < y < r[1] for r in rows)


def adm(rows, y, lo):
    """latest time <= y (and >= lo) that no row straddles"""
    while y > lo and straddled(rows, y):
        y -= 1
    return y


def stair_ok(all_rows, y, passes, lo):
    """spec side of iter_total_below_pass_limit: do the per-dependency latest admissible times agree
    within `passes` checks when starting from the pacemaker boundary y?  returns (ok, settled time)"""
    for _ in range(passes):
        ends = [adm(rows, y, lo) for rows in all_rows]
        if len(set(ends)) <= 1:
            return True, ends[0]
        y = min(ends)
    return False, y


def well_formed_chunk(c):
    rows = c["rows"]
    return (0 <= c["s"] <= c["e"] and all(c["s"] <= r[0] <= r[1] <= c["e"] for r in rows)
            and all(a[0] <= b[0] for a, b in zip(rows[:-1], rows[1:])))


def law_abiding(case):
    """every dependency: non-empty list of well-formed chunks, contiguous, one run, same data type;
    all dependencies share start, end and run"""
    rng = set()
    for cs in case["deps"]:
        if not cs or not all(well_formed_chunk(c) for c in cs):
            return False
        if any(a["e"] != b["s"] for a, b in zip(cs[:-1], cs[1:])):
            return False
        if any(c["run"] != RUN or c["dt"] != cs[0]["dt"] for c in cs):
            return False
        rng.add((cs[0]["s"], cs[-1]["e"]))
    kinds_ok = all(c["kind"] == k for k, cs in zip(case["kinds"], case["deps"]) for c in cs)
    return len(rng) == 1 and kinds_ok


def dep_rows(case):
    return [[r for c in cs for r in c["rows"]] for cs in case["deps"]]


def same_kind_aligned(case):
    """dependencies of one kind carry the same (time, endtime) per index"""
    R = dep_rows(case)
    for i, j in itertools.combinations(range(len(R)), 2):
        if case["kinds"][i] == case["kinds"][j] and [(r[0], r[1]) for r in R[i]] != [(r[0], r[1]) for r in R[j]]:
            return False
    return True


def pacemaker_of(case):
    best, pm = None, None
    for i, cs in enumerate(case["deps"]):
        if best is None or cs[0]["e"] < best:
            best, pm = cs[0]["e"], i
    return pm


def predicates(case, r, max_passes):
    """None if the implementation's behaviour on `case` satisfies property C08, else the reason."""
    calls, out = r["calls"], r["out"]
    R = dep_rows(case)
    byid = [{q[2]: q for q in rows} for rows in R]
    n = len(R)
    if out == "RUNAWAY":
        return "iter does not terminate (more results than input chunks, or reproducibly no end within the CPU limit)"
    if out in ("TIMEOUT", "SKIPPED") or str(out).startswith("HARNESS-ERROR"):
        return None          # no verdict on this run (handled by the caller: confirmation / inconclusive)
    wf_inputs = all(well_formed_chunk(c) for cs in case["deps"] for c in cs)
    # 1. alignment: one identical interval for all inputs of a call, rows inside it
    for (s, e, idl, rngs) in calls:
        if len(rngs) != 1 or rngs[0] != (s, e):
            if out is None or case["sw"] > EXPLICIT:
                return "a compute call got inputs covering different time intervals %s (call %d..%d)" % (rngs, s, e)
        for i in range(n):
            if idl[i] is None:
                return "a compute call did not receive dependency %d" % i
            for rid in idl[i]:
                q = byid[i].get(rid)
                if q is None:
                    return "a compute call received a row id %s that dependency %d never sent" % (rid, i)
                if wf_inputs and not (s <= q[0] and q[1] <= e):
                    return "row %s of dependency %d lies outside the call interval %d..%d" % (q, i, s, e)
        for i, j in itertools.combinations(range(n), 2):
            if case["kinds"][i] == case["kinds"][j] and len(idl[i]) != len(idl[j]):
                return "same-kind inputs %d and %d have different lengths in one call" % (i, j)
    # 2. adjacency
    for a, b in zip(calls[:-1], calls[1:]):
        if a[1] != b[0]:
            return "successive calls are not adjacent: ..%d then %d.." % (a[1], b[0])
    # 3. exactly once, in order: what was handed over is a prefix of what the dependency sent
    for i in range(n):
        got = [rid for (_s, _e, idl, _r) in calls for rid in idl[i]]
        want = [q[2] for q in R[i]]
        if got != want[:len(got)]:
            return "dependency %d: rows handed to compute %s are not a prefix of the rows sent %s " \
                   "(row skipped, duplicated or reordered)" % (i, got, want)
        if out is None and len(got) != len(want):
            # 4. error, not drop
            if case["sw"] > EXPLICIT:
                return "dependency %d: rows %s were never delivered and no error was raised although the plugin " \
                       "saves by default" % (i, want[len(got):])
            last_end = calls[-1][1] if calls else None
            if last_end is not None and any(byid[i][rid][0] < last_end for rid in want[len(got):]):
                return "dependency %d: a row starting before the last call's end was dropped" % i
    if out is None and law_abiding(case):
        s0, e0 = case["deps"][0][0]["s"], case["deps"][0][-1]["e"]
        if not calls or calls[0][0] != s0 or calls[-1][1] != e0:
            return "the calls do not cover the common range %d..%d of the inputs" % (s0, e0)
        if same_kind_aligned(case):
            for (s, e, idl, _r) in calls:
                for i, j in itertools.combinations(range(n), 2):
                    if case["kinds"][i] == case["kinds"][j]:
                        if [byid[i][x][:2] for x in idl[i]] != [byid[j][x][:2] for x in idl[j]]:
                            return "same-kind inputs %d and %d are not row-aligned in call %d..%d" % (i, j, s, e)
    # 5. totality below the pass limit (law-abiding inputs, one dependency per kind).  Stated independently of
    #    which dependency the implementation picks as pacemaker: every chunk end of every dependency must have a
    #    shallow staircase and no dependency may reach the common end before its last chunk.
    if law_abiding(case) and len(set(case["kinds"])) == n and not case["ex"]:
        lo, hi = case["deps"][0][0]["s"], case["deps"][0][-1]["e"]
        deep = None
        for y in sorted({c["e"] for cs in case["deps"] for c in cs}):
            ok, _ = stair_ok(R, y, max_passes, lo)
            if not ok:
                deep = y
                break
        trailing = any(c["e"] == hi for cs in case["deps"] for c in cs[:-1])
        # Only the positive direction is part of the property (C08_iter_total_below_pass_limit): shallow
        # staircases and no chunk kept back => no error.  That a deep staircase / a trailing chunk DOES raise is
        # how the code behaves today (pinned by the model comparison), not something C08 demands.
        if deep is None and not trailing and out is not None:
            return "iter raised %s on law-abiding inputs whose staircases are all shallower than the pass limit" % (
                ERRNAME.get(out, out),)
    return None


# ------------------------------------------------------------------------------------------
# generators
# ------------------------------------------------------------------------------------------

def row_lists(nmax, tmax, maxlen, id0):
    """all start-sorted lists of <= nmax rows inside [0, tmax], lengths 0..maxlen"""
    cells = [(t, t + l) for t in range(tmax + 1) for l in range(maxlen + 1) if t + l <= tmax]
    for n in range(nmax + 1):
        def rec(prefix, min_t):
            if len(prefix) == n:
                yield [(t, e, id0 + i, 0) for i, (t, e) in enumerate(prefix)]
                return
            for (t, e) in cells:
                if t >= min_t:
                    yield from rec(prefix + [(t, e)], t)
        yield from rec([], 0)


def cut_points(rows, s, e, times=None):
    """all (time, index) at which the row list can be cut without straddling a row"""
    out = []
    for t in (times if times is not None else range(s, e + 1)):
        for i in range(len(rows) + 1):
            if all(r[1] <= t for r in rows[:i]) and all(r[0] >= t for r in rows[i:]):
                out.append((t, i))
    return out


def all_chunkings(rows, s, e, max_chunks, times=None):
    """ALL contiguous well-formed chunkings of rows over [s, e] into <= max_chunks chunks, including empty
    and zero-duration chunks: lists of (start, end, rows)"""
    cuts = cut_points(rows, s, e, times)
    res = []
    for k in range(max_chunks):
        for combo in itertools.combinations_with_replacement(cuts, k):
            if any(combo[j][1] > combo[j + 1][1] for j in range(len(combo) - 1)):
                continue
            bounds = [(s, 0)] + list(combo) + [(e, len(rows))]
            parts = []
            ok = True
            for (t0, i0), (t1, i1) in zip(bounds[:-1], bounds[1:]):
                part = rows[i0:i1]
                if i1 < i0 or any(r[0] < t0 or r[1] > t1 for r in part):
                    ok = False
                    break
                parts.append((t0, t1, part))
            if ok:
                res.append(parts)
    return res


def kind_patterns(n, max_kinds):
    """kind assignments up to renaming, in order of first appearance, using <= max_kinds kinds"""
    out = []

    def rec(prefix, used):
        if len(prefix) == n:
            out.append(list(prefix))
            return
        for k in range(min(used + 1, max_kinds)):
            rec(prefix + [k], max(used, k + 1))
    rec([], 0)
    return out


def sw_for(rng):
    return rng.choice([0, 1, 1, 2, 2, 3])


def gen_exhaustive(ctx, cases):
    rng = ctx.rng
    big = ctx.thorough or ctx.escalated()
    T = 5                                   # 6-point grid 0..5, common range [0, 5]
    confs = {}

    def configs(nrows, nchunks):
        """[(rows, [chunkings])] for every row list of <= nrows rows"""
        key = (nrows, nchunks)
        if key not in confs:
            confs[key] = [(rows, all_chunkings(rows, 0, T, nchunks)) for rows in row_lists(nrows, T, 3, 0)]
        return confs[key]

    def flat(nrows, nchunks):
        return [parts for _rows, chs in configs(nrows, nchunks) for parts in chs]

    def sw_i(i):
        return 2 if i % 2 else 1            # both sides of the `> SaveWhen.EXPLICIT` comparison

    notes = []
    # --- one dependency: pure re-chunking by the pacemaker; complete
    n1 = 3 if big else 2
    k = 0
    for parts in flat(n1, 3):
        cases.append(mk_case([0], sw_i(k), [parts], tag="ex1"))
        k += 1
    notes.append("1 dep, <=%d rows, all chunkings into <=3 chunks: complete (%d)" % (n1, k))
    # --- two dependencies of different kinds: every pair of (rows, chunking)
    r2, c2 = (1, 3) if big else (1, 2)
    fl = flat(r2, c2)
    k = 0
    for a in fl:
        for b in fl:
            cases.append(mk_case([0, 1], sw_i(k), [a, _reid(b, 1)], tag="ex2d"))
            k += 1
    notes.append("2 deps of different kinds, <=%d row each, all chunkings into <=%d chunks: complete (%d pairs)" % (r2, c2, k))
    for (nr, nc, budget) in ([(2, 2, 60000), (2, 3, 20000)] if big else [(1, 3, 3000), (2, 2, 4000)]):
        fl = flat(nr, nc)
        for _ in range(budget):
            cases.append(mk_case([0, 1], sw_for(rng), [rng.choice(fl), _reid(rng.choice(fl), 1)], tag="ex2d"))
        notes.append("2 deps of different kinds, <=%d rows, <=%d chunks: %d sampled of %d pairs" % (nr, nc, budget, len(fl) ** 2))
    # --- two dependencies of the same kind (the same rows, independent chunkings): complete
    for (nr, nc) in ([(2, 3)] if big else [(2, 2)]):
        k = 0
        for _rows, chs in configs(nr, nc):
            for a in chs:
                for b in chs:
                    cases.append(mk_case([0, 0], sw_i(k), [a, _reid(b, 1)], tag="ex2s"))
                    k += 1
        notes.append("2 deps of one kind (same rows), <=%d rows, all pairs of chunkings into <=%d chunks: complete (%d)" % (nr, nc, k))
    if big:
        cf3 = configs(3, 2)
        for k in range(30000):
            _rows, chs = rng.choice(cf3)
            cases.append(mk_case([0, 0], sw_i(k), [rng.choice(chs), _reid(rng.choice(chs), 1)], tag="ex2s"))
        notes.append("2 deps of one kind (same rows), <=3 rows, <=2 chunks: 30000 sampled of %d" % sum(len(c) ** 2 for _r, c in cf3))
    # --- three dependencies, one or two kinds; same-kind dependencies mostly share their rows
    pats = kind_patterns(3, 2)
    cf = configs(1, 2)
    budget3 = 40000 if big else 5000
    for idx in range(budget3):
        kinds = pats[idx % len(pats)]
        chosen = {}
        deps = []
        for i, kd in enumerate(kinds):
            if kd in chosen and rng.random() < 0.8:
                rows_chs = chosen[kd]
            else:
                rows_chs = rng.choice(cf)
            chosen.setdefault(kd, rows_chs)
            deps.append(_reid(rng.choice(rows_chs[1]), i))
        cases.append(mk_case(kinds, sw_for(rng), deps, tag="ex3"))
    notes.append("3 deps, 1-2 kinds, <=1 row, <=2 chunks: %d sampled of %d" % (budget3, sum(len(c) for _r, c in cf) ** 3))
    ctx.notes.append("exhaustive scopes: " + "; ".join(notes))


def random_rows(rng, n, tmax, maxlen, id0, zero_len=0.15):
    rows = []
    t = rng.randint(0, 2)
    for i in range(n):
        u = rng.random()
        if u < 0.5 and rows:
            p = rows[rng.randrange(max(0, len(rows) - 3), len(rows))]
            t = max(t, rng.choice([p[0], p[1], max(p[0], p[1] - 1), p[1] + 1]))
        else:
            t = t + rng.randint(0, max(1, tmax // max(n, 1)))
        l = 0 if rng.random() < zero_len else rng.randint(1, maxlen)
        rows.append((t, t + l, id0 + i, 0))
    return rows


def random_chunking(rng, rows, s, e, style):
    """style: 'giant' one chunk, 'tiny' cut at (almost) every admissible point, 'mixed'"""
    if style == "giant":
        return [(s, e, rows)]
    pts = sorted({s, e} | {r[0] for r in rows} | {r[1] for r in rows} |
                 {rng.randint(s, e) for _ in range(4)})
    cuts = cut_points(rows, s, e, [t for t in pts if s <= t <= e])
    if style == "tiny":
        chosen = [c for c in cuts if rng.random() < 0.9]
    else:
        chosen = [c for c in cuts if rng.random() < rng.choice([0.15, 0.4])]
    if rng.random() < 0.3 and cuts:
        chosen.append(rng.choice(cuts))          # a repeated cut: zero-duration empty chunk
    chosen = sorted(chosen)
    bounds = [(s, 0)] + chosen + [(e, len(rows))]
    parts = []
    for (t0, i0), (t1, i1) in zip(bounds[:-1], bounds[1:]):
        if i1 < i0:
            return [(s, e, rows)]
        parts.append((t0, t1, rows[i0:i1]))
    return parts


def staircase(depth, shift=0):
    """two dependencies whose rows mutually straddle: A [4i, 4i+3), B [4i+2, 4i+5)"""
    a = [(4 * i + shift, 4 * i + 3 + shift, i, 0) for i in range(depth)]
    b = [(4 * i + 2 + shift, 4 * i + 5 + shift, 100 + i, 0) for i in range(depth)]
    return a, b


def gen_random(ctx, cases):
    rng = ctx.rng
    big = ctx.thorough or ctx.escalated()
    # random law-abiding, 2..4 dependencies, up to 3 kinds
    for _ in range(30000 if big else 3000):
        n = rng.choice([2, 2, 3, 4, 4])
        kinds = rng.choice(kind_patterns(n, 3))
        tmax = rng.choice([12, 30, 60])
        base = {}
        deps = []
        e = None
        rows_all = []
        for i in range(n):
            k = kinds[i]
            if k in base and rng.random() < 0.8:
                rows = [(t, en, 100 * i + j, 0) for j, (t, en, _i, _c) in enumerate(base[k])]   # truly same kind
            else:
                rows = random_rows(rng, rng.randint(0, 8), tmax, rng.choice([2, 5, 9]), 100 * i)
            base.setdefault(k, rows)
            rows_all.append(rows)
        e = max([r[1] for rows in rows_all for r in rows] + [1]) + rng.choice([0, 0, 3])
        styles = [rng.choice(["giant", "tiny", "mixed", "mixed"]) for _ in range(n)]
        for i in range(n):
            deps.append(random_chunking(rng, rows_all[i], 0, e, styles[i]))
        cases.append(mk_case(kinds, sw_for(rng), deps, ex=1 if rng.random() < 0.08 else 0, tag="rand"))
    # staircases up to depth 12, pacemaker boundary inside / just below the top rows
    for depth in range(1, 13):
        for shift in (0, 1):
            for variant in range(6 if big else 3):
                a, b = staircase(depth, shift)
                e = 4 * depth + 6 + shift
                base = 4 * (depth - 1) + shift
                mode = variant % 3
                if mode == 0:
                    # a row-free pacemaker cut inside a top row; A and B each in one giant chunk
                    top = base + rng.choice([1, 2, 3, 4])
                    deps, kinds = [[(0, top, []), (top, e, [])], [(0, e, a)], [(0, e, b)]], [0, 1, 2]
                elif mode == 1:
                    # A is the pacemaker, cut at the start of its last row (inside B's previous row)
                    deps, kinds = [[(0, base, a[:depth - 1]), (base, e, a[depth - 1:])], [(0, e, b)]], [0, 1]
                else:
                    # B is the pacemaker, cut at the start of its last row (inside A's last row)
                    deps, kinds = [[(0, base + 2, b[:depth - 1]), (base + 2, e, b[depth - 1:])], [(0, e, a)]], [0, 1]
                deps = [_reid(parts, i) for i, parts in enumerate(deps)]
                cases.append(mk_case(kinds, sw_for(rng), deps, tag="stair%d" % depth))
    # unequal ends / unequal starts / malformed streams
    for _ in range(12000 if big else 2500):
        n = rng.choice([2, 2, 3])
        kinds = rng.choice(kind_patterns(n, 2))
        deps = []
        e0 = rng.randint(4, 10)
        for i in range(n):
            rows = random_rows(rng, rng.randint(0, 4), e0, 3, 100 * i)
            s = 0
            e = max([r[1] for r in rows] + [e0])
            u = rng.random()
            if u < 0.35:
                e += rng.choice([1, 2, 5])                    # this dependency ends later
            elif u < 0.45:
                s = min([r[0] for r in rows] + [rng.randint(0, 2)])   # starts later than 0 (maybe)
            parts = random_chunking(rng, rows, s, e, rng.choice(["giant", "mixed", "tiny"]))
            if rng.random() < 0.15:
                parts = parts + [(e, e, [])]                  # trailing zero-duration chunk
            deps.append(parts)
        case = mk_case(kinds, sw_for(rng), deps, ex=1 if rng.random() < 0.05 else 0, tag="uneq")
        v = rng.random()
        if v < 0.06:
            case["deps"][rng.randrange(n)] = []                                  # an empty iterator
            case["tag"] = "mal-empty"
        elif v < 0.12:
            cs = case["deps"][rng.randrange(n)]
            cs[-1]["run"] = 8                                                    # run id changes
            case["tag"] = "mal-run"
        elif v < 0.18:
            cs = case["deps"][rng.randrange(n)]
            if len(cs) >= 2:
                d = rng.choice([1, 2])
                cs[-1]["s"] += d
                cs[-1]["e"] += d
                cs[-1]["rows"] = [(t + d, x + d, i, c) for (t, x, i, c) in cs[-1]["rows"]]   # gap between chunks
                case["tag"] = "mal-gap"
        elif v < 0.24:
            cs = case["deps"][rng.randrange(n)]
            if len(cs) >= 2 and cs[-1]["s"] >= 1 and cs[-2]["e"] > cs[-2]["s"]:
                cs[-1]["s"] -= 1                                                 # overlapping chunk ranges
                case["tag"] = "mal-overlap"
        elif v < 0.28:
            cs = case["deps"][rng.randrange(n)]
            cs[0]["kind"] = 5                                                    # chunk kind differs from the plugin's
            case["tag"] = "mal-kind"
        cases.append(case)


def _reid(parts, i):
    out = []
    j = 0
    for (s, e, rows) in parts:
        nr = []
        for (t, x, _id, c) in rows:
            nr.append((t, x, 100 * i + j, c))
            j += 1
        out.append((s, e, nr))
    return out


# ------------------------------------------------------------------------------------------
# run / replay
# ------------------------------------------------------------------------------------------

def nontrivial(case, r):
    """>= 2 dependencies, >= 2 calls or an error after >= 1 call, and some chunk boundary of one dependency
    straddled by a row of another; or a single dependency re-chunked into >= 2 calls with rows"""
    R = dep_rows(case)
    if len(R) == 1:
        return len(r["calls"]) >= 2 and len(R[0]) >= 1
    bounds = [{c["e"] for c in cs} for cs in case["deps"]]
    strad = any(straddled(R[j], y) for i in range(len(R)) for j in range(len(R)) if i != j for y in bounds[i])
    return strad or (len(r["calls"]) >= 2 and sum(len(x) for x in R) >= 2)


def show_case(case):
    return {"kinds": case["kinds"], "sw": case["sw"], "ex": case["ex"],
            "deps": [[{"s": c["s"], "e": c["e"], "rows": [list(q) for q in c["rows"]], "dt": c["dt"], "kind": c["kind"],
                       "run": c["run"]} for c in cs] for cs in case["deps"]]}


def load_case(obj):
    return {"kinds": obj["kinds"], "sw": obj["sw"], "ex": obj.get("ex", 0), "tag": "replay",
            "deps": [[achunk(c["s"], c["e"], c["rows"], c["dt"], c["kind"], c["run"]) for c in cs] for cs in obj["deps"]]}


def max_passes_now():
    from harness import constants
    vals, _ = constants.extract()
    return int(vals.get("ITER_MAX_PASSES", constants.DEFAULTS["ITER_MAX_PASSES"]))


def shrink(case, failing, prepare=None):
    """greedy shrinking: drop chunks' rows / merge chunks / drop dependencies while `failing(case)` stays true.
    `prepare(cands)` may precompute something for all candidates of a round at once (the model outputs)."""
    import copy
    cur = copy.deepcopy(case)
    changed = True
    while changed:
        changed = False
        cands = []
        n = len(cur["deps"])
        if n > 1:
            for i in range(n):
                c2 = copy.deepcopy(cur)
                del c2["deps"][i]
                del c2["kinds"][i]
                for k, cs in enumerate(c2["deps"]):
                    for c in cs:
                        c["dt"] = k
                        c["rows"] = [(t, e, 100 * k + (rid % 100), ch) for (t, e, rid, ch) in c["rows"]]
                cands.append(c2)
        for i in range(n):
            cs = cur["deps"][i]
            for j in range(len(cs)):
                for q in range(len(cs[j]["rows"])):
                    c2 = copy.deepcopy(cur)
                    del c2["deps"][i][j]["rows"][q]
                    cands.append(c2)
            for j in range(len(cs) - 1):
                if cs[j]["e"] == cs[j + 1]["s"]:
                    c2 = copy.deepcopy(cur)
                    a, b = c2["deps"][i][j], c2["deps"][i][j + 1]
                    a["e"] = b["e"]
                    a["rows"] = a["rows"] + b["rows"]
                    del c2["deps"][i][j + 1]
                    cands.append(c2)
        pre = prepare(cands) if prepare else [None] * len(cands)
        for c2, extra in zip(cands, pre):
            try:
                if (failing(c2, extra) if prepare else failing(c2)):
                    cur = c2
                    changed = True
                    break
            except Exception:  # noqa
                pass
    return cur


class EnoughViolations(Exception):
    pass


class Sink:
    """collects generated cases and processes them in batches: model, implementation, diff, predicates"""
    BATCH = 40000
    FIRST_BATCH = 4000      # a small first batch: a broken implementation is reported quickly
    SEARCH_AFTER_DISAGREE = 60000   # quick tier: how long the search for a failing input goes on after the
                                    # first model/implementation disagreement (thorough: to the end)
    MAX_CONFIRMATIONS = 4   # timeouts examined by the full confirmation procedure per run

    def __init__(self, ctx, mp, runner, max_cases=None):
        self.ctx, self.mp, self.runner, self.max_cases = ctx, mp, runner, max_cases
        self.buf = []
        self.total = 0
        self.generated = 0
        self.dist = {}
        self.nontriv = set()
        self.bad = 0                    # concrete failing inputs found
        self.first_disagree_at = None
        self.n_disagree = 0
        self.samples = []
        self.cross = []
        self.timing = []
        self.timeouts = {"first_stage": 0, "finished_on_retry": 0, "confirmed_non_termination": 0,
                         "inconclusive": 0, "confirmations_run": 0}
        self.harness_errors = 0
        self.first_harness_error = None
        self.timeout_diags = []
        self.last_diag = None

    def append(self, case):
        self.buf.append(case)
        self.generated += 1
        if len(self.buf) >= (self.FIRST_BATCH if self.total == 0 else self.BATCH):
            self.flush()
        if self.max_cases is not None and self.generated >= self.max_cases:
            self.flush()
            raise EnoughViolations("case cap C08_MAX_CASES=%d reached" % self.max_cases)

    def _check_stop(self):
        if self.bad > 6:
            raise EnoughViolations("more than 6 failing inputs recorded")
        if self.timeouts["confirmed_non_termination"] > 0:
            raise EnoughViolations("the implementation reproducibly does not terminate; further cases not run")
        if self.first_disagree_at is not None and not self.ctx.thorough and \
                self.total - self.first_disagree_at > self.SEARCH_AFTER_DISAGREE:
            raise EnoughViolations("quick-tier search budget after a model/implementation disagreement used up")

    # ---- one result -------------------------------------------------------------------------
    def _judge(self, case, mo, rs, r):
        ctx, mp = self.ctx, self.mp
        dist = self.dist
        tag = case["tag"].rstrip("0123456789")
        for k in ("%s/%s" % (tag, "ok" if r["out"] is None else ERRNAME.get(r["out"], "err %s" % r["out"])),
                  "calls=%d" % min(len(r["calls"]), 6),
                  "deps=%d kinds=%d" % (len(case["kinds"]), len(set(case["kinds"])))):
            dist[k] = dist.get(k, 0) + 1
        if nontrivial(case, r):
            self.nontriv.add(hash(lib.canon(show_case(case))))
        self.total += 1

        def fails(c):
            return predicates(c, real_run(c), mp) is not None
        reason = predicates(case, r, mp)
        if reason:
            if self.bad <= 6:
                small = shrink(case, fails)
                r2 = real_run(small)
                if predicates(small, r2, mp) is None:      # never report a case that does not fail on re-run
                    small, r2 = case, r
                ctx.violation("iter", "Plugin.iter violates C08: %s (implementation: %s)"
                              % (predicates(small, r2, mp), fmt_real(r2)),
                              {"input": show_case(small), "impl": fmt_real(r2), "unit": "iter",
                               "original": show_case(case)})
            self.bad += 1
        elif rs != mo:
            self.n_disagree += 1
            if self.first_disagree_at is None:
                self.first_disagree_at = self.total
            if self.n_disagree <= 3 and self.bad <= 6:
                def model_outs(cands):
                    return lib.run_model("C08", [enc_case(c) for c in cands])

                def disagree(c, mo_c):
                    rc = real_run(c)
                    return rc["out"] != "TIMEOUT" and fmt_real(rc) != mo_c
                small = shrink(case, disagree, prepare=model_outs)
                found = None
                for nb in neighbourhood(small):      # search for a failing input around the disagreement
                    rr = real_run(nb)
                    why = predicates(nb, rr, mp)
                    if why:
                        found = (nb, rr, why)
                        break
                if found:
                    nb, rr, why = found
                    nb2 = shrink(nb, fails)
                    rr2 = real_run(nb2)
                    if predicates(nb2, rr2, mp) is not None:
                        nb, rr = nb2, rr2
                    ctx.violation("iter", "Plugin.iter violates C08: %s (implementation: %s)"
                                  % (predicates(nb, rr, mp), fmt_real(rr)),
                                  {"input": show_case(nb), "impl": fmt_real(rr), "unit": "iter"})
                    self.bad += 1
                else:
                    ctx.violation("iter", "model/implementation disagree on Plugin.iter (impl `%s`, model `%s`); "
                                  "the property predicates hold on this input and its neighbourhood"
                                  % (fmt_real(real_run(small)), lib.run_model("C08", [enc_case(small)])[0]),
                                  {"input": "corr:C08/iter", "case": show_case(small), "unit": "iter"},
                                  no_failing_input=True)

    # ---- a run that hit the CPU limit: only a suspicion until it reproduces ------------------------
    def _suspect(self, case, mo, enc):
        ctx = self.ctx
        t = self.timeouts
        t["first_stage"] += 1
        if len(self.timeout_diags) < 8:
            self.timeout_diags.append(self.last_diag)
        if t["confirmations_run"] >= self.MAX_CONFIRMATIONS or t["confirmed_non_termination"] > 0:
            t["inconclusive"] += 1           # not examined further: never an alarm by itself
            return
        t["confirmations_run"] += 1
        verdict, r = confirm_timeout(case, enc)
        if verdict == "result":
            t["finished_on_retry"] += 1          # the machine was slow; the completed run is judged as usual
            self._judge(case, mo, fmt_real(r), r)
        elif verdict == "inconclusive":
            t["inconclusive"] += 1
        else:
            # reproducibly no end: BASE_LIMIT in a worker, then twice CONFIRM_FACTOR x BASE_LIMIT of user CPU
            # alone in a fresh process.  Minimise (a candidate counts if it also hits the base limit) and
            # confirm the minimised input the same way before naming it.
            t["confirmed_non_termination"] += 1

            def hangs(c):
                return real_run(c)["out"] in ("TIMEOUT", "RUNAWAY")
            small = shrink(case, hangs)
            if small is not case:
                v2, _r2 = confirm_timeout(small, "endtime")
                if v2 != "hang":
                    small = case
            ctx.violation("iter", "Plugin.iter does not terminate on this input (no end within %.0f s of user CPU "
                          "in a fresh process, twice; a normal run needs about 1 ms); calls made before: %s"
                          % (CONFIRM_FACTOR * BASE_LIMIT, fmt_real(r)),
                          {"input": show_case(small), "impl": "no termination", "unit": "iter",
                           "original": show_case(case)})
            self.bad += 1

    def flush(self):
        cases, self.buf = self.buf, []
        if not cases:
            return
        import time
        t0 = time.time()
        lines = [enc_case(c) for c in cases]
        mout = lib.run_model_parallel("C08", lines)
        t1 = time.time()
        rout = self.runner.run(cases)
        t2 = time.time()
        self.timing.append("batch %d: model %.1fs impl %.1fs" % (len(cases), t1 - t0, t2 - t1))
        postponed = []
        for idx, (case, mo, (rs, r)) in enumerate(zip(cases, mout, rout)):
            out = r["out"]
            if out == "SKIPPED":
                postponed.append((idx, case, mo))
            elif out == "TIMEOUT":
                self.last_diag = r.get("diag")
                self._suspect(case, mo, "endtime" if idx % 2 == 0 else "length")
            elif str(out).startswith("HARNESS-ERROR"):
                self.harness_errors += 1
                self.first_harness_error = self.first_harness_error or (out, show_case(case))
            else:
                self._judge(case, mo, rs, r)
        # cases postponed by the circuit breaker: run them now unless the implementation really hangs
        if postponed and self.timeouts["confirmed_non_termination"] == 0:
            rout2 = self.runner.run([c for (_i, c, _m) in postponed])
            for (idx, case, mo), (rs, r) in zip(postponed, rout2):
                out = r["out"]
                if out in ("SKIPPED", "TIMEOUT"):
                    self.timeouts["first_stage"] += 1 if out == "TIMEOUT" else 0
                    self.timeouts["inconclusive"] += 1
                elif str(out).startswith("HARNESS-ERROR"):
                    self.harness_errors += 1
                    self.first_harness_error = self.first_harness_error or (out, show_case(case))
                else:
                    self._judge(case, mo, rs, r)
        elif postponed:
            self.ctx.notes.append("%d cases were not run after non-termination had been confirmed" % len(postponed))
        for k in (len(cases) // 7, len(cases) // 2, len(cases) - 5):
            if 0 <= k < len(cases) and len(self.samples) < 9:
                self.samples.append({"unit": "iter", "case": show_case(cases[k]), "model": mout[k], "impl": rout[k][0]})
        idxs = self.ctx.rng.sample(range(len(cases)), min(40, len(cases)))
        self.cross += [(cases[i], mout[i]) for i in idxs
                       if sum(len(c["rows"]) for cs in cases[i]["deps"] for c in cs) <= 30]
        self._check_stop()


def run(ctx):
    warnings.simplefilter("ignore")
    ctx.coverage["rule"] = (
        "A case = (data kind per dependency, save_when, chunk list per dependency). Exhaustive on the 6-point grid 0..5 "
        "(row lengths 0..3, common range [0,5]) under ALL contiguous chunkings (every admissible integer cut time, "
        "every placement of zero-length rows on a cut, empty and zero-duration chunks): 1 dependency; 2 dependencies of "
        "different kinds (all pairs of (rows, chunking)); 2 dependencies of one kind (same rows, all pairs of "
        "chunkings); 3 dependencies of 1-2 kinds (sampled); the exact scopes and whether each is complete or sampled "
        "are listed in notes. Random: 2-4 dependencies of <=3 kinds, <=8 clustered rows each, giant/tiny/mixed "
        "chunkings, truly-same-kind copies, ExhaustPlugin; staircases of depth 1..12 (pacemaker boundary inside the top "
        "rows); unequal ends/starts, trailing zero-duration chunks; malformed streams (empty iterator, run id change, "
        "gap, overlap, chunk kind mismatch). Non-trivial: a chunk boundary of one dependency is straddled by a row of "
        "another, or >=2 calls with >=2 rows (one dependency: >=2 calls and >=1 row). Distinct by canonical JSON.")
    ctx.assumptions += [
        "iters is keyed in depends_on order; allow_superrun=False; is_ready() is True (offline inputs); computation "
        "in the plugin's thread (executor=None)",
        "rows carry (time, endtime|length*dt, id<dep>); both endtime encodings alternate by case index",
        "save_when enters as max over provided data types of int(save_when)",
        "non-termination is only reported when it reproduces: %.0f s of user CPU in a worker, then twice %.0f s alone "
        "in a fresh process; a timeout that does not reproduce is counted under coverage.timeouts and never alarms"
        % (BASE_LIMIT, CONFIRM_FACTOR * BASE_LIMIT),
    ]
    mp = max_passes_now()
    warm_up()
    runner = Runner()                    # workers are forked now, while this process is small
    max_cases = None
    if os.environ.get("C08_MAX_CASES"):
        max_cases = int(os.environ["C08_MAX_CASES"])
        ctx.notes.append("C08_MAX_CASES=%d: generation is cut short (testing knob, not a registered run)" % max_cases)
    sink = Sink(ctx, mp, runner, max_cases)
    try:
        try:
            # corpus (minimised past disagreements) first
            corpus_dir = os.path.join(lib.VERIF, "corpus", "C08")
            if os.path.isdir(corpus_dir):
                import json
                for f in sorted(os.listdir(corpus_dir)):
                    if f.endswith(".json"):
                        sink.append(load_case(json.load(open(os.path.join(corpus_dir, f)))["input"]))
            gen_random(ctx, sink)
            gen_exhaustive(ctx, sink)
            sink.flush()
        except EnoughViolations as stop:
            ctx.notes.append("generation stopped early: %s" % stop)
    finally:
        runner.close()
    ctx.count("iter", sink.total, len(sink.nontriv), sink.dist)
    ctx.coverage["disagreements"] = sink.n_disagree
    ctx.coverage["timeouts"] = sink.timeouts
    if sink.timeout_diags:
        ctx.notes.append("first-stage timeouts (suspicions only): " + "; ".join(str(d) for d in sink.timeout_diags))
    ctx.coverage["inconclusive"] = sink.timeouts["inconclusive"] + sink.harness_errors
    ctx.coverage["harness_errors"] = sink.harness_errors
    ctx.notes.append("timing: " + "; ".join(sink.timing))
    if sink.harness_errors:
        ctx.notes.append("the harness could not drive the implementation on %d cases, first: %s"
                         % (sink.harness_errors, sink.first_harness_error))
        if sink.harness_errors > max(20, sink.total // 200):
            ctx.violation("harness", "the harness could not drive Plugin.iter on %d of %d cases (first error: %s); "
                          "nothing is known about the property on those" % (sink.harness_errors, sink.total +
                                                                           sink.harness_errors, sink.first_harness_error[0]),
                          {"input": "corr:C08/harness-errors", "case": sink.first_harness_error[1]},
                          no_failing_input=True)
    for smp in sink.samples:
        ctx.sample(smp)
    crosscheck(ctx, sink.cross)


def _variants(case):
    """structural neighbours: the case itself; a row put into every row-free chunk of positive duration; the
    last chunk of a dependency stretched by two time units with a row in the new part; an extra final chunk
    with one row"""
    import copy
    yield case
    for i, cs in enumerate(case["deps"]):
        used = [r[2] for c in cs for r in c["rows"]]
        nid = (max(used) + 1) if used else 100 * i
        for j, c in enumerate(cs):
            if not c["rows"] and c["e"] > c["s"]:
                c2 = copy.deepcopy(case)
                c2["deps"][i][j]["rows"] = [(c["s"], c["e"], nid, 0)]
                yield c2
        if cs:
            last = cs[-1]
            c2 = copy.deepcopy(case)
            l2 = c2["deps"][i][-1]
            l2["rows"] = list(l2["rows"]) + [(last["e"], last["e"] + 1, nid, 0)]
            l2["e"] = last["e"] + 2
            yield c2
            c3 = copy.deepcopy(case)
            c3["deps"][i].append(achunk(last["e"], last["e"] + 2, [(last["e"], last["e"] + 1, nid, 0)], last["dt"],
                                        last["kind"], last["run"]))
            yield c3


def neighbourhood(case):
    """small-scope sweep around a case: structural variants x every save_when x every kind pattern"""
    import copy
    n = len(case["kinds"])
    for var in _variants(case):
        for sw in (3, 2, 1, 0):
            for kinds in kind_patterns(n, 3):
                c2 = copy.deepcopy(var)
                c2["sw"] = sw
                c2["kinds"] = kinds
                for k, cs in zip(kinds, c2["deps"]):
                    for c in cs:
                        c["kind"] = k
                yield c2


# ---- kernel cross-check of the extraction: a sample re-evaluated inside Coq by vm_compute ----

def coq_z(x):
    return "(%d)" % x


def coq_chunk(c):
    rows = "[" + "; ".join("mkrow %s %s %s %s" % tuple(coq_z(v) for v in r) for r in c["rows"]) + "]"
    run = "None" if c["run"] is None else "(Some %s)" % coq_z(c["run"])
    return "(mkchunk %s %s %s %s %s %s 4)" % (coq_z(c["s"]), coq_z(c["e"]), rows, coq_z(c["dt"]), coq_z(c["kind"]), run)


def coq_case(case):
    deps = "[" + "; ".join("(%s, [%s])" % (coq_z(k), "; ".join(coq_chunk(c) for c in cs))
                           for k, cs in zip(case["kinds"], case["deps"])) + "]"
    return "%s %s %s" % ("exhaust_iter" if case["ex"] else "plugin_iter", coq_z(case["sw"]), deps)


def coq_result(mo):
    calls_s, out_s = mo.rsplit(" # ", 1)
    calls = []
    if calls_s.strip():
        for cs in calls_s.split(" | "):
            toks = cs.split(" ")
            s, e = int(toks[0]), int(toks[1])
            ids = toks[2] if len(toks) > 2 else ""
            per = [[int(x) for x in part.split(",") if x] for part in ids.split(";")]
            calls.append("(%s, %s, [%s])" % (coq_z(s), coq_z(e), "; ".join("[" + "; ".join(coq_z(x) for x in p) + "]" for p in per)))
    out = "None" if out_s == "ok" else "(Some %s)" % coq_z(int(out_s.split()[1]))
    return "([%s], %s)" % ("; ".join(calls), out)


def crosscheck(ctx, pairs):
    pairs = pairs[:150]
    eqs = ["c08_view (%s) = %s" % (coq_case(c), coq_result(mo)) for c, mo in pairs]
    n, fails = lib.coq_crosscheck("C08", "From SV Require Import Model.PluginIter Model.C08Run.", eqs)
    ctx.coverage.setdefault("kernel_crosscheck", {})["iter"] = {"equations": n, "failed_files": len(fails)}
    if fails:
        ctx.violation("iter", "extracted model and Coq vm_compute disagree: " + fails[0][-400:],
                      {"input": "corr:C08/iter/extraction-crosscheck", "log": fails[0]}, no_failing_input=True)


def replay(ctx, obj):
    r = obj["replay"] if "replay" in obj else obj          # a replay file of a violation, or a corpus file
    case = r.get("case") if isinstance(r.get("input"), str) else r.get("input")
    case = load_case(case)
    rr = real_run(case)
    if rr["out"] == "TIMEOUT":
        verdict, r2 = confirm_timeout(case)
        rr = r2 if verdict == "result" else {"calls": rr["calls"], "out": "RUNAWAY" if verdict == "hang" else "TIMEOUT"}
    why = predicates(case, rr, max_passes_now())
    try:
        mo = lib.run_model("C08", [enc_case(case)])[0]
    except Exception as e:  # noqa
        mo = "(model driver not available: %s)" % e
    print("impl :", fmt_real(rr))
    print("model:", mo)
    print("C08  :", why or "holds")
    return 1 if why else 0
