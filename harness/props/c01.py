"""C01 -- results do not depend on chunking, processor, parallelism or what is stored.

Correspondence (independent of the proofs): real Context.get_iter / get_array on random plugin graphs
assembled from harness/props/c01_plugins.py, under the product of processors / workers / lazy /
capacity / rechunking / target size / stored subset, against
  (i)   eval_whole: every plugin's computation applied once to the whole unchunked run (bit-identical),
  (ii)  the yielded chunks tile the run contiguously and hold their rows entirely,
  (iii) the extracted Coq model Network.eval_graph chunk-for-chunk (boundaries and row ids),
  (iv)  storage re-read by a fresh Context.
"""
import json
import os
import random
import shutil
import sys
import time
import traceback

from harness import lib

MODEL_PROPS = ["C01"]
LEVEL = "proof"

TMP = os.environ.get("C01_TMP") or os.path.join(lib.BUILD, "tmp", "c01_%d" % os.getpid())
# DESIGN section 7 D5 (repaired in /repo by e1cd0b8): the configuration class is generated on purpose
D5_INPUT = ("processor=threaded_mailbox, a multi-output plugin is recomputed while one of its other outputs is "
            "stored and loader-fed")

# ------------------------------------------------------------------------------------------------
# known finding F1 (design_notes/C01.md): a zero-length row stored on the EXCLUSIVE END of its chunk.
# Chunk.__init__ accepts it (endtime <= end), Chunk.split(t == self.end) keeps it left, split_array
# sends rows with time >= t right: which side the row belongs to depends on where it is stored.
# The random generator never produces such a chunking; these two fixed probes do.
# ------------------------------------------------------------------------------------------------
ZERO_END_UNIT = "zero_length_at_chunk_end"
ZERO_END_PROBES = [
    {"input": {"probe": "loop_plugin_silent_drop",
               "base_rows_t_e_v": [[0, 5, 1], [10, 20, 3]], "base_chunks": [[0, 30]],
               "thing_rows_t_e_v": [[1, 2, 1], [10, 10, 50], [12, 13, 7]],
               "thing_chunks_start_end_nrows": [[0, 10, 2], [10, 30, 1]],
               "expected_event_sums": [2, 60], "got": [2, 10]},
     "graph": {"T": 30, "target": "n2", "nodes": [
         {"name": "s0", "kind": "source", "deps": [], "rows": [[0, 5, 0, 1], [10, 20, 1, 3]], "slot": "a", "disjoint": True},
         {"name": "s1", "kind": "source", "deps": [], "rows": [[1, 2, 100, 1], [10, 10, 101, 50], [12, 13, 102, 7]], "slot": "b"},
         {"name": "n2", "kind": "loop", "deps": ["s0", "s1"], "a": 1, "b": 0, "slot": "a"}],
         "chunkings": {"s0": {"0": [[0, 30, 0, 2]], "1": [[0, 30, 0, 2]]},
                       "s1": {"0": [[0, 30, 0, 3]], "1": [[0, 10, 0, 2], [10, 30, 2, 3]]}}},
     "keep": []},
    {"input": {"probe": "same_kind_merge_loud_error",
               "rows_t_e": [[0, 5], [10, 10], [10, 20]], "stored_dependency_chunks": [[0, 30]],
               "recomputed_dependency_chunks_start_end_nrows": [[0, 10, 2], [10, 30, 1]],
               "got": "ValueError: Cannot merge chunks with different number of items"},
     "graph": {"T": 30, "target": "n2", "nodes": [
         {"name": "s0", "kind": "source", "deps": [], "rows": [[0, 5, 0, 1], [10, 10, 1, 2], [10, 20, 2, 3]], "slot": "a"},
         {"name": "n1", "kind": "rowwise", "deps": ["s0"], "coefs": [2], "b": 0, "slot": "b", "rechunk_on_save": False},
         {"name": "n2", "kind": "rowwise", "deps": ["n1", "s0"], "coefs": [1, 1], "b": 0, "slot": "a"}],
         "chunkings": {"s0": {"0": [[0, 30, 0, 3]], "1": [[0, 10, 0, 2], [10, 30, 2, 3]]}}},
     "keep": ["n1"]},
    # third form: all SOURCE chunkings are tight, Plugin.iter's own early split creates the situation:
    # the things [5,5), [5,9) come in one chunk, the base row [5,6) in [0,7) + [7,30); the pacemaker end 7 cuts
    # [5,9), the early split moves to 5 and leaves [5,5) in the call [0,5) while the base row goes to the next call
    {"input": {"probe": "loop_plugin_silent_drop_after_early_split",
               "base_rows_t_e_v": [[5, 6, 1]], "base_chunks": [[0, 7], [7, 30]],
               "thing_rows_t_e_v": [[5, 5, 50], [5, 9, 7]], "thing_chunks": [[0, 30]],
               "expected_event_sums": [51], "got": [1]},
     "graph": {"T": 30, "target": "n2", "nodes": [
         {"name": "s0", "kind": "source", "deps": [], "rows": [[5, 6, 0, 1]], "slot": "a", "disjoint": True},
         {"name": "s1", "kind": "source", "deps": [], "rows": [[5, 5, 100, 50], [5, 9, 101, 7]], "slot": "b"},
         {"name": "n2", "kind": "loop", "deps": ["s0", "s1"], "a": 1, "b": 0, "slot": "a"}],
         "chunkings": {"s0": {"0": [[0, 30, 0, 1]], "1": [[0, 7, 0, 1], [7, 30, 1, 1]]},
                       "s1": {"0": [[0, 30, 0, 2]], "1": [[0, 30, 0, 2]]}}},
     "keep": []},
]


def corpus_tasks():
    """minimised past failures (corpus/C01/*.json), replayed first on every run"""
    d = os.path.join(lib.VERIF, "corpus", "C01")
    out = []
    if os.path.isdir(d):
        for i, f in enumerate(sorted(os.listdir(d))):
            if f.endswith(".json"):
                obj = json.load(open(os.path.join(d, f)))
                g = obj["graph"]
                out.append((g, [dict(c) for c in obj["cfgs"]], 0, "corpus_%d" % i, 60))
    return out


def zero_end_tasks():
    base = {"processor": "single_thread", "max_workers": 1, "allow_lazy": True, "max_messages": 4,
            "allow_rechunk": True, "api": "get_iter", "allow_multiprocess": False, "switch": 0.005}
    out = []
    for i, pr in enumerate(ZERO_END_PROBES):
        g = json.loads(json.dumps(pr["graph"]))
        g["prep_cfg"] = dict(base, chunking=0)
        g["unit"] = ZERO_END_UNIT
        g["probe_input"] = pr["input"]
        out.append((g, [dict(base, chunking=1, keep=list(pr["keep"]))], 0, "zeroend_%d" % i, 60))
    return out


# ------------------------------------------------------------------------------------------------
# generators (everything derives from one random.Random)
# ------------------------------------------------------------------------------------------------

STEPS = [0, 0, 1, 2, 5, 40, 600, 1100, 2500]
LENS = [0, 1, 1, 3, 10, 50, 700, 1500]


def gen_rows(rng, n, disjoint, id0):
    rows = []
    t = rng.choice([0, 0, 3, 700])
    mx = 0
    for i in range(n):
        step = rng.choice(STEPS)
        if rows and rows[-1][0] == rows[-1][1] and step == 0:
            # a zero-length row [x, x) directly followed by another row starting at x: an early split
            # (split_array: t = min(data[splittable_i].time, t)) would leave [x, x) on the exclusive end of
            # the left part -- known finding F1, third probe; never generated at random
            step = 1
        t = (max(t, mx) if disjoint else t) + step
        ln = rng.choice(LENS)
        rows.append([t, t + ln, id0 + i, rng.randrange(0, 1000)])
        mx = max(mx, t + ln)
    return rows


def gen_chunking(rng, rows, T, p, zero_at_end=False):
    """A law-abiding chunking of rows over [0, T): contiguous, every row inside its chunk, cuts only where
    no row is straddled.  Several cuts may fall into one gap (empty chunks), also at the same time
    (zero-duration chunks).  Unless zero_at_end, no zero-length row sits on its chunk's exclusive end."""
    n = len(rows)
    cuts = []  # (time, row index)
    mx = 0
    for i in range(n + 1):
        lo = mx
        hi = rows[i][0] if i < n else T
        if lo <= hi and rng.random() < p:
            cands = sorted({lo, hi, (lo + hi) // 2, min(lo + 1, hi), max(hi - 1, lo)})
            if i > 0 and not zero_at_end:
                cands = [x for x in cands if x > rows[i - 1][0]]
            if i == n:
                cands = [x for x in cands if x < T] or []
            if cands:
                k = rng.choice([1, 1, 1, 2, 3])
                for x in sorted(rng.choice(cands) for _ in range(k)):
                    cuts.append((x, i))
        if i < n:
            mx = max(mx, rows[i][1])
    out = []
    s, i0 = 0, 0
    for x, i in cuts:
        out.append((s, x, i0, i))
        s, i0 = x, i
    out.append((s, T, i0, n))
    return out


NONSRC = ["rowwise", "rowwise", "filter", "cut", "mergeonly", "multi", "multi", "loop", "loop", "overlap", "overlap",
          "overlap", "downchunk", "exhaust"]


def gen_graph(rng, thorough=False):
    n_nodes = rng.randint(2, 7)
    n_src = 1 if n_nodes < 3 or rng.random() < 0.55 else 2
    nodes = []
    info = {}  # data type -> dict(kind=rowset id, disjoint, value)
    T = 0
    for s in range(n_src):
        disjoint = rng.random() < 0.6
        n = rng.choice([0, 1, 2, 3, 5, 8, 12, 20]) if not thorough else rng.choice([0, 1, 2, 3, 5, 8, 12, 20, 40])
        rows = gen_rows(rng, n, disjoint, 1000 * s)
        name = "s%d" % s
        slot = rng.choice("ab")
        nodes.append({"name": name, "kind": "source", "deps": [], "rows": rows, "disjoint": disjoint, "slot": slot})
        info[name] = {"kind": name, "disjoint": disjoint, "value": True, "fields": ["v" + slot]}
        if rows:
            T = max(T, max(r[1] for r in rows), rows[-1][0] + 1)
    T += rng.choice([0, 1, 10, 2000])
    T = max(T, 1)

    def same_kind(d):
        return [x for x in info if info[x]["kind"] == info[d]["kind"] and x != d]

    def extra_deps(d, pmore=0.4, need_value=False):
        deps = [d]
        others = same_kind(d)
        rng.shuffle(others)
        while others and rng.random() < pmore and len(deps) < 3:
            deps.append(others.pop())
        rng.shuffle(deps)
        return deps

    i = n_src
    attempts = 0
    while len(nodes) < n_nodes and attempts < 100:
        attempts += 1
        kind = rng.choice(NONSRC)
        name = "n%d" % i
        value_types = [d for d in info if info[d]["value"]]
        # prefer recent outputs so the graph is connected and deep
        weights = [1 + 3 * j for j in range(len(value_types))]
        d = rng.choices(value_types, weights)[0]
        node = {"name": name, "kind": kind}
        if kind in ("rowwise", "filter", "multi", "exhaust", "downchunk"):
            node["deps"] = extra_deps(d)
            node["coefs"] = [rng.randint(1, 9) for _ in range(3)]
            node["b"] = rng.randint(0, 9)
            if kind in ("filter", "multi"):
                node["mod"] = rng.choice([2, 2, 3, 5])
                node["rem"] = rng.randrange(node["mod"])
            if kind == "exhaust":
                node["nmul"] = rng.randint(1, 5)
            if kind == "downchunk":
                node["k"] = rng.choice([1, 1, 2, 3, 5])
        elif kind == "cut":
            node["deps"] = extra_deps(d, 0.2)
            node["coefs"] = [rng.randint(1, 9) for _ in range(3)]
            node["mod"] = rng.choice([2, 3, 4])
            node["rem"] = rng.randrange(node["mod"])
        elif kind == "mergeonly":
            if not same_kind(d):
                continue
            node["deps"] = extra_deps(d, 1.0)
            if len(node["deps"]) < 2:
                continue
        elif kind == "overlap":
            if not info[d]["disjoint"]:
                continue
            node["deps"] = extra_deps(d, 0.2)
            w = rng.choice([0, 1, 5, 50, 700, 3000])
            node["window"] = [w, w] if rng.random() < 0.6 else [w, rng.choice([0, 2, 40, 900])]
            node["coefs"] = [rng.randint(1, 9) for _ in range(3)]
        elif kind == "loop":
            bases = [x for x in value_types if info[x]["disjoint"] and node_kind(nodes, x) != "mergeonly"]
            if not bases:
                continue
            b = rng.choice(bases)
            things = [x for x in value_types if info[x]["kind"] != info[b]["kind"] and node_kind(nodes, x) != "mergeonly"]
            if not things:
                continue
            node["deps"] = [b, rng.choice(things)]
            node["a"] = rng.randint(1, 5)
            node["b"] = rng.randint(0, 5)
        # value-less dependency lists cannot feed a value computation
        if kind != "loop" and not any(info[x]["value"] for x in node["deps"]):
            continue
        # attributes that must not change results
        if kind not in ("overlap", "downchunk"):
            node["parallel"] = rng.choice([False, False, True, "process"])
        tgt = rng.choice([1e-4, 2e-4, 200, 200])
        if kind == "multi":
            node["save_when_multi"] = [rng.choice(["ALWAYS", "ALWAYS", "ALWAYS", "TARGET", "NEVER"]) for _ in range(2)]
            node["rechunk_multi"] = [rng.random() < 0.5 for _ in range(2)]
        else:
            if kind not in ("cut", "mergeonly"):
                node["save_when"] = rng.choice(["ALWAYS"] * 6 + ["TARGET", "NEVER", "EXPLICIT"])
            node["rechunk_on_save"] = rng.random() < 0.6
        node["target_mb"] = tgt
        infields = []
        for x in node["deps"]:
            infields += [f for f in info[x]["fields"] if f not in infields]
        slot = rng.choice([c for c in "ab" if "v" + c not in infields] or list("ab"))
        nodes.append(node)
        i += 1
        first = node["deps"][0]
        if kind == "multi":
            node["slots"] = [slot, rng.choice("ab")]
            info[name + "_p"] = {"kind": info[first]["kind"], "disjoint": info[first]["disjoint"], "value": True,
                                 "fields": ["v" + node["slots"][0]]}
            info[name + "_q"] = {"kind": name + "_q", "disjoint": info[first]["disjoint"], "value": True,
                                 "fields": ["v" + node["slots"][1]]}
        elif kind == "filter":
            node["slot"] = rng.choice("ab")
            info[name] = {"kind": name, "disjoint": info[first]["disjoint"], "value": True, "fields": ["v" + node["slot"]]}
        elif kind == "cut":
            node["cslot"] = "x"
            info[name] = {"kind": info[first]["kind"], "disjoint": info[first]["disjoint"], "value": False, "fields": []}
        elif kind == "mergeonly":
            info[name] = {"kind": info[first]["kind"], "disjoint": info[first]["disjoint"], "value": True, "fields": infields}
        else:
            node["slot"] = slot
            info[name] = {"kind": info[first]["kind"], "disjoint": info[first]["disjoint"], "value": True,
                          "fields": ["v" + slot]}
    # directed template (DESIGN section 7 D5): a multi-output plugin whose two outputs are both needed by a
    # loop plugin, so that "one output stored, the sibling recomputed" can arise; see gen_config
    template = None
    disj = [d for d in info if info[d]["value"] and info[d]["disjoint"] and node_kind(nodes, d) != "mergeonly"]
    if disj and rng.random() < 0.3:
        d = rng.choice(disj)
        mname, lname = "n%d" % i, "n%d" % (i + 1)
        m = {"name": mname, "kind": "multi", "deps": [d], "coefs": [rng.randint(1, 9)], "b": rng.randint(0, 9),
             "mod": rng.choice([2, 3]), "rem": 0, "parallel": rng.choice([False, True]),
             "save_when_multi": ["ALWAYS", "ALWAYS"], "rechunk_multi": [rng.random() < 0.5, rng.random() < 0.5],
             "target_mb": rng.choice([1e-4, 200]), "slots": [rng.choice("ab"), rng.choice("ab")]}
        deps = [mname + "_p", mname + "_q"]
        if rng.random() < 0.5:
            deps.reverse()
        lp = {"name": lname, "kind": "loop", "deps": deps, "a": rng.randint(1, 5), "b": rng.randint(0, 5),
              "parallel": rng.choice([False, True]), "save_when": "ALWAYS", "rechunk_on_save": rng.random() < 0.5,
              "target_mb": rng.choice([1e-4, 200]), "slot": rng.choice("ab")}
        nodes += [m, lp]
        template = {"multi": [mname + "_p", mname + "_q"], "after": [lname]}
    for s in range(n_src):
        nodes[s]["parallel"] = rng.choice([False, True, "process"])
        nodes[s]["rechunk_on_save"] = rng.random() < 0.5
        nodes[s]["target_mb"] = rng.choice([1e-4, 200])
    graph = {"T": T, "nodes": nodes}
    # chunkings: id 0 is used by the preparing run, 1..3 by the measured runs
    chunkings = {}
    for s in range(n_src):
        rows = nodes[s]["rows"]
        chunkings[nodes[s]["name"]] = {str(c): gen_chunking(rng, rows, T, rng.choice([0.0, 0.15, 0.5, 1.0]))
                                       for c in range(4)}
    graph["chunkings"] = chunkings
    if template:
        graph["d5_template"] = template
    last = nodes[-1]
    outs = [last["name"] + "_p", last["name"] + "_q"] if last["kind"] == "multi" else [last["name"]]
    graph["target"] = rng.choice(outs)
    return graph


def node_kind(nodes, d):
    for n in nodes:
        if n["name"] == d or (n["kind"] == "multi" and d in (n["name"] + "_p", n["name"] + "_q")):
            return n["kind"]
    return None


def staircase_ok(graph, limit=6):
    """Plugin.iter re-trims its inputs at most ten times (C08, DESIGN section 7 T4: a loud failure on deep
    'staircases' of mutually straddling rows).  Graphs whose multi-kind inputs could need more than `limit`
    passes are not generated; the depth is computed on the whole-run row sets."""
    from harness.props import c01_plugins as P
    import numpy as np
    gid = "stair"
    for n in graph["nodes"]:
        if n["kind"] == "source":
            P.install_source(gid, n, {})
    whole = P.eval_whole(graph, gid)
    for n in graph["nodes"]:
        if n["kind"] != "loop":
            continue
        sets = [[(int(r["time"]), int(r["endtime"])) for r in whole[d]] for d in n["deps"]]
        times = sorted({x for s in sets for r in s for x in r} | {graph["T"]})

        def admissible(s, t):
            # latest time <= t that no row of s straddles
            while True:
                st = [r for r in s if r[0] < t < r[1]]
                if not st:
                    return t
                t = min(r[0] for r in st)
        for t in times:
            passes = 0
            while True:
                t2 = t
                for s in sets:
                    t2 = admissible(s, t2)
                if t2 == t:
                    break
                t = t2
                passes += 1
            if passes > limit:
                return False
    return True


def gen_config(rng, graph, thorough=False):
    proc = rng.choice(["single_thread", "threaded_mailbox", "threaded_mailbox"])
    cfg = {"processor": proc,
           "max_workers": rng.choice([1, 1, 2, 4]),
           "allow_lazy": rng.random() < 0.5,
           "max_messages": rng.randint(1, 4),
           "allow_rechunk": rng.random() < 0.6,
           "chunking": rng.randint(1, 3),
           "api": rng.choice(["get_iter", "get_iter", "get_iter", "get_array"]),
           "allow_multiprocess": False,
           "switch": rng.choice([1e-6, 1e-6, 1e-5, 1e-4, 0.005])}
    kinds = {n["kind"] for n in graph["nodes"]}
    lagged = kinds & {"exhaust", "overlap"}
    # a loop plugin aligns two kinds with early splits and can emit zero-duration calls; if anything consumes its
    # output next to a sibling branch, those count as lag as well (finding F2)
    used = {d for n in graph["nodes"] for d in n["deps"]}
    if any(n["kind"] == "loop" and n["name"] in used for n in graph["nodes"]):
        lagged = lagged | {"loop"}
    branching = any(len(n["deps"]) > 1 for n in graph["nodes"]) or "multi" in kinds
    if lagged and branching:
        # a stage that holds chunks back next to a sibling branch needs buffers above its lag (C13)
        nrows = sum(len(n.get("rows", [])) for n in graph["nodes"])
        nch = max(len(c) for cs in graph["chunkings"].values() for c in cs.values())
        cfg["max_messages"] = nrows + nch + 5 + rng.randint(0, 3)
        cfg["max_messages_raised_above_lag"] = True
    elif branching:
        # a zero-duration chunk is consumed by Plugin.iter's pacemaker dependency one call earlier than by the
        # other dependencies (their buffer already reaches the pacemaker's end), so siblings fed by one ancestor
        # drift apart by one message per zero-duration chunk: buffers must exceed that lag as well
        zd = max(sum(1 for c in ch if c[0] == c[1]) for cs in graph["chunkings"].values() for ch in cs.values())
        if cfg["max_messages"] <= zd:
            cfg["max_messages"] = zd + 1 + rng.randint(0, 2)
            cfg["max_messages_raised_above_lag"] = True
    t = graph.get("d5_template")
    if t and rng.random() < 0.6:
        # one output of the multi-output plugin stays stored, its sibling and everything built on them is removed
        k = rng.randrange(2)
        cfg["force_keep"] = [t["multi"][k]]
        cfg["force_drop"] = [t["multi"][1 - k]] + t["after"]
    return cfg


# ------------------------------------------------------------------------------------------------
# what get_components will decide, derived from the graph and the stored set only
# ------------------------------------------------------------------------------------------------

def plan(graph, stored, target):
    from harness.props import c01_plugins as P
    nodes = P.node_of(graph)
    loaders, compute, seen = set(), [], set()

    def visit(d):
        if d in seen:
            return
        seen.add(d)
        if d in stored:
            loaders.add(d)
            return
        n = nodes[d]
        if n["name"] not in compute:
            compute.append(n["name"])
        for x in n["deps"]:
            visit(x)
    visit(target)
    return loaders, compute


def d5_class(graph, stored, target, cfg):
    from harness.props import c01_plugins as P
    if cfg["processor"] != "threaded_mailbox":
        return False
    loaders, compute = plan(graph, stored, target)
    for n in graph["nodes"]:
        if n["kind"] == "multi" and n["name"] in compute and any(d in loaders for d in P.outputs_of(n)):
            return True
    return False


# ------------------------------------------------------------------------------------------------
# one case = one graph: a preparing run, a pruned store, several measured runs  (runs in a worker)
# ------------------------------------------------------------------------------------------------

def _init_worker(counter):
    with counter.get_lock():
        k = counter.value
        counter.value += 1
    _init_worker_k(k)


def _init_worker_k(k):
    """each worker process gets its own numba cache directory (concurrent writers corrupt a shared one)"""
    os.environ["NUMBA_CACHE_DIR"] = os.path.join(lib.BUILD, "numba_cache", "c01_w%d" % k)
    os.environ["PYTHONDONTWRITEBYTECODE"] = "1"
    if os.environ.get("C01_FAULTHANDLER"):
        import faulthandler
        f = open(os.path.join(lib.BUILD, "tmp", "c01_fh_%d.txt" % k), "w")
        faulthandler.dump_traceback_later(float(os.environ["C01_FAULTHANDLER"]), repeat=True, file=f)


def _quiet():
    import threading
    threading.excepthook = lambda args: None
    devnull = open(os.devnull, "w")
    sys.stdout = devnull
    sys.stderr = devnull
    import logging
    logging.disable(logging.CRITICAL)


def stored_types(d):
    out = {}
    if not os.path.isdir(d):
        return out
    for x in sorted(os.listdir(d)):
        parts = x.split("-")
        if len(parts) == 3 and not x.endswith("_temp"):
            out[parts[1]] = x
    return out


def chunk_obs(ch):
    return [int(ch.start), int(ch.end), [int(x) for x in ch.data["id"]] if "id" in ch.data.dtype.names else len(ch.data)]


def check_stream(chunks, T, data, want):
    """(ii) contiguity / rows inside + (i) rows equal the whole-run oracle.  Returns a reason or None."""
    import numpy as np
    import strax
    if not chunks:
        return "no chunk was yielded"
    if chunks[0][0] != 0:
        return "the first chunk starts at %d, the run starts at 0" % chunks[0][0]
    if chunks[-1][1] != T:
        return "the last chunk ends at %d, the run ends at %d" % (chunks[-1][1], T)
    for a, b in zip(chunks, chunks[1:]):
        if a[1] != b[0]:
            return "chunks are not contiguous: one ends at %d, the next starts at %d" % (a[1], b[0])
    for (s, e), arr in zip([(c[0], c[1]) for c in chunks], data):
        if s > e:
            return "a chunk has negative duration"
        if len(arr) and (arr["time"].min() < s or strax.endtime(arr).max() > e):
            return "a row reaches outside the chunk [%d, %d) that carries it" % (s, e)
    got = np.concatenate(data) if data else want[:0]
    if got.dtype != want.dtype:
        return "dtype differs from the whole-run computation: %s vs %s" % (got.dtype, want.dtype)
    if len(got) != len(want):
        return "%d rows returned, the whole-run computation gives %d" % (len(got), len(want))
    if not np.array_equal(got, want):
        bad = [i for i in range(len(got)) if got[i] != want[i]][:3]
        return "rows differ from the whole-run computation at positions %s: got %s want %s" % (
            bad, [got[i].tolist() for i in bad], [want[i].tolist() for i in bad])
    return None


def run_measured(graph, gid, classes, whole, cfg, store, timeout):
    """One measured run.  Returns dict(outcome=..., reason=..., obs=...)."""
    import numpy as np
    import strax
    from harness.props import c01_plugins as P
    target = graph["target"]
    calls = []
    P.CALLS = calls
    sys.setswitchinterval(cfg.get("switch", 0.005))
    res = {"cfg": cfg, "reason": None, "exc": None}
    try:
        st = strax.Context(storage=[strax.DataDirectory(store)], register=classes,
                           config={"c01_chunking": cfg["chunking"]},
                           allow_lazy=cfg["allow_lazy"], max_messages=cfg["max_messages"],
                           allow_rechunk=cfg["allow_rechunk"], allow_multiprocess=cfg["allow_multiprocess"],
                           timeout=timeout)
        kw = dict(processor=cfg["processor"], max_workers=cfg["max_workers"], progress_bar=False)
        if cfg["api"] == "get_array":
            arr = st.get_array("0", target, **kw)
            chunks = [[0, graph["T"], None]]
            data = [arr]
        else:
            chunks, data = [], []
            for ch in st.get_iter("0", target, **kw):
                chunks.append(chunk_obs(ch))
                data.append(ch.data)
        res["chunks"] = chunks
        res["reason"] = check_stream(chunks, graph["T"], data, whole[target])
    except Exception as e:  # noqa
        res["exc"] = "%s: %s" % (type(e).__name__, str(e)[:300])
        res["reason"] = "the run raised " + res["exc"]
    finally:
        P.CALLS = None
        sys.setswitchinterval(0.005)
    res["calls"] = calls
    # (iv) re-read storage with a fresh context
    try:
        res["stored_after"] = {}
        st2 = strax.Context(storage=[strax.DataDirectory(store)], register=classes, forbid_creation_of="*")
        for d, dirname in stored_types(store).items():
            md = st2.get_metadata("0", d)
            if "exception" in md or "writing_ended" not in md:
                if res["exc"] is None:
                    res["reason"] = res["reason"] or "stored %s carries an exception / unfinished metadata after a clean run" % d
                continue
            chs = [[c["start"], c["end"], c["n"]] for c in md["chunks"]]
            res["stored_after"][d] = chs
            bad = None
            if chs[0][0] != 0 or chs[-1][1] != graph["T"] or any(a[1] != b[0] for a, b in zip(chs, chs[1:])):
                bad = "stored chunks of %s do not tile the run: %s" % (d, chs)
            else:
                arr = st2.get_array("0", d, progress_bar=False)
                if arr.dtype != whole[d].dtype or len(arr) != len(whole[d]) or not np.array_equal(arr, whole[d]):
                    bad = "stored %s re-read by a fresh context differs from the whole-run computation" % d
            if bad:
                res["reason"] = res["reason"] or bad
                res["stored_bad"] = bad
    except Exception as e:  # noqa
        if res["exc"] is None:
            res["reason"] = res["reason"] or "re-reading storage raised %s: %s" % (type(e).__name__, str(e)[:200])
    return res


def warm_up(graph, whole):
    """Compile the numba kernels strax specialises per dtype before any mailbox timeout is running (compiling
    split_by_containment alone can take tens of seconds on a loaded machine)."""
    import strax
    for d, a in whole.items():
        try:
            strax.endtime(a)
            strax.split_array(data=a, t=int(a["time"][0]) + 1 if len(a) else 0, allow_early_split=True)
            if len(a):
                strax.diff(a)
        except Exception:  # noqa
            pass
    for n in graph["nodes"]:
        if n["kind"] == "loop":
            try:
                strax.split_by_containment(whole[n["deps"][1]], whole[n["deps"][0]])
            except Exception:  # noqa
                pass


def attach_model(r, graph, cfg, whole, stored, stored_streams):
    try:
        m, why = model_case(graph, cfg, whole, stored, stored_streams, r.get("calls") or [])
    except Exception:  # noqa
        m, why = None, "model_case crashed: " + traceback.format_exc()[-300:]
    r["model"] = m
    r["model_skip"] = why
    r.pop("calls", None)


def run_case(args):
    """Worker entry: returns a JSON-serialisable report for one graph."""
    graph, cfgs, seed, tag, timeout = args
    _quiet()
    t_0 = time.time()
    import numpy as np  # noqa
    import strax  # noqa
    from harness.props import c01_plugins as P
    rng = random.Random(seed)
    gid = tag
    rep = {"graph": graph, "tag": tag, "runs": [], "error": None}
    base = os.path.join(TMP, tag)
    shutil.rmtree(base, ignore_errors=True)
    os.makedirs(base, exist_ok=True)
    try:
        for n in graph["nodes"]:
            if n["kind"] == "source":
                P.install_source(gid, n, graph["chunkings"][n["name"]])
        classes = P.make_classes(graph, gid)
        whole = P.eval_whole(graph, gid)
        rep["n_target_rows"] = int(len(whole[graph["target"]]))
        rep["t_import"] = round(time.time() - t_0, 2)
        t_1 = time.time()
        warm_up(graph, whole)
        rep["t_warm"] = round(time.time() - t_1, 2)
        # preparing run: chunking 0, everything that may be saved is saved
        prep = os.path.join(base, "prep")
        pcfg = graph.get("prep_cfg") or {"processor": "single_thread", "max_workers": 1, "allow_lazy": True,
                                         "max_messages": 4, "allow_rechunk": True, "chunking": 0, "api": "get_iter",
                                         "allow_multiprocess": False, "switch": 0.005}
        t_1 = time.time()
        r0 = run_measured(graph, gid, classes, whole, pcfg, prep, timeout)
        r0["t"] = round(time.time() - t_1, 2)
        r0["stage"] = "prep"
        r0["stored_before"] = []
        r0["d5"] = False
        attach_model(r0, graph, pcfg, whole, set(), {})
        rep["runs"].append(r0)
        have = stored_types(prep)
        for i, cfg in enumerate(cfgs):
            store = os.path.join(base, "run%d" % i)
            shutil.copytree(prep, store)
            keep = cfg.get("keep")
            if keep is None:
                u = rng.random()
                pk = 0.0 if u < 0.1 else 1.0 if u < 0.15 else rng.choice([0.3, 0.5, 0.7])
                keep = set(d for d in have if rng.random() < pk and not (d == graph["target"] and rng.random() < 0.8))
                keep |= set(d for d in cfg.get("force_keep", []) if d in have)
                keep -= set(cfg.get("force_drop", []))
                keep = sorted(keep)
                cfg["keep"] = keep
            for d, dirname in have.items():
                if d not in keep:
                    shutil.rmtree(os.path.join(store, dirname), ignore_errors=True)
            stored = set(stored_types(store))
            d5 = d5_class(graph, stored, graph["target"], cfg)
            t_1 = time.time()
            r = run_measured(graph, gid, classes, whole, cfg, store, timeout)
            r["t"] = round(time.time() - t_1, 2)
            r["stage"] = "measured"
            r["stored_before"] = sorted(stored)
            r["d5"] = d5
            attach_model(r, graph, cfg, whole, stored, {d: v for d, v in r0.get("stored_after", {}).items() if d in stored})
            rep["runs"].append(r)
            shutil.rmtree(store, ignore_errors=True)
    except Exception:  # noqa
        rep["error"] = traceback.format_exc()[-2000:]
    finally:
        shutil.rmtree(base, ignore_errors=True)
    rep["dirty"] = bool(rep["error"]) or any(r.get("exc") for r in rep["runs"])
    return rep


# ------------------------------------------------------------------------------------------------
# driver
# ------------------------------------------------------------------------------------------------

def shrink_graph_view(graph):
    g = dict(graph)
    return g


def classify(ctx, rep, stats):
    graph = rep["graph"]
    if rep.get("hang"):
        ctx.violation("get_iter", "a case did not finish within the hard deadline even when repeated alone (hang)",
                      {"input": {"graph": graph, "seed_tag": rep["tag"]}, "unit": "get_iter"})
        return
    if rep["error"]:
        ctx.violation("harness", "the C01 worker crashed: " + rep["error"][-400:],
                      {"input": "corr:C01/worker-crash", "graph": graph, "traceback": rep["error"]}, no_failing_input=True)
        return
    kinds = sorted({n["kind"] for n in graph["nodes"]})
    for r in rep["runs"]:
        cfg = r["cfg"]
        stats["runs"] += 1
        key = "%s/w%d/%s" % (cfg["processor"], cfg["max_workers"], "lazy" if cfg["allow_lazy"] else "eager")
        stats["dist"][key] = stats["dist"].get(key, 0) + 1
        for k in kinds:
            stats["dist"]["kind:" + k] = stats["dist"].get("kind:" + k, 0) + 1
        if r["d5"]:
            stats["dist"]["d5_class"] = stats["dist"].get("d5_class", 0) + 1
        stats["dist"]["stored:%d" % min(len(r["stored_before"]), 6)] = stats["dist"].get("stored:%d" % min(len(r["stored_before"]), 6), 0) + 1
        if r.get("retried_after_timeout"):
            stats["dist"]["retried_after_timeout"] = stats["dist"].get("retried_after_timeout", 0) + 1
        nontrivial = rep.get("n_target_rows", 0) >= 1 and len(graph["nodes"]) >= 2
        if nontrivial:
            stats["nontrivial"].add(lib.canon([rep["tag"], cfg, r["stored_before"]]))
        if r["reason"] is None:
            stats["ok"] += 1
            continue
        case = {"graph": graph, "cfg": cfg, "stored_before": r["stored_before"], "stage": r["stage"], "seed_tag": rep["tag"]}
        if graph.get("unit") == ZERO_END_UNIT:
            stats["dist"]["zero_end_probe_failed"] = stats["dist"].get("zero_end_probe_failed", 0) + 1
            ctx.violation(ZERO_END_UNIT, "a zero-length row on the exclusive end of its chunk makes the result depend on "
                          "the chunking: " + r["reason"], {"input": graph["probe_input"], "case": case, "unit": ZERO_END_UNIT})
            continue
        if r["d5"]:
            stats["dist"]["d5_class_failed"] = stats["dist"].get("d5_class_failed", 0) + 1
            case["class"] = D5_INPUT
        if True:
            ctx.violation("get_iter", "Context.%s result depends on chunking / processor / stored subset: %s" % (cfg["api"], r["reason"]),
                          {"input": case, "unit": "get_iter", "observed": {k: r.get(k) for k in ("chunks", "exc", "stored_bad")}})


# ------------------------------------------------------------------------------------------------
# (iii) the extracted Coq model Network.eval_graph on the same run
# ------------------------------------------------------------------------------------------------
NONE_RUN = -999999


def should_save(graph, d, target):
    from harness.props import c01_plugins as P
    n = P.node_of(graph)[d]
    if n["kind"] == "multi":
        sw = (n.get("save_when_multi") or ["ALWAYS", "ALWAYS"])[P.outputs_of(n).index(d)]
    elif n["kind"] == "cut":
        sw = "TARGET"
    elif n["kind"] == "mergeonly":
        sw = "EXPLICIT"
    else:
        sw = n.get("save_when", "ALWAYS")
    return sw == "ALWAYS" or (sw == "TARGET" and d == target)


def can_rechunk(graph, d):
    from harness.props import c01_plugins as P
    n = P.node_of(graph)[d]
    if n["kind"] == "multi" and n.get("rechunk_multi"):
        return bool(n["rechunk_multi"][P.outputs_of(n).index(d)])
    return bool(n.get("rechunk_on_save", True))


def model_case(graph, cfg, whole, stored, stored_streams, calls):
    """The run as input of the extracted model, or (None, why) when a computed node is outside the modelled
    fragment.  Returns (dict(line, ids, saved), None)."""
    from harness.props import c01_plugins as P
    import numpy as np  # noqa
    target = graph["target"]
    nodes = P.node_of(graph)
    kinds = P.kind_of(graph)
    loaders, compute = plan(graph, stored, target)
    needed = set(loaders)
    for n in graph["nodes"]:
        if n["name"] in compute:
            outs = P.outputs_of(n)
            for d in outs:
                if d == target or any(d in m["deps"] for m in graph["nodes"] if m["name"] in compute) or \
                        (d not in stored and should_save(graph, d, target)):
                    needed.add(d)
    order = [d for n in graph["nodes"] for d in P.outputs_of(n) if d in needed]
    ids = {d: i + 1 for i, d in enumerate(order)}
    kind_ids = {}
    for d in order:
        kind_ids.setdefault(kinds[d], len(kind_ids) + 1)

    def is_value(d):
        return nodes[d]["kind"] not in ("cut", "mergeonly")

    def target_rows(d):
        return int(nodes[d].get("target_mb", 200) * 1e6 // P.np_dtype(graph, d).itemsize)

    def enc_rows(d, a):
        v = a[P.vf(graph, d)]
        out = [str(len(a))]
        for i in range(len(a)):
            out += [str(int(a["time"][i])), str(int(a["endtime"][i])), str(int(a["id"][i])), str(int(v[i]))]
        return out

    def enc_given(d, chunks):
        """chunks: list of (start, end, i0, i1)"""
        out = [str(len(chunks))]
        for (s0, e0, i0, i1) in chunks:
            out += [str(s0), str(e0), str(ids[d]), str(kind_ids[kinds[d]]), "0", str(target_rows(d))] + enc_rows(d, whole[d][i0:i1])
        return out

    bounds = {}
    for name, inputs in calls:
        bounds.setdefault(name, []).append((inputs[0][1], inputs[0][2]))
    toks = ["eval", str(len(order))]
    saved = {}
    for d in order:
        n = nodes[d]
        k = n["kind"]
        given = None
        if d in loaders:
            if not is_value(d) or d not in stored_streams:
                return None, "stored %s dependency" % k
            pos = 0
            given = []
            for (s0, e0, cnt) in stored_streams[d]:
                given.append((s0, e0, pos, pos + cnt))
                pos += cnt
            comp, deps = ["0"], []
        elif k == "source":
            given = [tuple(c) for c in graph["chunkings"][d][str(cfg["chunking"])]]
            comp, deps = ["0"], []
        else:
            deps = list(n["deps"])
            if not all(is_value(x) for x in deps) or len(deps) > 2:
                return None, "%s with %d dependencies / cut or merge-only inputs" % (k, len(deps))
            coefs = n.get("coefs") or [1]
            b = n.get("b", 0)
            if k == "loop":
                comp = ["7", str(n.get("a", 1)), str(b)]
            elif k in ("exhaust", "downchunk") and len(deps) > 1:
                return None, "%s over a same-kind merge" % k
            elif k == "exhaust":
                comp = ["3", str(coefs[0]), str(b), str(n.get("nmul", 1))]
            elif k == "downchunk":
                comp = ["4", str(coefs[0]), str(b), str(n["k"])]
            elif k in ("rowwise", "filter", "multi"):
                filt = k == "filter" or (k == "multi" and d.endswith("_q"))
                if len(deps) == 1:
                    comp = ["2" if filt else "1", str(coefs[0]), str(b)]
                else:
                    f1, f2 = P.vf(graph, deps[0]), P.vf(graph, deps[1])
                    a1, a2 = (coefs[0], coefs[1 % len(coefs)]) if f1 != f2 else (0, coefs[0])
                    comp = ["6" if filt else "5", str(a1), str(a2), str(b)]
                if filt:
                    comp += [str(n["mod"]), str(n["rem"])]
            else:
                return None, "kind %s is not in the Coq model" % k
            if len(deps) == 2:
                bs = sorted(bounds.get(n["name"], []))
                if not bs:
                    return None, "no recorded calls for %s" % n["name"]
                comp += [str(len(bs))] + [str(e0) for _, e0 in bs]
        sv = 0
        if d not in loaders and d not in stored and should_save(graph, d, target):
            sv = 2 if (can_rechunk(graph, d) and cfg["allow_rechunk"]) else 1
        saved[d] = sv
        toks += [str(ids[d]), str(len(deps))] + [str(ids[x]) for x in deps] + comp + \
                [str(ids[d]), str(kind_ids[kinds[d]]), "0", str(target_rows(d)), str(sv), "1" if given is not None else "0"]
        if given is not None:
            toks += enc_given(d, given)
    return {"line": " ".join(toks), "ids": ids, "saved": saved}, None


def parse_model_out(out):
    """'1=ok [s e n=.. ids=..] ... | saved ok [...] ; 2=...' -> {id: (stream, saved or None)}"""
    def stream(txt):
        res = []
        for part in txt.replace("] [", "]|[").split("|") if txt.strip() else []:
            f = part.strip().strip("[]").split()
            ids_ = f[3][4:]
            res.append([int(f[0]), int(f[1]), [int(x) for x in ids_.split(",")] if ids_ else []])
        return res
    res = {}
    for item in out.split(" ; "):
        key, rest = item.split("=", 1)
        main, _, sv = rest.partition(" | saved ")
        if not main.startswith("ok"):
            res[int(key)] = (main, None)
            continue
        res[int(key)] = (stream(main[2:].strip()), (stream(sv[2:].strip()) if sv.startswith("ok") else sv) if sv else None)
    return res


def compare_model(ctx, reports, stats):
    """run the extracted model on every modelled run and diff chunk-for-chunk"""
    jobs = []
    for rep in reports:
        for r in rep.get("runs", []):
            if r.get("model"):
                jobs.append((rep, r))
            elif r.get("model_skip"):
                stats["dist"]["model_skipped"] = stats["dist"].get("model_skipped", 0) + 1
    if not jobs:
        return
    try:
        outs = lib.run_model_parallel("C01", [r["model"]["line"] for _, r in jobs])
    except Exception as e:  # noqa
        ctx.violation("eval_graph", "the extracted model driver failed: %s" % str(e)[:300],
                      {"input": "corr:C01/eval_graph/driver"}, no_failing_input=True)
        return
    n_cmp = 0
    for (rep, r), out in zip(jobs, outs):
        if r["reason"] is not None:
            continue  # the run itself failed the property: already reported with its concrete input
        m = r["model"]
        n_cmp += 1
        diff = None
        if out.startswith("err") or out.startswith("EXC") or out in ("BAD", "UNKNOWN"):
            diff = "the model rejects the run (%s) while strax produced the whole-run rows" % out
        else:
            parsed = parse_model_out(out)
            tid = m["ids"][rep["graph"]["target"]]
            if r.get("chunks") and r["cfg"]["api"] == "get_iter":
                want = parsed[tid][0]
                if want != r["chunks"]:
                    diff = "target chunks differ: strax %s, model %s" % (r["chunks"][:6], want[:6] if isinstance(want, list) else want)
            for d, sv in m["saved"].items():
                if diff or not sv or d not in r.get("stored_after", {}):
                    continue
                mod = parsed[m["ids"][d]][1]
                got = r["stored_after"][d]
                if not isinstance(mod, list) or [[c[0], c[1], len(c[2])] for c in mod] != got:
                    diff = "saved chunks of %s differ: strax %s, model %s" % (d, got[:6], mod[:6] if isinstance(mod, list) else mod)
        if diff:
            ctx.violation("eval_graph", "Network.eval_graph and strax disagree (the result itself equals the whole-run "
                          "computation): " + diff,
                          {"input": "corr:C01/eval_graph", "case": {"graph": rep["graph"], "cfg": r["cfg"],
                                                                    "stored_before": r["stored_before"], "stage": r["stage"]},
                           "model_line": m["line"][:4000], "model_out": out[:2000]}, no_failing_input=True)
    ctx.count("eval_graph", n_cmp, n_cmp, {"runs_compared_with_model": n_cmp})
    # extraction cross-check: a sample of the model evaluations is repeated inside Coq by vm_compute
    from harness.props import c01_coq
    sample = [(rep, r, out) for (rep, r), out in zip(jobs, outs) if len(r["model"]["line"]) < 6000]
    ctx.rng.shuffle(sample)
    eqs = []
    for rep, r, out in sample[:(12 if ctx.thorough else 5)]:
        tid = r["model"]["ids"][rep["graph"]["target"]]
        if out.startswith("err"):
            want = None
        elif out.startswith("EXC") or out in ("BAD", "UNKNOWN"):
            continue
        else:
            want = parse_model_out(out)[tid][0]
            if not isinstance(want, list):
                continue
        eqs.append(c01_coq.equation(r["model"]["line"], tid, want))
    if eqs:
        n_eq, fails = lib.coq_crosscheck("C01", c01_coq.IMPORTS, eqs, shard=3)
        ctx.count("extraction_crosscheck", n_eq, n_eq, {"vm_compute_equations": n_eq})
        if fails:
            ctx.violation("extraction_crosscheck", "eval_graph evaluated inside Coq (vm_compute) differs from the extracted "
                          "OCaml driver: " + fails[0][-400:], {"input": "corr:C01/extraction_crosscheck", "log": fails[0][-1500:]},
                          no_failing_input=True)



def _worker_main(k, inq, outq):
    _init_worker_k(k)
    while True:
        item = inq.get()
        if item is None:
            return
        idx, task = item
        outq.put(("start", k, idx, None))
        rep = run_case(task)
        outq.put(("done", k, idx, rep))
        if rep.get("dirty"):
            return  # threads of a failed run may linger: continue in a fresh process


def run_pool(tasks, nproc, deadline=1500):
    """Own process pool: spawn context, one numba cache per worker slot, workers that ran a failing case are
    replaced, dead workers are replaced and their task is retried, a task beyond the deadline is reported."""
    import multiprocessing as mp
    import queue
    mpc = mp.get_context("spawn")
    inq, outq = mpc.Queue(), mpc.Queue()
    for i, t in enumerate(tasks):
        inq.put((i, t))
    results, pending, running, attempts = {}, set(range(len(tasks))), {}, {}
    workers = {}

    def spawn(k):
        p = mpc.Process(target=_worker_main, args=(k, inq, outq), daemon=True)
        p.start()
        workers[k] = p
    for k in range(min(nproc, len(tasks))):
        spawn(k)
    idle_since = time.time()
    while pending:
        try:
            kind, k, idx, rep = outq.get(timeout=0.5)
            idle_since = time.time()
            if kind == "start":
                running[k] = (idx, time.time())
            else:
                running.pop(k, None)
                if idx in pending:
                    pending.discard(idx)
                    results[idx] = rep
        except queue.Empty:
            pass
        for k, p in list(workers.items()):
            if k in running and time.time() - running[k][1] > deadline and p.is_alive():
                p.terminate()
                p.join(5)
                idx = running.pop(k)[0]
                pending.discard(idx)
                results[idx] = {"graph": tasks[idx][0], "tag": tasks[idx][3], "runs": [], "error": None, "hang": True}
            if not p.is_alive():
                if k in running:
                    idx = running.pop(k)[0]
                    attempts[idx] = attempts.get(idx, 0) + 1
                    if idx in pending:
                        if attempts[idx] < 3:
                            inq.put((idx, tasks[idx]))
                        else:
                            pending.discard(idx)
                            results[idx] = {"graph": tasks[idx][0], "tag": tasks[idx][3], "runs": [],
                                            "error": "the worker process died three times on this case"}
                del workers[k]
                if len(pending) > len(running):
                    spawn(k)
        if not running and pending and time.time() - idle_since > 120:
            # a task was lost between get() and its start message
            for idx in pending:
                inq.put((idx, tasks[idx]))
            idle_since = time.time()
            for k in range(min(nproc, len(pending))):
                if k not in workers:
                    spawn(k)
    for _ in workers:
        inq.put(None)
    for p in workers.values():
        p.join(10)
        if p.is_alive():
            p.terminate()
    return [results[i] for i in range(len(tasks))]


TIMEOUT_WORDS = ("Timeout", "did not terminate", "timed out", "in time")


def run(ctx):
    os.environ["C01_TMP"] = TMP   # inherited by the spawned workers
    os.makedirs(TMP, exist_ok=True)
    t_start = time.time()
    big = ctx.thorough or ctx.escalated()
    n_graphs = 1500 if ctx.thorough else (220 if ctx.escalated() else 110)
    n_graphs = int(os.environ.get("C01_NGRAPHS", n_graphs))  # development aid
    n_cfg = 4 if big else 3
    rng = ctx.rng
    tasks = []
    while len(tasks) < n_graphs:
        g = gen_graph(rng, thorough=ctx.thorough)
        if not staircase_ok(g):
            continue
        cfgs = [gen_config(rng, g, ctx.thorough) for _ in range(n_cfg)]
        g["prep_cfg"] = dict(gen_config(rng, g), chunking=0, api="get_iter", switch=0.005)
        tag = "s%d_%s_%d" % (ctx.seed, ctx.tier[0], len(tasks))
        tasks.append((g, cfgs, rng.randrange(1 << 30), tag, 60))
    tasks = zero_end_tasks() + corpus_tasks() + tasks
    stats = {"runs": 0, "ok": 0, "dist": {}, "nontrivial": set()}
    nproc = int(os.environ.get("C01_NPROC", min(14, os.cpu_count() or 4)))
    t_gen = time.time() - t_start
    reports = run_pool(tasks, nproc)
    t_pool = time.time() - t_start - t_gen
    # never raise an alarm on timing alone: runs that ended in a timeout are repeated, few at a time, with a
    # five-minute mailbox timeout; only a timeout that persists is reported
    redo = []
    for i, rep in enumerate(reports):
        slow = [j for j, r in enumerate(rep.get("runs", [])) if r.get("exc") and any(w in r["exc"] for w in TIMEOUT_WORDS)]
        if slow or rep.get("hang"):
            g, cfgs, sd, tag, _ = tasks[i]
            redo.append((i, (g, cfgs, sd, tag + "_redo", 300)))
    if redo:
        again = run_pool([t for _, t in redo], min(4, nproc), deadline=3000)
        for (i, _), rep in zip(redo, again):
            rep["redone_after_timeout"] = True
            reports[i] = rep
        stats["dist"]["cases_repeated_after_timeout"] = len(redo)
    for rep in reports:
        classify(ctx, rep, stats)
    t_cls = time.time()
    compare_model(ctx, reports, stats)
    ctx.notes.append("timing: generation %.1fs, worker pool %.1fs (%d workers), model comparison %.1fs; in workers: "
                     "import+oracle %.0fs, warm-up compile %.0fs, runs %.0fs (summed over workers)"
                     % (t_gen, t_pool, nproc, time.time() - t_cls,
                        sum(r.get("t_import", 0) for r in reports), sum(r.get("t_warm", 0) for r in reports),
                        sum(x.get("t", 0) for r in reports for x in r.get("runs", []))))
    ctx.count("get_iter", stats["runs"], len(stats["nontrivial"]), stats["dist"])
    for rep in reports[-6:]:
        if rep.get("runs"):
            r = rep["runs"][-1]
            ctx.sample({"nodes": [(n["name"], n["kind"], n["deps"]) for n in rep["graph"]["nodes"]],
                        "target": rep["graph"]["target"], "cfg": r["cfg"], "stored_before": r["stored_before"],
                        "chunks": (r.get("chunks") or [])[:4]})
    ctx.coverage["rule"] = (
        "One evaluation = one real Context.get_iter/get_array run on a random plugin graph (2..7 nodes from the kinds "
        "source/rowwise(+same-kind merge)/filter/cut/mergeonly/multi-output/loop/overlap-window/down-chunking/exhaust) "
        "under one (processor, max_workers, allow_lazy, max_messages, allow_rechunk, source chunking, stored subset) "
        "configuration, checked against the whole-run oracle, chunk tiling, and a storage re-read.  Non-trivial: the "
        "target has >= 1 row and the graph >= 2 nodes; distinct by (graph, configuration, stored subset).")
    shutil.rmtree(TMP, ignore_errors=True)


def replay(ctx, obj):
    r = obj["replay"]
    case = r.get("case") if isinstance(r.get("input"), str) else r.get("input")
    if not isinstance(case, dict) or "graph" not in case:
        print("nothing to replay (no concrete case in this file)")
        return 0
    graph = case["graph"]
    cfg = dict(case["cfg"])
    cfg["keep"] = case["stored_before"]
    if case.get("stage") == "prep":
        graph = dict(graph, prep_cfg=cfg)
        cfgs = []
    else:
        cfgs = [cfg]
    os.makedirs(TMP, exist_ok=True)
    os.environ.setdefault("NUMBA_CACHE_DIR", os.path.join(lib.BUILD, "numba_cache", "c01_replay"))
    out = sys.stdout
    rep = run_case((graph, cfgs, 0, "replay_%d" % os.getpid(), 120))
    shutil.rmtree(TMP, ignore_errors=True)
    sys.stdout = out
    sys.stderr = sys.__stderr__
    if rep["error"]:
        print("worker error:", rep["error"])
        return 1
    run = rep["runs"][-1]
    print("configuration:", json.dumps(run["cfg"]), "stored:", run["stored_before"])
    print("outcome:", run["reason"] or "matches the whole-run computation")
    return 1 if run["reason"] else 0
