"""C19 unit: compute_index_of_fraction vs Model/PeakProps.v::index_of_fraction and the first-crossing definition.

A case: (A, length, data, fractions); data = the whole peak["data"] buffer (ints), fractions = list of Fraction.
"""
import itertools
from fractions import Fraction

import numpy as np
import strax

from harness import lib
from harness.props.c19_common import Unit, big, peak_dt

NAME = "index_of_fraction"
RULE = ("index_of_fraction: all waveforms of 1..4 (thorough 5) samples over {0..3} with area in {1,2,4,8,16} (equal to "
        "the sum or not), five sorted dyadic fraction lists (eighths incl. 0 and 1), length = or < the filled buffer; "
        "plus seeded random waveforms of <= 8 samples with values up to 12, area a power of two; float32 results must "
        "lie within the rigorous bound of one division, one addition and one float32 store (relative 2^-23) of the "
        "model's exact rational; non-trivial = >= 2 non-zero samples and a fraction strictly between 0 and 1 crossed "
        "inside a sample; distinct by canonical JSON.")
NS = 8
FRACTION_SETS = [
    [Fraction(1, 2)],
    [Fraction(1, 4), Fraction(1, 2), Fraction(3, 4)],
    [Fraction(0), Fraction(1, 2), Fraction(1)],
    [Fraction(k, 8) for k in range(9)],
    [Fraction(1, 8), Fraction(1, 8), Fraction(7, 8), Fraction(1)],
]


def impl(A, length, data, fs):
    p = np.zeros(1, dtype=peak_dt(2, NS))
    p["data"][0, :len(data)] = data
    p["length"] = length
    p["area"] = A
    res = np.zeros(len(fs), dtype=np.float32)
    strax.compute_index_of_fraction(p[0], np.array([float(f) for f in fs], dtype=np.float64), res)
    return [Fraction(float(x)) for x in res]


def spec(A, length, data, fs):
    """first crossing of the cumulative area fraction, linear inside the sample; unreached -> 0;
    if the fraction needed when the scan stops is 1, the last entry is the peak length."""
    out = []
    for f in fs:
        S, val = 0, None
        for i, x in enumerate(data[:length]):
            if S + x >= f * A:
                val = Fraction(i) + ((f * A - S) / x if x != 0 else 0)
                break
            S += x
        out.append(val)
    first_unfound = next((f for f, v in zip(fs, out) if v is None), None)
    needed = first_unfound if first_unfound is not None else fs[-1]
    res = [v if v is not None else Fraction(0) for v in out]
    if needed == 1:
        res[-1] = Fraction(length)
    return res


def close(v, q):
    """|v - q| within the rounding bound of (one float64 division, one float64 addition, one float32 store)"""
    return abs(v - q) <= abs(q) * Fraction(1, 2 ** 23)


def same(a, b):
    return len(a) == len(b) and all(close(x, y) for x, y in zip(a, b))


def predicate(A, length, data, fs, out):
    exp = spec(A, length, data, fs)
    for k, (v, e) in enumerate(zip(out, exp)):
        if not close(v, e):
            return "fraction %s: returned index %s but the cumulative area reaches it at %s" % (fs[k], float(v), float(e))
    return None


def line(A, length, data, fs):
    data = data[:length]    # the model takes peak["data"][:peak["length"]]
    return "iof %d 1 %d %d %s %d %s" % (A, length, len(data), " ".join(map(str, data)), len(fs),
                                       " ".join("%d %d" % (f.numerator, f.denominator) for f in fs))


def cases_of(ctx):
    cases = []
    nmax = 5 if big(ctx) else 4
    for n in range(1, nmax + 1):
        for data in itertools.product(range(4), repeat=n):
            s = sum(data)
            areas = {1, 4, 16} | ({s} if s in (1, 2, 4, 8, 16) else set())
            for A in sorted(areas):
                for fi, fs in enumerate(FRACTION_SETS):
                    cases.append((A, n, list(data), fs))
                    if n >= 2 and fi == 3:
                        cases.append((A, n - 1, list(data), fs))
    r = ctx.rng
    for _ in range(20000 if ctx.thorough else 3000):
        n = r.randint(1, NS)
        data = [r.choice([0, 0, 1, 2, 3, 5, 12]) for _ in range(n)]
        s = sum(data)
        A = r.choice([1, 2, 4, 8, 16, 32])
        if s and (s & (s - 1)) == 0 and r.random() < 0.7:
            A = s
        k = r.randint(1, 5)
        den = r.choice([2, 4, 8, 16])
        fs = sorted(Fraction(r.randint(0, den), den) for _ in range(k))
        cases.append((A, r.randint(max(1, n - 1), n), data, fs))
    return cases


def unit(ctx):
    u = Unit(ctx, NAME)
    cases = cases_of(ctx)
    mout = lib.run_model_parallel("C19", [line(*c) for c in cases])
    for c, mo in zip(cases, mout):
        A, length, data, fs = c
        out = impl(*c)
        v = list(map(int, mo.split()))
        mexp = [Fraction(v[2 * i], v[2 * i + 1]) for i in range(len(v) // 2)]
        u.n += 1
        u.tally("area==sum" if sum(data[:length]) == A else "area!=sum")
        if sum(1 for x in data[:length] if x) >= 2 and any(0 < f < 1 and e.denominator != 1 for f, e in zip(fs, mexp)):
            u.nontriv.add(lib.canon([A, length, data, [str(f) for f in fs]]))
        inp = {"A": A, "length": length, "data": data, "fractions": [[f.numerator, f.denominator] for f in fs]}
        if not same(out, mexp):
            u.report(inp, str([float(x) for x in out]), str([float(x) for x in mexp]), predicate(A, length, data, fs, out))
            if u.bad > 5:
                break
        else:
            reason = predicate(A, length, data, fs, out)
            if reason:
                u.report(inp, str([float(x) for x in out]), str([float(x) for x in mexp]),
                         "implementation AND model deviate from the first-crossing definition: " + reason)
    u.done()
    k = len(cases) // 2
    ctx.sample({"unit": u.name, "area": cases[k][0], "length": cases[k][1], "data": cases[k][2],
                "fractions": [str(f) for f in cases[k][3]], "model(num den ...)": mout[k]})


def replay(inp):
    fs = [Fraction(a, b) for a, b in inp["fractions"]]
    out = impl(inp["A"], inp["length"], inp["data"], fs)
    reason = predicate(inp["A"], inp["length"], inp["data"], fs, out)
    print("impl:", [float(x) for x in out], "spec:", reason or "holds")
    return 1 if reason else 0
