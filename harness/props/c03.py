"""C03 - saving then loading returns the same rows, ranges and consistent metadata.

Drives the real strax.DataDirectory / FileSaver / StorageBackend.loader (and the single-thread
processor's SaverSpy) on generated chunk streams and compares the directory left on disk and the
loader's output with the extracted Coq model (Model/SaverLoader.v), case by case.  Independently of
the model the property's own predicate (byte-identical rows, same range, boundaries, every metadata
field against the files) is evaluated on the implementation's behaviour.
"""
import json
import os
import pickle
import shutil
import sys
from concurrent.futures import ThreadPoolExecutor

import numpy as np
import strax

from harness import gen, lib
from harness.props import c07

MODEL_PROPS = ["C03"]
LEVEL = "proof"
NONE = -999999
TMP = os.path.join(lib.BUILD, "tmp", "c03", str(os.getpid()))

COMPRESSORS = ["blosc", "zstd", "lz4", "bz2"]

# ------------------------------------------------------------------------------------------
# dtypes: time+endtime / time+length+dt, scalar, array-valued and titled fields
# ------------------------------------------------------------------------------------------
DTYPES = [
    # 0: endtime, titled scalars
    np.dtype([(("Start time", "time"), np.int64), (("End time", "endtime"), np.int64),
              ("id", np.int64), ("channel", np.int16)]),
    # 1: length*dt, untitled scalars
    np.dtype([("time", np.int64), ("length", np.int32), ("dt", np.int16), ("id", np.int64),
              ("channel", np.int16)]),
    # 2: endtime, titled array-valued and float fields
    np.dtype([(("Start time", "time"), np.int64), (("End time", "endtime"), np.int64),
              (("Waveform", "data"), np.int16, (5,)), ("id", np.int64), (("Channel number", "channel"), np.int16),
              (("Area", "area"), np.float32)]),
    # 3: length*dt, titled, 2-d array field and bool
    np.dtype([(("Start time", "time"), np.int64), (("Length", "length"), np.int32), (("Sample width", "dt"), np.int16),
              ("id", np.int64), ("channel", np.int16), (("Matrix", "m"), np.uint8, (2, 3)), ("flag", np.bool_)]),
]


def mk_array(rows, v):
    dt = DTYPES[v]
    a = np.zeros(len(rows), dtype=dt)
    for i, (t, e, rid, ch) in enumerate(rows):
        a[i]["time"] = t
        if "endtime" in dt.names:
            a[i]["endtime"] = e
        else:
            w = 2 if ((e - t) % 2 == 0 and rid % 2 == 1) else 1
            a[i]["dt"] = w
            a[i]["length"] = (e - t) // w
        a[i]["id"] = rid
        a[i]["channel"] = ch
        if "data" in dt.names:
            a[i]["data"] = [(rid * 7 + k * 3) % 251 - 100 for k in range(5)]
            a[i]["area"] = rid / 4.0
        if "m" in dt.names:
            a[i]["m"] = [[(rid + k) % 256 for k in range(3)], [(rid * 5 + k) % 256 for k in range(3)]]
            a[i]["flag"] = rid % 3 == 0
    return a


def real_chunk(c, v):
    a = mk_array(c["rows"], v)
    return strax.Chunk(start=c["s"], end=c["e"], data=a, dtype=a.dtype, data_type="dt%d" % c["dt"],
                       data_kind="k%d" % c["kind"], run_id=None if c["run"] is None else str(c["run"]),
                       target_size_mb=(c["tgt"] + 0.5) * a.itemsize / 1e6)


def ids_of(a):
    return [int(x) for x in a["id"]]


# ------------------------------------------------------------------------------------------
# error mapping
# ------------------------------------------------------------------------------------------

def err_code(e):
    if isinstance(e, strax.DataNotAvailable):
        return 40
    if isinstance(e, strax.DataCorrupted):
        return 43
    if isinstance(e, FileNotFoundError):
        return 44
    msg = str(e)
    if isinstance(e, ValueError) and "it has no chunks" in msg:
        return 41
    if isinstance(e, KeyError) and msg.strip("'\"") in ("run_d", "filename", "start", "end", "run_id"):
        return 42
    if isinstance(e, ValueError) and "chunk metadata is missing fields" in msg:
        return 42
    if isinstance(e, RuntimeError) and ("already closed" in msg or "already renamed" in msg):
        return 45
    return c07.err_code(e)


# ------------------------------------------------------------------------------------------
# a case
# ------------------------------------------------------------------------------------------
# case = {"stream": [achunk...], "v": dtype variant, "comp": 0..3, "rechunk": 0/1, "allow": 0/1,
#         "sexec": 0/1 (thread pool for saving), "lexec": 0/1, "forked": 0/1, "order": [..] (forked children),
#         "driver": "save_from" | "spy", "mdtgt": rows or None, "ai": allow_incomplete,
#         "tamper": [op, a, b, rows]}

def default_target(v):
    return int(strax.DEFAULT_CHUNK_SIZE_MB * 1e6 // DTYPES[v].itemsize)


def model_line(case):
    v = case["v"]
    isz = DTYPES[v].itemsize
    st = case["stream"]
    top, ta, tb, trows = case["tamper"]
    md = case.get("md", {})
    toks = ["run", case["rechunk"], case["allow"], case["sexec"], case["forked"], isz,
            md.get("run", 7), md.get("dt", 1), md.get("kind", 1), v + 1, case["comp"],
            NONE if case["mdtgt"] is None else case["mdtgt"],
            case["ai"], default_target(v), top, ta, tb, len(case["order"])] + list(case["order"]) + [len(st)]
    return " ".join(str(x) for x in toks) + " " + " ".join(c07.enc_chunk(c) for c in st) + " " + \
        c07.impl.enc_rows(trows)


_counter = [0]


def fresh_dir():
    _counter[0] += 1
    d = os.path.join(TMP, "%d_%d" % (os.getpid(), _counter[0]))
    shutil.rmtree(d, ignore_errors=True)
    return d


def so(x):
    return "-" if x is None else str(int(x))


class Impl:
    """One run of the real saver / loader; collects the canonical line and the raw observations."""

    def __init__(self, case, pool):
        self.case = case
        self.pool = pool
        self.v = case["v"]
        self.dtype = DTYPES[self.v]
        self.comp = COMPRESSORS[case["comp"]]
        self.dir = fresh_dir()
        self.notes = []

    def run(self):
        try:
            return self._run()
        finally:
            shutil.rmtree(self.dir, ignore_errors=True)

    def _run(self):
        case = self.case
        isz = self.dtype.itemsize
        fe = strax.DataDirectory(self.dir)
        lineage = {"dt1": ("P", "0", {})}
        key = strax.DataKey("7", "dt1", lineage)
        self.key = key
        mdc = case.get("md", {})
        md = dict(run_id=str(mdc.get("run", 7)), data_type="dt%d" % mdc.get("dt", 1), data_kind="k%d" % mdc.get("kind", 1),
                  dtype=self.dtype, lineage_hash=key.lineage_hash, compressor=self.comp, lineage=lineage)
        if case["mdtgt"] is not None:
            md["chunk_target_size_mb"] = (case["mdtgt"] + 0.5) * isz / 1e6
        self.inputs = [real_chunk(c, self.v) for c in case["stream"]]
        saver = fe.saver(key, md, saver_timeout=300)
        saver.allow_rechunk = bool(case["allow"])
        self.save = "ok"
        try:
            if case["order"]:
                saver.is_forked = True
                for k in case["order"]:
                    if not case.get("realfork"):
                        # a ProcessPoolExecutor task works on a pickled copy of the saver
                        s2 = pickle.loads(pickle.dumps(saver))
                        s2.save(chunk=self.inputs[k], chunk_i=k)
                        continue
                    pid = os.fork()
                    if pid == 0:
                        code = 0
                        try:
                            s2 = pickle.loads(pickle.dumps(saver))
                            s2.save(chunk=self.inputs[k], chunk_i=k)
                        except BaseException:  # noqa
                            code = 1
                        os._exit(code)
                    _, status = os.waitpid(pid, 0)
                    if status != 0:
                        raise RuntimeError("forked child failed")
                saver.close()
            elif case["driver"] == "spy":
                from strax.processors.single_thread import SaverSpy
                spy = SaverSpy(saver, rechunk=bool(case["rechunk"]))
                try:
                    for c in self.inputs:
                        spy.receive(c)
                    spy.close()
                except Exception:
                    # what SingleThreadProcessor.iter does: kill_spies() inside the except block
                    try:
                        spy.kill("failed")
                    except Exception:  # noqa
                        pass
                    raise
            else:
                if case["forked"]:
                    saver.is_forked = True
                saver.save_from((c for c in self.inputs), rechunk=bool(case["rechunk"]),
                                executor=self.pool if case["sexec"] else None)
        except Exception as e:  # noqa
            self.save = "err%s" % err_code(e)
        self.closed = int(bool(saver.closed))
        final = os.path.join(self.dir, str(key))
        temp = final + "_temp"
        self.final = int(os.path.isdir(final))
        self.temp_exists = os.path.isdir(temp)
        self.datadir = final if self.final else temp
        self.prefix = strax.dirname_to_prefix(final)
        self.mdpath = os.path.join(self.datadir, strax.RUN_METADATA_PATTERN % self.prefix)
        self.apply_tamper()
        with open(self.mdpath) as f:
            self.md = json.load(f)
        self.listing = sorted(os.listdir(self.datadir))
        # files on disk
        self.files = {}
        self.sizes = {}
        self.file_comp = {}
        self.metas = []
        for fn in self.listing:
            if fn == os.path.basename(self.mdpath):
                continue
            if fn.startswith("metadata_"):
                self.metas.append(int(fn[len("metadata_"):-len(".json")][-6:]))
                continue
            tail = fn[len(self.prefix) + 1:]
            if fn.startswith(self.prefix + "-") and tail.isdigit():
                self.files[int(tail)] = None
                self.sizes[int(tail)] = os.path.getsize(os.path.join(self.datadir, fn))
                self.file_comp[int(tail)] = case["comp"]
                tries = [case["comp"]] + ([case["tamper"][2]] if case["tamper"][0] == 4 else [])
                for ci_ in tries:
                    try:
                        self.files[int(tail)] = strax.load_file(os.path.join(self.datadir, fn),
                                                                compressor=COMPRESSORS[ci_], dtype=self.dtype)
                        self.file_comp[int(tail)] = ci_
                        break
                    except Exception:  # noqa
                        pass
            else:
                self.notes.append("stray file " + fn)
        # load
        self.loaded = None
        try:
            it = fe.loader(key, allow_incomplete=bool(case["ai"]), executor=self.pool if case["lexec"] else None)
            out = []
            for x in it:
                out.append(x.result() if case["lexec"] else x)
            self.loaded = out
            self.load = "ok " + " ".join(self.show_chunk(c) for c in out)
        except Exception as e:  # noqa
            self.load = "err%s" % err_code(e)
        return self.line()

    def apply_tamper(self):
        top, ta, tb, trows = self.case["tamper"]
        if top == 0:
            return
        with open(self.mdpath) as f:
            md = json.load(f)
        def fname(k):
            # the chunk file with number k, whatever zero padding the saver uses
            for fn in os.listdir(self.datadir):
                tail = fn[len(self.prefix) + 1:]
                if fn.startswith(self.prefix + "-") and tail.isdigit() and int(tail) == k:
                    return os.path.join(self.datadir, fn)
            return os.path.join(self.datadir, "%s-%06d" % (self.prefix, k))
        wr = False
        if top == 1:
            if ta < len(md["chunks"]):
                md["chunks"][ta]["n"] = tb
                wr = True
        elif top == 2:
            if os.path.exists(fname(ta)):
                os.remove(fname(ta))
        elif top == 3:
            if os.path.exists(fname(ta)):
                with open(fname(ta), "wb") as f:
                    f.write(b"\x00garbage-not-a-compressed-stream\xff" * 3)
        elif top == 4:
            if os.path.exists(fname(ta)):
                strax.save_file(fname(ta), mk_array(trows, self.v), compressor=COMPRESSORS[tb])
        elif top == 5:
            fa, fb = fname(ta), fname(tb)
            if os.path.exists(fa) and os.path.exists(fb) and ta != tb:
                os.rename(fa, fa + "_x")
                os.rename(fb, fa)
                os.rename(fa + "_x", fb)
        elif top == 6:
            md.pop(["run_id", "data_type", "data_kind", "dtype", "compressor", "chunk_target_size_mb"][ta], None)
            wr = True
        elif top == 7:
            if ta < len(md["chunks"]):
                md["chunks"][ta].pop(["start", "end", "run_id", "filename"][tb], None)
                wr = True
        elif top == 8:
            md["chunks"] = []
            wr = True
        elif top == 9:
            md.pop("writing_ended", None)
            wr = True
        elif top == 10:
            md["exception"] = "Traceback: tampered"
            wr = True
        elif top == 11:
            md["compressor"] = COMPRESSORS[ta]
            wr = True
        if wr:
            with open(self.mdpath, "w") as f:
                f.write(json.dumps(md, sort_keys=True, indent=4))

    def tgt_rows(self, mb):
        return int(mb * 1e6 // self.dtype.itemsize)

    def show_chunk(self, c):
        return "[%d %d run=%s dt=%s kind=%s tgt=%d n=%d ids=%s]" % (
            c.start, c.end, "-" if c.run_id is None else c.run_id, c.data_type[2:], c.data_kind[1:],
            self.tgt_rows(c.target_size_mb), len(c), ",".join(str(x) for x in ids_of(c.data)))

    def line(self):
        md = self.md

        def name_id(x, prefix):
            return "-" if x is None else x[len(prefix):]
        row = "-"
        if "dtype" in md:
            row = str(self.v + 1) if md["dtype"] == repr(self.dtype.descr) else "?" + md["dtype"]
        cis = []
        for ci in md["chunks"]:
            fn = ci.get("filename")
            cis.append(":".join([
                so(ci.get("chunk_i")), so(ci.get("n")), so(ci.get("start")), so(ci.get("end")),
                "-" if ci.get("run_id") is None else ci["run_id"], so(ci.get("nbytes")),
                so(ci.get("first_time")), so(ci.get("first_endtime")), so(ci.get("last_time")), so(ci.get("last_endtime")),
                "-" if fn is None else str(int(fn[len(self.prefix) + 1:])) if fn.startswith(self.prefix + "-") else "?" + fn,
                "1" if "filesize" in ci else "-"]))
        files = []
        for k in sorted(self.files):
            a = self.files[k]
            files.append("%d=%s" % (k, "X" if a is None else "%d/%s" % (self.file_comp[k], ",".join(str(x) for x in ids_of(a)))))
        return "save=%s closed=%d final=%d md[start=%s end=%s ended=%d exc=%d run=%s dt=%s kind=%s row=%s comp=%s tgt=%s] " \
               "chunks[%s] files[%s] metas[%s] load=%s" % (
                   self.save, self.closed, self.final, so(md.get("start")), so(md.get("end")),
                   int("writing_ended" in md), int("exception" in md), md.get("run_id", "-"),
                   name_id(md.get("data_type"), "dt"), name_id(md.get("data_kind"), "k"), row,
                   "-" if "compressor" not in md else COMPRESSORS.index(md["compressor"]),
                   "-" if "chunk_target_size_mb" not in md else self.tgt_rows(md["chunk_target_size_mb"]),
                   ";".join(cis), ";".join(files), ";".join(str(k) for k in sorted(self.metas)), self.load)


# ------------------------------------------------------------------------------------------
# the property's own predicate, evaluated on the implementation's observations
# ------------------------------------------------------------------------------------------

def stream_valid(st):
    """contiguous, well-formed, one data type and run, positive targets"""
    if not st:
        return False
    for c in st:
        rows = c["rows"]
        if c["s"] < 0 or c["s"] > c["e"] or c["run"] != st[0]["run"] or c["dt"] != st[0]["dt"] or c["tgt"] < 1:
            return False
        if any(r[0] < c["s"] or r[1] > c["e"] or r[0] > r[1] for r in rows):
            return False
        if any(a[0] > b[0] for a, b in zip(rows[:-1], rows[1:])):
            return False
    return all(a["e"] == b["s"] for a, b in zip(st[:-1], st[1:]))


def spec_roundtrip(case, im):
    """None if the real saver/loader satisfied C03 on this (valid, untampered) case, else a reason."""
    st = case["stream"]
    if im.save != "ok":
        return "saving a valid contiguous stream failed: " + im.save
    if im.loaded is None:
        return "loading what was just saved failed: " + im.load
    out = im.loaded
    dtype = im.dtype
    want = np.concatenate([c.data for c in im.inputs]) if im.inputs else np.zeros(0, dtype)
    for c in out:
        if c.data.dtype != dtype or c.dtype != dtype:
            return "dtype of loaded data differs from the saved dtype: %s" % (c.data.dtype,)
    got = np.concatenate([c.data for c in out]) if out else np.zeros(0, dtype)
    if got.tobytes() != want.tobytes():
        return "loaded rows are not bit-identical to the saved rows (or not in the same order)"
    if not out:
        return "no chunk loaded"
    if out[0].start != st[0]["s"] or out[-1].end != st[-1]["e"]:
        return "overall time range changed: saved [%d,%d) loaded [%d,%d)" % (st[0]["s"], st[-1]["e"], out[0].start, out[-1].end)
    for a, b in zip(out[:-1], out[1:]):
        if a.end != b.start:
            return "loaded chunks are not contiguous at %d / %d" % (a.end, b.start)
    for c in out:
        if len(c) and (c.data["time"].min() < c.start or strax.endtime(c.data).max() > c.end):
            return "a loaded row lies outside the chunk that carries it"
        if c.run_id != str(st[0]["run"]):
            return "run id of a loaded chunk changed"
    rows = [r for c in st for r in c["rows"]]
    rechunked = case["rechunk"] and case["allow"] and not case["order"]
    inb = [(c["s"], c["e"]) for c in st]
    outb = [(c.start, c.end) for c in out]
    if not rechunked:
        if outb != inb:
            return "chunk boundaries changed although nothing was rechunked: %s -> %s" % (inb, outb)
    else:
        pts = {x for b in inb for x in b}
        for (_, e) in outb[:-1]:
            if e not in pts and any(r[0] <= e <= r[1] for r in rows):
                return "rechunked boundary %d is neither an original boundary nor inside a row-free gap" % e
    return spec_metadata(case, im)


def spec_metadata(case, im):
    md = im.md
    out = im.loaded
    isz = im.dtype.itemsize
    if "writing_ended" not in md or "exception" in md:
        return "completion marker wrong after a clean close (writing_ended=%s exception=%s)" % (
            "writing_ended" in md, "exception" in md)
    if not im.final or im.temp_exists:
        return "directory not renamed from _temp after a clean close"
    cis = md["chunks"]
    if len(cis) != len(out):
        return "metadata lists %d chunks, loader produced %d" % (len(cis), len(out))
    expect_files = set()
    for k, (ci, c) in enumerate(zip(cis, out)):
        if ci.get("chunk_i") != k:
            return "chunk_i of entry %d is %s" % (k, ci.get("chunk_i"))
        if ci["n"] != len(c):
            return "n of chunk %d is %d, the chunk has %d rows" % (k, ci["n"], len(c))
        if ci["nbytes"] != len(c) * isz:
            return "nbytes of chunk %d is %d, expected %d" % (k, ci["nbytes"], len(c) * isz)
        if ci["start"] != c.start or ci["end"] != c.end:
            return "start/end of chunk %d disagree with the chunk" % k
        if ci["run_id"] != str(case["stream"][0]["run"]):
            return "run_id of chunk %d is %s" % (k, ci["run_id"])
        if len(c):
            ft = [int(c.data[0]["time"]), int(strax.endtime(c.data[0])), int(c.data[-1]["time"]), int(strax.endtime(c.data[-1]))]
            got = [ci.get("first_time"), ci.get("first_endtime"), ci.get("last_time"), ci.get("last_endtime")]
            if got != ft:
                return "first/last (end)times of chunk %d are %s, the rows say %s" % (k, got, ft)
            fn = ci.get("filename")
            tail = fn[len(im.prefix) + 1:] if isinstance(fn, str) and fn.startswith(im.prefix + "-") else ""
            if not tail.isdigit():
                return "filename of chunk %d is %s" % (k, fn)
            kf = int(tail)
            if kf in expect_files:
                return "two chunks share the file %s" % fn
            expect_files.add(kf)
            a = im.files.get(kf)
            if a is None:
                return "file of chunk %d missing or undecodable" % k
            if a.tobytes() != c.data.tobytes():
                return "file of chunk %d does not hold the rows of the chunk" % k
            if "filesize" in ci and ci["filesize"] != im.sizes[kf]:
                return "filesize of chunk %d is %d, the file has %d bytes" % (k, ci["filesize"], im.sizes[kf])
            sync = (not case["sexec"]) or case["forked"] or bool(case["order"]) or case["driver"] == "spy"
            if sync and "filesize" not in ci:
                return "filesize of chunk %d missing after a synchronous write" % k
        else:
            if any(x in ci for x in ("first_time", "last_time")):
                return "empty chunk %d carries row times" % k
            if "filename" in ci:
                # the code writes no file for an empty chunk; a file with zero rows would still be consistent
                a = im.files.get(k)
                if a is None or len(a):
                    return "empty chunk %d names a file that is missing or not empty" % k
                expect_files.add(k)
    if set(im.files) != expect_files:
        return "chunk files on disk %s differ from the files named in the metadata %s" % (sorted(im.files), sorted(expect_files))
    if im.notes or im.metas:
        return "stray files left in the data directory: %s %s" % (im.notes, im.metas)
    if not case["order"] and not case["forked"]:
        if md.get("start") != cis[0]["start"] or md.get("end") != cis[-1]["end"]:
            return "overall start/end (%s, %s) differ from first start / last end (%s, %s)" % (
                md.get("start"), md.get("end"), cis[0]["start"], cis[-1]["end"])
    if md.get("run_id") != str(case.get("md", {}).get("run", 7)):
        return "run id of the metadata changed"
    return None


def spec_failed_save(case, im):
    """a save that raised must leave the data marked broken and unloadable"""
    if im.save == "ok":
        return None
    if im.closed and "exception" not in im.md:
        return "save_from raised %s but the metadata records no exception" % im.save
    if im.loaded is not None and not case["ai"]:
        return "save_from raised %s but the data loads as if complete" % im.save
    return None


def spec_tamper(case, im, base_counts):
    """loader verdicts on tampered data: a wrong row count must be detected"""
    top, ta, tb, trows = case["tamper"]
    if im.save != "ok":
        return None
    if top in (1, 4):
        # entry ta says n rows, the file holds m rows
        cis = im.md["chunks"]
        for k, ci in enumerate(cis):
            fn = ci.get("filename")
            if ci["n"] == 0 or fn is None:
                continue
            a = im.files.get(int(fn[-6:]))
            if a is not None and len(a) != ci["n"] and im.loaded is not None:
                return "chunk %d holds %d rows, its metadata says %d, and the loader did not complain" % (k, len(a), ci["n"])
    if top in (9, 10) and im.loaded is not None and not case["ai"]:
        return "data without completion marker / with a recorded exception was loaded"
    return None


# ------------------------------------------------------------------------------------------
# generators
# ------------------------------------------------------------------------------------------

def gen_rows(rng, small=False):
    """sorted rows with clusters of overlaps, zero-length rows, and gaps on both sides of 1000 ns"""
    n = rng.randint(0, 6 if small else 24)
    u = rng.random()
    if u < 0.35:
        rows = gen.random_rows(rng, n, 120, 9)
        return [(t, e, i, ch) for (t, e, i, ch) in rows]
    t = rng.randint(0, 50)
    rows = []
    for i in range(n):
        t += rng.choice([0, 0, 3, 400, 900, 1000, 1001, 1500, 5000])
        rows.append((t, t + rng.choice([0, 0, 1, 50, 600, 1200]), i, rng.randint(0, 3)))
    return rows


def random_partition(rng, rows, s, e, k):
    """a contiguous well-formed chunking of [s, e) holding `rows` with (at most) k chunks: cut times are taken
    at the ends of row-free stretches (or in their middle), where no row is straddled"""
    cands = []
    for i, lo, hi in c07.clean_cuts(rows):
        lo = s if lo is None else lo
        hi = e if hi is None else hi
        for t in {lo, hi, (lo + hi) // 2}:
            if s <= t <= e:
                cands.append((t, i))
    for _ in range(20):
        combo = sorted(rng.choice(cands) for _ in range(k - 1)) if cands else []
        bounds = [(s, 0)] + combo + [(e, len(rows))]
        parts = []
        ok = True
        for (t0, i0), (t1, i1) in zip(bounds[:-1], bounds[1:]):
            if i1 < i0 or t1 < t0:
                ok = False
                break
            part = rows[i0:i1]
            if any(r[0] < t0 or r[1] > t1 for r in part):
                ok = False
                break
            parts.append((t0, t1, part))
        if ok:
            return parts
    return [(s, e, rows)]


def gen_stream(rng, small=False, tgt=None):
    rows = gen_rows(rng, small)
    lo = min([r[0] for r in rows], default=rng.randint(0, 5))
    hi = max([r[1] for r in rows], default=lo)
    s = max(0, lo - rng.choice([0, 0, 1, 700, 2000]))
    e = hi + rng.choice([0, 0, 1, 7, 1500])
    part = random_partition(rng, rows, s, e, rng.choice([1, 2, 3, 4, 5]))
    tgt = tgt or rng.choice([1, 1, 2, 3, 5, 8, 1000])
    st = [c07.achunk(a, b, p, tgt=tgt) for a, b, p in part]
    if rng.random() < 0.3 and st:
        # insert an empty zero-duration chunk at a boundary
        k = rng.randrange(len(st) + 1)
        at = st[k]["s"] if k < len(st) else st[-1]["e"]
        st.insert(k, c07.achunk(at, at, [], tgt=tgt))
    if rng.random() < 0.15:
        for c in st:
            c["tgt"] = rng.choice([1, 2, 4, 9])
    return st


def base_case(rng, st, **kw):
    case = {"stream": st, "v": rng.randrange(4), "comp": rng.randrange(4), "rechunk": rng.randint(0, 1),
            "allow": 0 if rng.random() < 0.12 else 1, "sexec": rng.randint(0, 1), "lexec": rng.randint(0, 1),
            "forked": 0, "order": [], "driver": "save_from", "mdtgt": rng.choice([None, 1, 3, 50]), "ai": 0,
            "tamper": [0, 0, 0, []]}
    if rng.random() < 0.2 and case["allow"]:
        case["driver"] = "spy"
        case["sexec"] = 0
    case.update(kw)
    return case


def malform(rng, st):
    """break a valid stream: out of order, overlap, gap, other run / data type, target 0"""
    st = [dict(c) for c in st]
    u = rng.random()
    if len(st) >= 2 and u < 0.25:
        i = rng.randrange(len(st) - 1)
        st[i], st[i + 1] = st[i + 1], st[i]
        return st, "swapped"
    if len(st) >= 2 and u < 0.45:
        i = rng.randrange(1, len(st))
        st[i]["run"] = 8
        return st, "other-run"
    if len(st) >= 2 and u < 0.6:
        i = rng.randrange(1, len(st))
        st[i]["dt"] = 2
        return st, "other-type"
    if len(st) >= 2 and u < 0.8:
        # a gap between chunks: shift everything after i
        i = rng.randrange(1, len(st))
        d = rng.choice([1, 600, 3000])
        for c in st[i:]:
            c["s"] += d
            c["e"] += d
            c["rows"] = [(r[0] + d, r[1] + d, r[2], r[3]) for r in c["rows"]]
        return st, "gap"
    for c in st:
        c["tgt"] = 0
    return st, "target0"


def gen_tamper(rng, st_len_guess):
    top = rng.choice([1, 1, 1, 2, 3, 4, 4, 5, 6, 7, 8, 9, 10, 11])
    k = rng.randrange(max(1, st_len_guess))
    if top == 1:
        return [1, k, rng.choice([0, 1, 2, 3, 5]), []]
    if top in (2, 3):
        return [top, k, 0, []]
    if top == 4:
        rows = gen.random_rows(rng, rng.randint(0, 4), 40, 5)
        return [4, k, -1, rows]     # tb (compressor) filled in by the caller
    if top == 5:
        return [5, k, rng.randrange(max(1, st_len_guess)), []]
    if top == 6:
        return [6, rng.randrange(6), 0, []]
    if top == 7:
        return [7, k, rng.randrange(4), []]
    if top == 11:
        return [11, rng.randrange(4), 0, []]
    return [top, 0, 0, []]


# ------------------------------------------------------------------------------------------
# running a batch of cases
# ------------------------------------------------------------------------------------------

def show_case(case):
    return {k: case[k] for k in ("stream", "v", "comp", "rechunk", "allow", "sexec", "lexec", "forked", "order",
                                 "driver", "mdtgt", "ai", "tamper") if k in case} | ({"md": case["md"]} if "md" in case else {})


_pool = [None]


def thread_pool():
    if _pool[0] is None:
        _pool[0] = ThreadPoolExecutor(3)
    return _pool[0]


def run_impl(case):
    im = Impl(case, thread_pool())
    line = im.run()
    return im, line


def judge(case, im):
    """the property predicate on the implementation's behaviour"""
    if case["tamper"][0] == 0 and stream_valid(case["stream"]):
        return spec_roundtrip(case, im)
    r = spec_failed_save(case, im)
    if r:
        return r
    return spec_tamper(case, im, None)


def work(case):
    """one case on the real code (runs in a worker process): canonical line, verdict, statistics"""
    os.makedirs(TMP, exist_ok=True)
    try:
        im, line = run_impl(case)
        return {"line": line, "reason": judge(case, im), "save": im.save, "load": im.load.split()[0],
                "nchunks": len(im.md.get("chunks", []))}
    except Exception as e:  # noqa
        import traceback
        return {"line": "HARNESS-EXC " + traceback.format_exc()[-800:], "reason": None, "save": "?", "load": "?",
                "nchunks": 0}


def shrink(case, budget=60):
    """greedy minimisation of a failing case: drop chunks (keeping contiguity) and rows"""
    best = case
    n = 0
    changed = True
    while changed and n < budget:
        changed = False
        st = best["stream"]
        cands = []
        for i in range(len(st)):
            if len(st) > 1:
                st2 = [dict(c) for c in st[:i] + st[i + 1:]]
                if i > 0:                    # close the hole: extend the previous chunk
                    st2[i - 1]["e"] = st[i]["e"]
                else:
                    st2[0]["s"] = st[0]["s"]
                cands.append(st2)
            for j in range(len(st[i]["rows"])):
                st2 = [dict(c) for c in st]
                st2[i]["rows"] = st[i]["rows"][:j] + st[i]["rows"][j + 1:]
                cands.append(st2)
        for st2 in cands:
            n += 1
            if n > budget:
                break
            c2 = dict(best)
            c2["stream"] = st2
            if c2["order"]:
                c2["order"] = [k for k in c2["order"] if k < len(st2)]
                if sorted(c2["order"]) != list(range(len(st2))):
                    continue
            if work(c2)["reason"]:
                best = c2
                changed = True
                break
    return best


def run_batch(ctx, unit, cases, nontrivial_fn, dist_fn, procs):
    lines = [model_line(c) for c in cases]
    mout = lib.run_model_parallel("C03", lines)
    results = procs.map(work, cases, chunksize=8) if procs else [work(c) for c in cases]
    nontriv = set()
    dist = {}
    bad = 0
    for case, mo, r in zip(cases, mout, results):
        k = dist_fn(case, r)
        dist[k] = dist.get(k, 0) + 1
        if nontrivial_fn(case, r):
            nontriv.add(lib.canon(show_case(case)))
        if r["reason"]:
            small = shrink(case)
            r2 = work(small)
            ctx.violation(unit, "C03 fails on the real saver/loader: %s" % (r2["reason"] or r["reason"]),
                          {"input": show_case(small), "impl": r2["line"], "unit": unit})
            bad += 1
        elif r["line"] != mo:
            ctx.violation(unit, "model/implementation disagree on %s; the property predicate holds on this input. "
                          "impl: %s | model: %s" % (unit, r["line"][:400], mo[:400]),
                          {"input": "corr:C03/%s" % unit, "case": show_case(case), "impl": r["line"], "model": mo,
                           "unit": unit}, no_failing_input=True)
            bad += 1
        if bad > 5:
            break
    ctx.count(unit, len(cases), len(nontriv), dist)
    if cases:
        k = len(cases) // 3
        ctx.sample({"unit": unit, "case": show_case(cases[k]), "model": mout[k][:600]})
    small = [(c, mo) for c, mo in zip(cases, mout) if sum(len(x["rows"]) for x in c["stream"]) <= 8]
    PAIRS.extend(ctx.rng.sample(small, min(len(small), 40)))
    return mout


def cfg_key(case, r):
    return "%s %s rechunk=%d%s save=%s load=%s" % (
        COMPRESSORS[case["comp"]], "endtime" if "endtime" in DTYPES[case["v"]].names else "length",
        case["rechunk"] and case["allow"], " pool" if case["sexec"] or case["lexec"] else "",
        r["save"], r["load"])


def unit_roundtrip(ctx, pool):
    cases = []
    n = 30000 if ctx.thorough else (1500 if ctx.escalated() else 500)
    # systematic sweep: every compressor x dtype x rechunk x executor on small streams
    for comp in range(4):
        for v in range(4):
            for rc in (0, 1):
                for ex in (0, 1):
                    st = gen_stream(ctx.rng, small=True)
                    cases.append(base_case(ctx.rng, st, comp=comp, v=v, rechunk=rc, allow=1, sexec=ex, lexec=ex,
                                           driver="save_from"))
    for _ in range(n):
        cases.append(base_case(ctx.rng, gen_stream(ctx.rng, small=ctx.rng.random() < 0.3)))
    run_batch(ctx, "roundtrip", cases,
              lambda c, r: sum(len(x["rows"]) for x in c["stream"]) >= 2 and r["nchunks"] >= 2,
              cfg_key, pool)


def unit_malformed(ctx, pool):
    cases = []
    for _ in range(8000 if ctx.thorough else 200):
        st = gen_stream(ctx.rng, small=ctx.rng.random() < 0.5)
        st, kind = malform(ctx.rng, st)
        case = base_case(ctx.rng, st, ai=ctx.rng.choice([0, 0, 1]), driver="save_from")
        case["kind"] = kind
        cases.append(case)
    # metadata handed to the saver that disagrees with the chunks, and allow_incomplete on good data
    for _ in range(1000 if ctx.thorough else 40):
        st = gen_stream(ctx.rng, small=True)
        case = base_case(ctx.rng, st, ai=ctx.rng.randint(0, 1))
        if ctx.rng.random() < 0.5:
            case["md"] = {"run": ctx.rng.choice([7, 8]), "dt": ctx.rng.choice([1, 2]), "kind": ctx.rng.choice([1, 2])}
        cases.append(case)
    run_batch(ctx, "malformed", cases, lambda c, r: len(c["stream"]) >= 2,
              lambda c, r: "%s save=%s load=%s" % (c.get("kind", "md/incomplete"), r["save"], r["load"]), pool)


def unit_tamper(ctx, pool):
    cases = []
    for _ in range(15000 if ctx.thorough else 350):
        st = gen_stream(ctx.rng, small=ctx.rng.random() < 0.5)
        case = base_case(ctx.rng, st, ai=ctx.rng.choice([0, 0, 0, 1]), driver="save_from")
        t = gen_tamper(ctx.rng, len(st))
        if t[0] == 4:
            t[2] = case["comp"] if ctx.rng.random() < 0.8 else ctx.rng.randrange(4)
        case["tamper"] = t
        cases.append(case)
    names = {1: "set-n", 2: "del-file", 3: "corrupt-file", 4: "replace-file", 5: "swap-files", 6: "drop-md-field",
             7: "drop-chunk-field", 8: "no-chunks", 9: "no-writing-ended", 10: "exception", 11: "compressor"}
    run_batch(ctx, "tamper", cases, lambda c, r: True,
              lambda c, r: "%s load=%s" % (names[c["tamper"][0]], r["load"]), pool)


def unit_forked(ctx, pool):
    cases = []
    n = 2000 if ctx.thorough else 50
    for i in range(n):
        st = gen_stream(ctx.rng, small=True)
        order = list(range(len(st)))
        ctx.rng.shuffle(order)
        case = base_case(ctx.rng, st, forked=1, order=order, driver="save_from", rechunk=0, sexec=0)
        case["realfork"] = 1 if i < (40 if ctx.thorough else 4) else 0     # real child processes for a few
        cases.append(case)
    run_batch(ctx, "forked", cases, lambda c, r: len(c["stream"]) >= 2,
              lambda c, r: "children=%d%s save=%s load=%s" % (len(c["order"]), " fork" if c.get("realfork") else "", r["save"], r["load"]), pool)


def coq_opt(x):
    return "None" if x is None else "(Some (%d))" % x


def coq_rows(rows):
    return "[" + "; ".join("mkrow (%d) (%d) (%d) (%d)" % tuple(r) for r in rows) + "]"


def coq_chunk(c):
    return "(mkchunk (%d) (%d) %s (%d) (%d) %s (%d))" % (c["s"], c["e"], coq_rows(c["rows"]), c["dt"], c["kind"],
                                                        coq_opt(c["run"]), c["tgt"])


def coq_bool(b):
    return "true" if b else "false"


def coq_run(case):
    v = case["v"]
    md = case.get("md", {})
    top, ta, tb, trows = case["tamper"]
    t = {0: "T_none", 1: "(T_set_n %d%%nat (%d))" % (ta, tb), 2: "(T_del_file (%d))" % ta,
         3: "(T_put_file (%d) None)" % ta, 4: "(T_put_file (%d) (Some ((%d), %s)))" % (ta, tb, coq_rows(trows)),
         5: "(T_swap_files (%d) (%d))" % (ta, tb), 6: "(T_md_drop (%d))" % ta, 7: "(T_ci_drop %d%%nat (%d))" % (ta, tb),
         8: "T_no_chunks", 9: "T_unend", 10: "T_exc", 11: "(T_compressor (%d))" % ta}[top]
    return ("c03_digest (c03_run (mk_cfg %s %s %s %s (%d)) (mk_md (Some (%d)) (Some (%d)) (Some (%d)) (Some (%d)) (Some (%d)) %s "
            "[] None None false false) [%s] [%s] %s %s (%d))" % (
                coq_bool(case["rechunk"]), coq_bool(case["allow"]), coq_bool(case["sexec"]), coq_bool(case["forked"]),
                DTYPES[v].itemsize, md.get("run", 7), md.get("dt", 1), md.get("kind", 1), v + 1, case["comp"],
                coq_opt(case["mdtgt"]), "; ".join(coq_chunk(c) for c in case["stream"]),
                "; ".join("%d%%nat" % k for k in case["order"]), t, coq_bool(case["ai"]), default_target(v)))


def digest_of_line(mo):
    """the c03_digest value (as a Coq term) that corresponds to a canonical model output line"""
    import re
    sv = re.search(r"save=(ok|err(\d+))", mo)
    save = 0 if sv.group(1) == "ok" else int(sv.group(2))
    ld = mo[mo.index(" load=") + 6:]
    if ld.startswith("err"):
        load, loaded = int(ld[3:]), []
    else:
        load = 0
        loaded = [(int(m.group(1)), int(m.group(2)), int(m.group(3)))
                  for m in re.finditer(r"\[(-?\d+) (-?\d+) run=\S+ dt=\S+ kind=\S+ tgt=\S+ n=(\d+) ids=[^\]]*\]", ld)]
    cis = mo[mo.index(" chunks[") + 8:mo.index("] files[")]
    infos = []
    for ent in [x for x in cis.split(";") if x]:
        f = ent.split(":")
        infos.append((int(f[0]), int(f[1]), -1 if f[10] == "-" else int(f[10])))

    def trip(l):
        return "[" + "; ".join("((%d), (%d), (%d))" % t for t in l) + "]"
    return "((%d), (%d), %s, %s)" % (save, load, trip(loaded), trip(infos))


def crosscheck(ctx, pairs):
    """re-evaluate a sample of the cases inside Coq (vm_compute) and compare with the extracted model"""
    if not pairs:
        return
    pairs = ctx.rng.sample(pairs, min(len(pairs), 150 if ctx.thorough else 24))
    eqs = ["%s = %s" % (coq_run(c), digest_of_line(mo)) for c, mo in pairs]
    n, fails = lib.coq_crosscheck("C03", "From SV Require Import Model.SaverLoader Model.C03Run.", eqs, shard=25)
    ctx.coverage.setdefault("kernel_crosscheck", {})["c03_run"] = {"equations": n, "failed_files": len(fails)}
    if fails:
        ctx.violation("crosscheck", "extracted model and Coq vm_compute disagree: " + fails[0][-400:],
                      {"input": "corr:C03/extraction-crosscheck", "log": fails[0]}, no_failing_input=True)


PAIRS = []

UNITS = {"roundtrip": unit_roundtrip, "malformed": unit_malformed, "tamper": unit_tamper, "forked": unit_forked}


def run(ctx):
    ctx.coverage["rule"] = (
        "Seeded random contiguous chunk streams (0..24 rows with clustered overlaps, zero-length rows, gaps on both "
        "sides of the 1000 ns rechunk threshold; 1..6 chunks including empty and zero-duration chunks) saved through "
        "the real FileSaver (save_from or the single-thread SaverSpy) and read back through StorageFrontend.loader, "
        "for 4 dtypes (time+endtime / time+length*dt, scalar, array-valued, titled), compressors blosc/zstd/lz4/bz2, "
        "rechunk on/off with targets from one row, serial and ThreadPoolExecutor saving and loading; plus malformed "
        "streams (out-of-order, gap, other run/type, zero target), tampered directories (count, files, metadata "
        "fields, completion marker) and forked savers driven from child processes. Every case is compared field by "
        "field with the extracted model and judged by the property predicate. Non-trivial: >=2 rows stored in >=2 "
        "chunks (roundtrip), >=2 chunks (malformed/forked), every tampered case. Distinct by canonical JSON.")
    ctx.assumptions += [
        "byte codec (numpy buffer layout, dtype.descr text round trip, blosc/zstd/lz4/bz2) is an abstract bijection in the "
        "proofs (Section hypothesis decode_encode); the real codec is exercised on every case here",
        "rechunk_stream satisfies C07's rechunk_stream_correct (explicit premise rechunk_spec of the C03 theorems)",
        "file system: a written file reads back its content; rename is atomic (fault injection is C04's topic)",
    ]
    os.makedirs(TMP, exist_ok=True)
    import multiprocessing
    # compile the numba kernels (split_array, diff, endtime) for the four dtypes once, before forking
    t0 = lib.now()
    for v in range(4):
        work(base_case(ctx.rng.__class__(v), [c07.achunk(0, 6000, [(0, 1, 0, 0), (2, 3, 1, 0), (5000, 5001, 2, 0), (5002, 5003, 3, 0)], tgt=1)],
                       v=v, rechunk=1, allow=1, sexec=0, lexec=0, driver="save_from", comp=v))
    print("C03 warm-up: %.1fs" % (lib.now() - t0), file=sys.stderr)
    _pool[0] = None     # worker processes create their own thread pool
    nproc = max(1, min(8, (os.cpu_count() or 4) - 2))
    procs = multiprocessing.get_context("fork").Pool(nproc)
    try:
        for name, fn in UNITS.items():
            t0 = lib.now()
            fn(ctx, procs)
            print("C03 %s: %.1fs" % (name, lib.now() - t0), file=sys.stderr)
        t0 = lib.now()
        crosscheck(ctx, PAIRS)
        print("C03 kernel cross-check: %.1fs" % (lib.now() - t0), file=sys.stderr)
    finally:
        procs.terminate()
        procs.join()
        shutil.rmtree(TMP, ignore_errors=True)


def replay(ctx, obj):
    r = obj["replay"]
    case = r.get("case") if isinstance(r.get("input"), str) else r.get("input")
    for c in case["stream"]:
        c["rows"] = [tuple(x) for x in c["rows"]]
    case["tamper"][3] = [tuple(x) for x in case["tamper"][3]]
    os.makedirs(TMP, exist_ok=True)
    try:
        im, line = run_impl(case)
        reason = judge(case, im)
    finally:
        shutil.rmtree(TMP, ignore_errors=True)
    print("impl:", line)
    print("law:", reason or "holds")
    return 1 if reason else 0
