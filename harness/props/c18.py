"""C18 — hit finding and data reduction keep exactly the samples they should.

Units (real strax entry point -> model function of coq/Model/Hits.v, Reduction.v):
  find_hits          strax.find_hits                -> find_hits
  record_links       strax.record_links             -> record_links
  cut_outside_hits   strax.cut_outside_hits         -> cut_outside_hits
  zero_oob           strax.zero_out_of_bounds       -> zero_out_of_bounds
  integrate          strax.integrate                -> integrate
  baseline           strax.baseline                 -> baseline
  cut_baseline       strax.cut_baseline             -> cut_baseline
  pipeline           baseline -> zero_out_of_bounds -> integrate -> find_hits -> cut_outside_hits
                     (each stage compared with the model on the implementation's own intermediate
                     result; consistency predicates on the final result)

A record is the tuple
  (time, length, dt, channel, pulse_length, record_i, area, reduction_level, bl16, rms16, shift, data)
with baseline and baseline_rms in units of 1/16 (exact in float32 on the generated domain).
"""
import itertools
from fractions import Fraction

import numpy as np
import strax

from harness import lib

MODEL_PROPS = ["C18"]
LEVEL = "proof"

FR = 16
FR2 = 256
_DT = {}
HIT_DT = np.dtype(strax.hit_dtype)

T, LEN, DTNS, CH, PLEN, RECI, AREA, LEVEL_, BL, RMS, SHIFT, DATA = range(12)


def rec_dt(spr):
    if spr not in _DT:
        _DT[spr] = np.dtype(strax.record_dtype(spr))
    return _DT[spr]


def mk_records(recs, spr):
    rows = [(r[T], r[LEN], r[DTNS], r[CH], r[PLEN], r[RECI], r[AREA], r[LEVEL_], r[BL] / 16.0, r[RMS] / 16.0,
             r[SHIFT], list(r[DATA])) for r in recs]
    return np.array(rows, dtype=rec_dt(spr)) if rows else np.zeros(0, dtype=rec_dt(spr))


def sixteenths(x):
    v = float(x) * 16
    if v != v:
        return "nan"
    return int(v) if v == int(v) else ("inexact", v)


def recs_of(a, rms_from=None):
    """Array -> record tuples.  baseline_rms is taken from `rms_from` (a list of records) when the
    unit does not model that field (strax.baseline computes a float square root)."""
    out = []
    for i, row in enumerate(a.tolist()):
        row = list(row)
        row[BL] = sixteenths(row[BL])
        row[RMS] = sixteenths(row[RMS]) if rms_from is None else rms_from[i][RMS]
        row[DATA] = tuple(int(x) for x in row[DATA])
        out.append(tuple(row))
    return out


def enc_records(recs, spr):
    out = [str(len(recs)), str(spr)]
    for r in recs:
        out += [str(int(x)) for x in r[:DATA]]
        out += [str(int(x)) for x in r[DATA]]
    return " ".join(out)


def parse_recs_line(line, spr):
    toks = line.split()
    if toks[0] == "err":
        return ("err", int(toks[1]))
    n = int(toks[1])
    v = [int(x) for x in toks[2:]]
    w = 11 + spr
    return ("ok", [tuple(v[i * w:i * w + 11]) + (tuple(v[i * w + 11:(i + 1) * w]),) for i in range(n)])


def coq_recs(recs):
    return "[" + "; ".join(
        "mkrec " + " ".join("(%d)" % x for x in r[:DATA]) + " [" + "; ".join("(%d)" % x for x in r[DATA]) + "]"
        for r in recs) + "]"


def coq_zlist(l):
    return "[" + "; ".join("(%d)" % x for x in l) + "]"


def flat_recs_res(res):
    if res[0] == "err":
        return [0, res[1]]
    out = [1]
    for r in res[1]:
        out += list(r[:DATA]) + list(r[DATA])
    return out


EXC_CODES = [("Too few channel thresholds", 1), ("zero-length hit", 2), ("Negative channel", 4),
             ("Negative interval length", 5), ("missing 0th fragment", 6)]


def exc_code(e):
    if isinstance(e, AssertionError):
        return 3
    s = str(e)
    for k, c in EXC_CODES:
        if k in s:
            return c
    return ("exc", type(e).__name__, s[:80])


# ------------------------------------------------------------------------------------------------
# scenario generator: pulses split into fragments, several channels, sorted by time
# ------------------------------------------------------------------------------------------------

def build_scenario(pulses, spr, dt, pad=0):
    """pulses: list of (channel, t0, samples(list), bl16, rms16, drop(set of fragment numbers)).
    Returns records sorted by (time, channel).  Data beyond the pulse is `pad`."""
    recs = []
    for ch, t0, samples, bl16, rms16, drop in pulses:
        plen = len(samples)
        nfrag = max(1, (plen + spr - 1) // spr)
        for f in range(nfrag):
            if f in drop:
                continue
            part = list(samples[f * spr:(f + 1) * spr])
            ln = len(part)
            part = part + [pad] * (spr - ln)
            recs.append((t0 + f * spr * dt, ln, dt, ch, plen, f, 0, 0, bl16, rms16, 0, tuple(part)))
    recs.sort(key=lambda r: (r[T], r[CH]))
    return recs


def random_scenario(rng, spr, alphabet, max_ch=3, max_frag=3, t_min=5, pad=0, neg=False):
    dt = rng.choice([1, 1, 2, 10])
    n_ch = rng.randint(1, max_ch)
    pulses = []
    for ch in range(n_ch):
        if n_ch > 1 and rng.random() < 0.15:
            continue  # a channel without records
        t = t_min + rng.randint(0, 2 * spr) * dt
        for _ in range(rng.randint(1, 3)):
            nfrag = rng.randint(1, max_frag)
            plen = (nfrag - 1) * spr + rng.randint(1, spr)
            if rng.random() < 0.4:
                plen = nfrag * spr
            samples = [rng.choice(alphabet) for _ in range(plen)]
            bl16 = rng.choice([0, 4, 8, 12, 16 * 100 + 4, 16 * 7 + 8, 16 * 3, 1, 15])
            if neg and rng.random() < 0.3:
                bl16 = -bl16
            rms16 = rng.choice([0, 8, 16, 24, 32, 48])
            drop = set()
            if nfrag > 1 and rng.random() < 0.2:
                drop.add(rng.randrange(nfrag))
            pulses.append((ch, t, samples, bl16, rms16, drop))
            gap = rng.choice([0, 0, 1, spr, rng.randint(0, 3 * spr)])
            t = t + nfrag * spr * dt + gap * dt
            if rng.random() < 0.1:
                t -= dt  # a time that is off by one sample from adjacency
    recs = build_scenario(pulses, spr, dt, pad)
    if rng.random() < 0.1 and len(recs) > 1:
        # fragment number perturbed: continuing fragment marked as first / first marked continuing
        i = rng.randrange(len(recs))
        r = list(recs[i])
        r[RECI] = 0 if r[RECI] else 1
        recs[i] = tuple(r)
    return recs, n_ch


def random_threshold(rng, n_ch):
    """Returns (amp, hon) each ('s', v16) or ('p', [v16...]); always positive thresholds."""
    kind = rng.choice(["scalar", "scalar", "perch", "noise", "noise_perch", "both_perch"])
    amps = [8, 16, 24, 32, 40, 48]
    hons = [0, 8, 16, 24, 32]
    m = n_ch + rng.choice([0, 0, 1])
    if kind == "scalar":
        return ("s", rng.choice(amps)), ("s", 0)
    if kind == "perch":
        return ("p", [rng.choice(amps) for _ in range(m)]), ("s", rng.choice([0, 0, 16]))
    if kind == "noise":
        return ("s", rng.choice(amps)), ("s", rng.choice(hons))
    if kind == "noise_perch":
        return ("s", rng.choice(amps)), ("p", [rng.choice(hons) for _ in range(m)])
    return ("p", [rng.choice(amps) for _ in range(m)]), ("p", [rng.choice(hons) for _ in range(m)])


def enc_targ(t):
    return "0 %d" % t[1] if t[0] == "s" else "1 %d %s" % (len(t[1]), " ".join(str(x) for x in t[1]))


def coq_targ(t):
    return "(Scalar (%d))" % t[1] if t[0] == "s" else "(PerCh %s)" % coq_zlist(t[1])


def py_targ(t, as_int=False):
    if t[0] == "s":
        return t[1] / 16.0
    if as_int and all(v % 16 == 0 for v in t[1]):
        return np.array([v // 16 for v in t[1]], dtype=np.int64)
    return np.array([v / 16.0 for v in t[1]], dtype=np.float64)


def thresholds_of(recs, amp, hon):
    """threshold of each record in units 1/256, or None when a channel has no threshold"""
    out = []
    for r in recs:
        ch = r[CH]
        a = amp[1] if amp[0] == "s" else (amp[1][ch] if ch < len(amp[1]) else None)
        h = hon[1] if hon[0] == "s" else (hon[1][ch] if ch < len(hon[1]) else None)
        out.append(None if a is None or h is None else max(FR * a, r[RMS] * h))
    return out


# ------------------------------------------------------------------------------------------------
# implementation drivers
# ------------------------------------------------------------------------------------------------

def hit_tuple(h):
    return (int(h["time"]), int(h["length"]), int(h["dt"]), int(h["channel"]), sixteenths(h["area"]),
            int(h["left"]), int(h["right"]), int(h["record_i"]),
            (lambda v: int(v) if v == int(v) else ("inexact", v))(float(h["threshold"]) * 256),
            sixteenths(h["height"]), int(h["max_time"]))


def impl_find_hits(recs, spr, amp, hon, as_int=False, return_array=False):
    a = mk_records(recs, spr)
    try:
        hits = strax.find_hits(a, min_amplitude=py_targ(amp, as_int), min_height_over_noise=py_targ(hon))
    except Exception as e:  # noqa
        return ("err", exc_code(e)), None
    res = ("ok", [hit_tuple(h) for h in hits])
    return res, (hits if return_array else None)


def impl_record_links(recs, spr):
    a = mk_records(recs, spr)
    try:
        p, n = strax.record_links(a)
    except Exception as e:  # noqa
        return ("err", exc_code(e))
    return ("ok", [int(x) for x in p], [int(x) for x in n])


def mk_hits(hs):
    a = np.zeros(len(hs), dtype=HIT_DT)
    for i, (ri, l, r) in enumerate(hs):
        a[i]["record_i"], a[i]["left"], a[i]["right"] = ri, l, r
    return a


def impl_cut_outside_hits(recs, spr, hits_arr, le, re):
    a = mk_records(recs, spr)
    before = a.copy()
    try:
        out = strax.cut_outside_hits(a, hits_arr, left_extension=le, right_extension=re)
    except Exception as e:  # noqa
        return ("err", exc_code(e))
    if not np.array_equal(before, a):
        return ("err", ("input-mutated",))
    return ("ok", recs_of(out))


CUT_BASELINE_MODE = {"mode": None, "error": None}


def cut_baseline_callable():
    """strax.cut_baseline does not compile under numba 0.67 (`int16.astype` inside nopython code).  When
    that is the case the correspondence runs the undecorated Python function on a recarray view (same
    source lines, Python semantics) and the fact is recorded in the evidence."""
    if CUT_BASELINE_MODE["mode"] is None:
        probe = np.zeros(1, dtype=rec_dt(4))
        try:
            strax.cut_baseline(probe, 1, 1)
            CUT_BASELINE_MODE["mode"] = "njit"
        except Exception as e:  # noqa
            CUT_BASELINE_MODE["mode"] = "py_func"
            CUT_BASELINE_MODE["error"] = "%s: %s" % (type(e).__name__, str(e)[:300])
    if CUT_BASELINE_MODE["mode"] == "njit":
        return strax.cut_baseline
    return lambda a, **kw: strax.cut_baseline.py_func(_RecsProxy(a), **kw)


class _RecProxy:
    """numba-record-like view of one element of a structured array: fields as attributes and items"""

    def __init__(self, arr, i):
        object.__setattr__(self, "_a", arr)
        object.__setattr__(self, "_i", i)

    def __getattr__(self, name):
        return self._a[name][self._i]

    def __getitem__(self, name):
        return self._a[name][self._i]

    def __setitem__(self, name, v):
        self._a[name][self._i] = v


class _RecsProxy:
    def __init__(self, arr):
        self._a = arr

    def __len__(self):
        return len(self._a)

    def __getitem__(self, i):
        return _RecProxy(self._a, i)

    def __iter__(self):
        return (_RecProxy(self._a, i) for i in range(len(self._a)))


class quiet_stdout:
    """numba-compiled strax code print()s diagnostics to the C stdout before raising; keep the check's
    stdout for KNOWN-FINDING / VIOLATION lines only."""

    def __enter__(self):
        import os
        import sys
        sys.stdout.flush()
        self.saved = os.dup(1)
        self.null = os.open(os.devnull, os.O_WRONLY)
        os.dup2(self.null, 1)

    def __exit__(self, *a):
        import os
        import sys
        sys.stdout.flush()
        try:
            import numba  # noqa
            import ctypes
            ctypes.CDLL(None).fflush(None)
        except Exception:  # noqa
            pass
        os.dup2(self.saved, 1)
        os.close(self.saved)
        os.close(self.null)


def impl_inplace(fn, recs, spr, *args, rms_keep=False, **kw):
    a = mk_records(recs, spr)
    try:
        fn(a, *args, **kw)
    except Exception as e:  # noqa
        return ("err", exc_code(e))
    return ("ok", recs_of(a, rms_from=recs if rms_keep else None))


# ------------------------------------------------------------------------------------------------
# property predicates (spec side of the theorems), independent of the model's algorithms
# ------------------------------------------------------------------------------------------------

def spec_find_hits(recs, thrs, res):
    """Exactly the maximal runs of in-record samples at or above threshold, in record order, with the
    right fields.  Returns None if satisfied, else a reason."""
    if res[0] != "ok":
        return "raised %s on valid input" % (res[1],)
    exp = []
    for k, r in enumerate(recs):
        w = list(r[DATA][:max(r[LEN], 0)])
        thr = thrs[k]
        fp = r[BL] % 16
        for sat, grp in itertools.groupby(enumerate(w), key=lambda p: FR2 * p[1] >= thr):
            if not sat:
                continue
            grp = list(grp)
            s, e = grp[0][0], grp[-1][0] + 1
            vals = [v for _, v in grp]
            m = max(vals)
            exp.append((r[T] + s * r[DTNS], e - s, r[DTNS], r[CH], 16 * sum(vals) + (e - s) * fp, s, e, k, thr,
                        16 * m + fp, r[T] + (s + vals.index(m)) * r[DTNS]))
    got = res[1]
    if got == exp:
        return None
    if [(h[7], h[5], h[6]) for h in got] != [(h[7], h[5], h[6]) for h in exp]:
        return "hits are not the maximal runs at or above threshold: got (record,left,right) %s expected %s" % (
            [(h[7], h[5], h[6]) for h in got], [(h[7], h[5], h[6]) for h in exp])
    names = ["time", "length", "dt", "channel", "area*16", "left", "right", "record_i", "threshold*256",
             "height*16", "max_time"]
    for g, x in zip(got, exp):
        for nm, a, b in zip(names, g, x):
            if a != b:
                return "hit (record %d, [%d,%d)) has %s = %s, expected %s" % (g[7], g[5], g[6], nm, a, b)
    return "hits differ"


def quad_links(recs, spr):
    n = len(recs)
    prev = [-1] * n
    nxt = [-1] * n
    for i, r in enumerate(recs):
        js = [j for j in range(i) if recs[j][CH] == r[CH]]
        if js and r[RECI] != 0:
            j = js[-1]
            if r[T] == recs[j][T] + spr * recs[j][DTNS]:
                prev[i] = j
                nxt[j] = i
    return prev, nxt


def spec_record_links(recs, spr, res):
    if res[0] != "ok":
        return "raised %s" % (res[1],)
    p, n = quad_links(recs, spr)
    if res[1] != p:
        return "previous_record = %s, time-adjacent same-channel fragments give %s" % (res[1], p)
    if res[2] != n:
        return "next_record = %s, time-adjacent same-channel fragments give %s" % (res[2], n)
    return None


def spec_cut_outside_hits(recs, spr, hs, le, re, res):
    if res[0] != "ok":
        return "raised %s on valid input" % (res[1],)
    out = res[1]
    if len(out) != len(recs):
        return "number of records changed"
    prev, nxt = quad_links(recs, spr)
    for j, (r, o) in enumerate(zip(recs, out)):
        meta_in = r[:AREA + 1] + r[BL:DATA]
        meta_out = o[:AREA + 1] + o[BL:DATA]
        if meta_in != meta_out:
            return "record %d metadata altered: %s -> %s" % (j, meta_in, meta_out)
        if o[LEVEL_] != 2:
            return "record %d reduction_level = %s, expected HITS_ONLY" % (j, o[LEVEL_])
        for s in range(spr):
            keep = False
            for (ri, left, right) in hs:
                if j == ri:
                    if not s < recs[ri][LEN]:
                        continue
                    v = s
                elif j == prev[ri]:
                    v = s - spr
                elif j == nxt[ri]:
                    v = s + spr
                else:
                    continue
                if left - le <= v < right + re:
                    keep = True
                    break
            want = r[DATA][s] if keep else 0
            if o[DATA][s] != want:
                return "record %d sample %d is %d, expected %d (%s the extension of a hit)" % (
                    j, s, o[DATA][s], want, "within" if keep else "outside")
    return None


def same_but(recs, out, changed):
    for j, (r, o) in enumerate(zip(recs, out)):
        for f in range(12):
            if f not in changed and r[f] != o[f]:
                return "record %d field %d altered: %s -> %s" % (j, f, r[f], o[f])
    return None


def spec_zero_oob(recs, spr, res):
    if res[0] != "ok" or len(res[1]) != len(recs):
        return "raised or changed the number of records: %s" % (res,)
    bad = same_but(recs, res[1], {DATA})
    if bad:
        return bad
    for j, (r, o) in enumerate(zip(recs, res[1])):
        want = tuple(r[DATA][s] if s < r[LEN] else 0 for s in range(spr))
        if o[DATA] != want:
            return "record %d data %s, expected %s" % (j, o[DATA], want)
    return None


def spec_integrate(recs, spr, res):
    if res[0] != "ok" or len(res[1]) != len(recs):
        return "raised or changed the number of records: %s" % (res,)
    bad = same_but(recs, res[1], {AREA})
    if bad:
        return bad
    for j, (r, o) in enumerate(zip(recs, res[1])):
        want = sum(r[DATA]) * 2 ** r[SHIFT] + round(Fraction((r[BL] % 16) * r[LEN], 16))
        if o[AREA] != want:
            return "record %d area %s, expected %s" % (j, o[AREA], want)
    return None


def spec_baseline(recs, spr, bs, flip, res):
    """On inputs where every continuing fragment has its 0th fragment earlier in the channel."""
    if res[0] != "ok" or len(res[1]) != len(recs):
        return "raised or changed the number of records: %s" % (res,)
    bad = same_but(recs, res[1], {DATA, BL, RMS})
    if bad:
        return bad
    for j, (r, o) in enumerate(zip(recs, res[1])):
        firsts = [q for q in recs[:j + 1] if q[CH] == r[CH] and q[RECI] == 0]
        w = firsts[-1][DATA][:bs]
        bl = Fraction(sum(w), len(w))
        if isinstance(o[BL], (tuple, str)) or Fraction(o[BL], 16) != bl:
            return "record %d baseline %s/16, expected %s" % (j, o[BL], bl)
        ib = int(bl)
        sign = -1 if flip else 1
        want = tuple(sign * (r[DATA][s] - ib) if s < r[LEN] else r[DATA][s] for s in range(spr))
        if o[DATA] != want:
            return "record %d data %s, expected %s" % (j, o[DATA], want)
    return None


def spec_cut_baseline(recs, spr, nb, na, res):
    if res[0] != "ok" or len(res[1]) != len(recs):
        return "raised or changed the number of records: %s" % (res,)
    bad = same_but(recs, res[1], {DATA, LEVEL_})
    if bad:
        return bad
    for j, (r, o) in enumerate(zip(recs, res[1])):
        if o[LEVEL_] != 1:
            return "record %d reduction_level %s, expected BASELINE_CUT" % (j, o[LEVEL_])
        want = []
        for s in range(spr):
            p = r[RECI] * spr + s  # sample number within the pulse
            zero = (r[RECI] == 0 and s < nb) or p >= r[PLEN] - na
            want.append(0 if zero else r[DATA][s])
        if o[DATA] != tuple(want):
            return "record %d data %s, expected %s" % (j, o[DATA], tuple(want))
    return None


# ------------------------------------------------------------------------------------------------
# uniform compare
# ------------------------------------------------------------------------------------------------

class Unit:
    def __init__(self, ctx, name):
        self.ctx = ctx
        self.name = name
        self.cases = []      # (line, impl_result_canonical, spec_reason_or_None, input_obj, nontrivial_key, spr)
        self.dist = {}
        self.bad = 0

    def add(self, line, impl_res, reason, inp, key, kind, decode):
        self.cases.append((line, impl_res, reason, inp, key, decode))
        self.dist[kind] = self.dist.get(kind, 0) + 1

    def finish(self, crosscheck=None, in_domain=lambda inp: True):
        ctx = self.ctx
        lines = [c[0] for c in self.cases]
        mout = lib.run_model_parallel("C18", lines)
        nontriv = set()
        for (line, impl_res, reason, inp, key, decode), mo in zip(self.cases, mout):
            mres = decode(mo)
            if key is not None:
                nontriv.add(key)
            if mres != impl_res:
                self.bad += 1
                if self.bad > 6:
                    continue
                if reason:
                    ctx.violation(self.name, "strax violates the property: %s" % reason,
                                  {"input": inp, "impl": impl_res, "model": mres})
                else:
                    ctx.violation(self.name, "model/implementation disagree (impl %s, model %s) but the property "
                                  "predicate holds on this input" % (str(impl_res)[:200], str(mres)[:200]),
                                  {"input": "corr:C18/%s" % self.name, "case": inp, "impl": impl_res, "model": mres},
                                  no_failing_input=True)
            elif reason:
                ctx.violation(self.name, "property violated by the implementation AND the model: " + reason,
                              {"input": inp, "impl": impl_res})
        ctx.count(self.name, len(self.cases), len(nontriv), self.dist)
        if self.cases:
            c = self.cases[len(self.cases) // 3]
            ctx.sample({"unit": self.name, "input": c[3], "impl": str(c[1])[:400]})
        self.mout = mout
        return mout


def dec_hits(line):
    toks = line.split()
    if toks[0] == "err":
        return ("err", int(toks[1]))
    v = [int(x) for x in toks[2:]]
    return ("ok", [tuple(v[i * 11:(i + 1) * 11]) for i in range(int(toks[1]))])


def dec_links(line):
    toks = line.split()
    if toks[0] == "err":
        return ("err", int(toks[1]))
    k = toks.index("|")
    return ("ok", [int(x) for x in toks[1:k]], [int(x) for x in toks[k + 1:]])


def dec_recs(spr):
    return lambda line: parse_recs_line(line, spr)


# ------------------------------------------------------------------------------------------------
# units
# ------------------------------------------------------------------------------------------------

def big_budget(ctx):
    """thorough tier, or quick tier escalated because one of C18's own anchors drifted (C18 uses no
    generated constant, so drift of SourceConstants.v entries of other properties does not count)"""
    return ctx.thorough or bool(ctx.drift)


def sprs(ctx):
    return [4, 5, 6, 9] if big_budget(ctx) else [4, 5, 9]


def exhaustive_waveform_scenarios(ctx, spr, alphabet, nfrag):
    """Every waveform over `alphabet` of nfrag*spr - d samples (d = 0..spr-1 for the last fragment)
    as one pulse in channel 0."""
    for plen in range((nfrag - 1) * spr + 1, nfrag * spr + 1):
        for samples in itertools.product(alphabet, repeat=plen):
            yield list(samples), plen


def unit_find_hits(ctx):
    u = Unit(ctx, "find_hits")
    rng = ctx.rng
    big = big_budget(ctx)
    cfgs = [(("s", 16), ("s", 0)), (("s", 32), ("s", 0)), (("s", 40), ("s", 0)), (("p", [48]), ("s", 0)),
            (("s", 8), ("s", 16)), (("s", 8), ("p", [24])), (("p", [24, 16]), ("p", [0, 32]))]

    def one(recs, spr, amp, hon, kind, as_int=False):
        thrs = thresholds_of(recs, amp, hon)
        res, _ = impl_find_hits(recs, spr, amp, hon, as_int=as_int)
        inp = {"spr": spr, "records": recs, "min_amplitude": amp, "min_height_over_noise": hon}
        if any(t is None for t in thrs):
            reason = None if res == ("err", 1) else "expected 'Too few channel thresholds', got %s" % (res,)
            key = None
        else:
            reason = spec_find_hits(recs, thrs, res)
            nh = len(res[1]) if res[0] == "ok" else 0
            key = lib.canon([recs, thrs]) if nh >= 1 and any(
                0 < h[5] or h[6] < recs[h[7]][LEN] for h in res[1]) else None
        line = "find_hits %s %s %s" % (enc_targ(amp), enc_targ(hon), enc_records(recs, spr))
        u.add(line, res, reason, inp, key, kind, dec_hits)

    # (i) exhaustive waveforms over {0..3}, one pulse, 1 fragment (all) and 2 fragments (alphabet {0,2,3})
    for spr in ([4, 5, 6] if big else [4, 5]):
        for samples, plen in exhaustive_waveform_scenarios(ctx, spr, [0, 1, 2, 3], 1):
            for ci, (amp, hon) in enumerate(cfgs):
                bl16 = [0, 4, 16 * 5 + 8, 12][(ci + plen) % 4]
                recs = build_scenario([(0, 7, samples, bl16, 16, set())], spr, [1, 2, 10][ci % 3])
                one(recs, spr, amp, hon, "exhaustive-1frag-spr%d" % spr)
    for spr in ([4] if big else [3]):
        for samples, plen in exhaustive_waveform_scenarios(ctx, spr, [0, 2, 3], 2):
            for ci, (amp, hon) in enumerate(cfgs[1:4]):
                recs = build_scenario([(0, 11, samples, 4 * (plen % 4), 8, set())], spr, 2)
                one(recs, spr, amp, hon, "exhaustive-2frag-spr%d" % spr)
    # (ii) random multi-channel multi-fragment scenarios
    n_rand = 40000 if ctx.thorough else 6000
    for i in range(n_rand):
        spr = rng.choice(sprs(ctx))
        recs, n_ch = random_scenario(rng, spr, [0, 1, 2, 3] if i % 3 else [0, 1, 2, 3, 4, 7, -1, -2],
                                     pad=rng.choice([0, 0, 3]))
        if not recs:
            continue
        amp, hon = random_threshold(rng, max(n_ch, 1 + max(r[CH] for r in recs)) - (1 if rng.random() < 0.03 else 0))
        if amp[0] == "p" and not amp[1] or hon[0] == "p" and not hon[1]:
            continue
        one(recs, spr, amp, hon, "random-%s/%s" % (amp[0], hon[0]), as_int=(i % 5 == 0))
    one([], 4, ("s", 16), ("s", 0), "empty")
    u.finish()
    crosscheck(ctx, u, "find_hits", lambda inp: "c18_find_hits %s %s %s" % (
        coq_recs(inp["records"]), coq_targ(inp["min_amplitude"]), coq_targ(inp["min_height_over_noise"])),
        lambda res: [0, res[1]] if res[0] == "err" else [1] + [x for h in res[1] for x in h])


def crosscheck(ctx, u, name, lhs, flat, k=60):
    idxs = [i for i in range(len(u.cases))]
    idxs = sorted(ctx.rng.sample(idxs, min(k, len(idxs))))
    eqs = []
    for i in idxs:
        inp = u.cases[i][3]
        mres = u.cases[i][5](u.mout[i])
        eqs.append("%s = %s" % (lhs(inp), coq_zlist(flat(mres))))
    n, fails = lib.coq_crosscheck("C18_" + name, "From SV Require Import Model.Hits Model.Reduction Model.C18Run.", eqs)
    ctx.coverage.setdefault("kernel_crosscheck", {})[name] = {"equations": n, "failed_files": len(fails)}
    if fails:
        ctx.violation(name, "extracted model and Coq vm_compute disagree: " + fails[0][-400:],
                      {"input": "corr:C18/%s/extraction-crosscheck" % name, "log": fails[0]}, no_failing_input=True)


def unit_record_links(ctx):
    u = Unit(ctx, "record_links")
    rng = ctx.rng

    def one(recs, spr, kind):
        res = impl_record_links(recs, spr)
        neg = any(r[CH] < 0 for r in recs)
        if neg:
            reason = None if res[0] == "err" else "negative channel accepted"
        else:
            reason = spec_record_links(recs, spr, res)
        key = lib.canon([[(r[T], r[DTNS], r[CH], r[RECI]) for r in recs], spr]) if (
            res[0] == "ok" and any(x >= 0 for x in res[1])) else None
        u.add("record_links " + enc_records(recs, spr), res, reason, {"spr": spr, "records": recs}, key, kind, dec_links)

    # exhaustive: <= 4 records, 2 channels, times on a grid of multiples of spr*dt/2, record_i in {0,1,2}
    spr, dt = 4, 1
    nmax = 4 if big_budget(ctx) else 3
    grid = [0, 2, 4, 6, 8]   # includes time 0 (the fixed defect d422fcc lived there)
    for n in range(1, nmax + 1):
        for times in itertools.combinations_with_replacement(grid, n):
            for chs in itertools.product([0, 1], repeat=n):
                for ris in itertools.product([0, 1, 2], repeat=n):
                    recs = [(times[i], spr, dt, chs[i], 3 * spr, ris[i], 0, 0, 0, 0, 0, (1,) * spr) for i in range(n)]
                    one(recs, spr, "exhaustive-n%d" % n)
    for i in range(20000 if ctx.thorough else 4000):
        spr = rng.choice(sprs(ctx))
        recs, _ = random_scenario(rng, spr, [1, 2], t_min=rng.choice([0, 0, 5]))
        if i % 50 == 0 and recs:
            j = rng.randrange(len(recs))
            recs[j] = recs[j][:CH] + (-1,) + recs[j][CH + 1:]
        one(recs, spr, "random")
    one([], 4, "empty")
    u.finish()
    crosscheck(ctx, u, "record_links", lambda inp: "c18_record_links %s" % coq_recs(inp["records"]),
               lambda res: [0, res[1]] if res[0] == "err" else [1] + res[1] + res[2])


TIME0_WITNESS = {"spr": 4, "records": [(0, 4, 1, 0, 8, 1, 0, 0, 0, 0, 0, (1, 1, 1, 1)),
                                       (5, 4, 1, 1, 4, 0, 0, 0, 0, 0, 0, (1, 1, 1, 1))]}


def unit_record_links_time0(ctx):
    """Regression for the defect repaired by /repo d422fcc (documented by C18_record_links_time0_refuted_pinned):
    replay the witness of the pinned snapshot on the real code; it must satisfy the linking statement now."""
    inp = TIME0_WITNESS
    recs = [tuple(r) for r in inp["records"]]
    res = impl_record_links(recs, inp["spr"])
    reason = spec_record_links(recs, inp["spr"], res)
    mo = dec_links(lib.run_model("C18", ["record_links " + enc_records(recs, inp["spr"])])[0])
    ctx.count("record_links_time0", 1, 1, {"witness": 1})
    if reason:
        ctx.violation("record_links_time0", "strax.record_links links records that are not fragments of one pulse: "
                      + reason, {"input": inp, "impl": res, "model": mo})
    if mo != res:
        ctx.violation("record_links_time0", "model/implementation disagree on the time-0 witness",
                      {"input": "corr:C18/record_links_time0", "impl": res, "model": mo}, no_failing_input=True)


def unit_cut_outside_hits(ctx):
    u = Unit(ctx, "cut_outside_hits")
    rng = ctx.rng
    big = big_budget(ctx)

    def one(recs, spr, hs, le, re, kind, hits_arr=None):
        arr = hits_arr if hits_arr is not None else mk_hits(hs)
        res = impl_cut_outside_hits(recs, spr, arr, le, re)
        reason = spec_cut_outside_hits(recs, spr, hs, le, re, res)
        inp = {"spr": spr, "records": recs, "hits": hs, "left_extension": le, "right_extension": re}
        key = lib.canon([recs, hs, le, re]) if hs and len(recs) > 1 else None
        line = "cut_outside_hits %d %d %d %s %s" % (le, re, len(hs), " ".join("%d %d %d" % h for h in hs),
                                                    enc_records(recs, spr))
        u.add(line, res, reason, inp, key, kind, dec_recs(spr))

    def hits_by_threshold(recs, thr):
        hs = []
        for k, r in enumerate(recs):
            w = r[DATA][:r[LEN]]
            for sat, grp in itertools.groupby(enumerate(w), key=lambda p: p[1] >= thr):
                if sat:
                    grp = list(grp)
                    hs.append((k, grp[0][0], grp[-1][0] + 1))
        return hs

    # (i) exhaustive: one pulse of 2 (quick) / 3 (thorough) fragments, samples in {1,3} (hit = run of 3s,
    # every sample non-zero so that zeroing is visible), all extensions 0..spr
    for spr, nfrag in ([(4, 2), (3, 3), (4, 3)] if big else [(4, 2), (3, 3)]):
        step = 1
        if (spr, nfrag) == (4, 3) and not ctx.thorough:
            step = 4
        for idx, (samples, plen) in enumerate(exhaustive_waveform_scenarios(ctx, spr, [1, 3], nfrag)):
            if plen != nfrag * spr and plen != nfrag * spr - 2:
                continue
            if idx % step:
                continue
            recs = build_scenario([(0, 9, samples, 0, 0, set())], spr, 2)
            hs = hits_by_threshold(recs, 2)
            for le in range(spr + 1):
                for re in range(spr + 1):
                    one(recs, spr, hs, le, re, "exhaustive-%dfrag-spr%d" % (nfrag, spr))
    # (ii) random scenarios, hits from strax.find_hits itself (pipeline) or synthetic
    for i in range(30000 if ctx.thorough else 5000):
        spr = rng.choice(sprs(ctx))
        recs, n_ch = random_scenario(rng, spr, [1, 2, 3, 5], pad=rng.choice([0, 0, 0, 7]), t_min=rng.choice([0, 5]))
        if not recs:
            continue
        le, re = rng.randint(0, spr), rng.randint(0, spr)
        if i % 2:
            res, arr = impl_find_hits(recs, spr, ("s", rng.choice([24, 40, 56])), ("s", 0), return_array=True)
            if res[0] != "ok":
                continue
            hs = [(h[7], h[5], h[6]) for h in res[1]]
            one(recs, spr, hs, le, re, "random-found-hits", hits_arr=arr)
        else:
            hs = []
            for _ in range(rng.randint(0, 4)):
                k = rng.randrange(len(recs))
                if recs[k][LEN] < 1:
                    continue
                a = rng.randrange(recs[k][LEN])
                b = rng.randint(a + 1, recs[k][LEN])
                hs.append((k, a, b))
            one(recs, spr, hs, le, re, "random-synthetic-hits")
    one([], 4, [], 1, 1, "empty")
    u.finish()
    crosscheck(ctx, u, "cut_outside_hits", lambda inp: "c18_cut_outside_hits %s [%s] (%d) (%d)" % (
        coq_recs(inp["records"]), "; ".join("(%d, %d, %d)" % tuple(h) for h in inp["hits"]),
        inp["left_extension"], inp["right_extension"]), flat_recs_res, k=40)


def unit_helpers(ctx):
    rng = ctx.rng
    uz = Unit(ctx, "zero_oob")
    ui = Unit(ctx, "integrate")
    uc = Unit(ctx, "cut_baseline")
    ub = Unit(ctx, "baseline")
    n = 12000 if ctx.thorough else 2500
    for i in range(n):
        spr = rng.choice(sprs(ctx))
        recs, _ = random_scenario(rng, spr, [0, 1, 2, 3, -1], pad=rng.choice([0, 5, -2]))
        if not recs:
            continue
        inp = {"spr": spr, "records": recs}
        # zero_out_of_bounds
        res = impl_inplace(strax.zero_out_of_bounds, recs, spr)
        key = lib.canon(recs) if any(r[LEN] < spr for r in recs) else None
        uz.add("zero_oob " + enc_records(recs, spr), res, spec_zero_oob(recs, spr, res), inp, key, "random", dec_recs(spr))
        # integrate (with amplitude_bit_shift 0..2)
        recs_s = [r[:SHIFT] + (rng.choice([0, 0, 1, 2]),) + r[SHIFT + 1:] for r in recs]
        res = impl_inplace(strax.integrate, recs_s, spr)
        key = lib.canon(recs_s) if any((r[BL] % 16) * r[LEN] % 16 for r in recs_s) else None
        ui.add("integrate " + enc_records(recs_s, spr), res, spec_integrate(recs_s, spr, res),
               {"spr": spr, "records": recs_s}, key, "random", dec_recs(spr))
        # cut_baseline
        nb, na = rng.randint(0, spr), rng.randint(0, spr + 2)
        res = impl_inplace(cut_baseline_callable(), recs, spr, n_before=nb, n_after=na)
        key = lib.canon([recs, nb, na]) if len(recs) > 1 else None
        uc.add("cut_baseline %d %d %s" % (nb, na, enc_records(recs, spr)), res,
               spec_cut_baseline(recs, spr, nb, na, res), dict(inp, n_before=nb, n_after=na), key, "random", dec_recs(spr))
    # rounding: every fraction x every length (half-even ties)
    for spr in (4, 8):
        for f16 in range(16):
            for ln in range(spr + 1):
                recs = [(3, ln, 1, 0, ln, 0, 0, 0, 16 * 9 + f16, 0, 0, tuple([1] * ln + [0] * (spr - ln)))]
                res = impl_inplace(strax.integrate, recs, spr)
                ui.add("integrate " + enc_records(recs, spr), res, spec_integrate(recs, spr, res),
                       {"spr": spr, "records": recs}, lib.canon(recs), "rounding-grid", dec_recs(spr))
    # baseline on raw-like records (samples around 100)
    for i in range(n):
        spr = rng.choice([4, 8] if not ctx.thorough else [4, 5, 8])
        recs, _ = random_scenario(rng, spr, [100, 101, 102, 103, 99, 96], pad=0)
        if not recs:
            continue
        bs = rng.choice([1, 2, 4] + ([8] if spr == 8 else []))
        flip = rng.random() < 0.7
        sloppy = rng.random() < 0.3
        missing = False
        seen = set()
        for r in recs:
            if r[RECI] == 0:
                seen.add(r[CH])
            elif r[CH] not in seen:
                missing = True
        res = impl_inplace(strax.baseline, recs, spr, baseline_samples=bs, flip=flip, allow_sloppy_chunking=sloppy,
                           fallback_baseline=100, rms_keep=True)
        if missing:
            reason = None
            if not sloppy and res != ("err", 6):
                reason = "missing 0th fragment not reported: %s" % (res,)
        else:
            reason = spec_baseline(recs, spr, bs, flip, res)
        key = lib.canon([recs, bs, flip]) if len(recs) > 1 and not missing else None
        ub.add("baseline %d %d %d 100 %s" % (bs, int(flip), int(sloppy), enc_records(recs, spr)), res, reason,
               {"spr": spr, "records": recs, "baseline_samples": bs, "flip": flip, "allow_sloppy_chunking": sloppy},
               key, "missing-first" if missing else "random", dec_recs(spr))
    for u in (uz, ui, uc, ub):
        u.finish()
    crosscheck(ctx, ui, "integrate", lambda inp: "c18_integrate %s" % coq_recs(inp["records"]), flat_recs_res, k=30)
    crosscheck(ctx, ub, "baseline", lambda inp: "c18_baseline %s (%d) %s %s (100)" % (
        coq_recs(inp["records"]), inp["baseline_samples"], str(inp["flip"]).lower(),
        str(inp["allow_sloppy_chunking"]).lower()), flat_recs_res, k=30)


def unit_pipeline(ctx):
    """raw-like records -> baseline -> zero_out_of_bounds -> integrate -> find_hits -> cut_outside_hits on the
    real code, and the consistency predicates of the property on the final state."""
    rng = ctx.rng
    n_eval = 0
    nontriv = set()
    for i in range(6000 if ctx.thorough else 1200):
        spr = rng.choice([4, 8])
        recs, n_ch = random_scenario(rng, spr, [100, 100, 100, 101, 99, 97, 96, 92], pad=rng.choice([0, 100]))
        # only complete pulses
        seen = set()
        ok = bool(recs)
        for r in recs:
            if r[RECI] == 0:
                seen.add(r[CH])
            elif r[CH] not in seen:
                ok = False
        if not ok:
            continue
        bs = rng.choice([1, 2, 4])
        a = mk_records(recs, spr)
        strax.baseline(a, baseline_samples=bs, flip=True)
        strax.zero_out_of_bounds(a)
        strax.integrate(a)
        thr16 = rng.choice([24, 40, 56])
        hits = strax.find_hits(a, min_amplitude=thr16 / 16.0)
        le, re = rng.randint(0, spr), rng.randint(0, spr)
        out = strax.cut_outside_hits(a, hits, left_extension=le, right_extension=re)
        fin = recs_of(a, rms_from=recs)
        n_eval += 1
        inp = {"spr": spr, "records": recs, "baseline_samples": bs, "threshold16": thr16, "le": le, "re": re}
        reason = None
        for j, (r, f) in enumerate(zip(recs, fin)):
            if isinstance(f[BL], tuple):
                reason = "baseline not exactly representable: %s" % (f[BL],)
                break
            # true integral above the float baseline, in 1/16 units
            true16 = sum(f[BL] - 16 * r[DATA][s] for s in range(min(r[LEN], spr)))
            if abs(16 * f[AREA] - true16) > 8:
                reason = "record %d: area %d is not the rounded integral above the stored baseline (%s/16)" % (
                    j, f[AREA], true16)
                break
            if any(f[DATA][s] != 0 for s in range(max(r[LEN], 0), spr)):
                reason = "record %d: samples beyond the pulse are not zero" % j
                break
        if reason is None:
            hl = [hit_tuple(h) for h in hits]
            for h in hl:
                r, f = recs[h[7]], fin[h[7]]
                true16 = sum(f[BL] - 16 * r[DATA][s] for s in range(h[5], h[6]))
                if h[4] != true16:
                    reason = "hit area %s/16 differs from the integral above the stored baseline %s/16" % (h[4], true16)
                    break
            if reason is None:
                reason = spec_find_hits(fin, [16 * thr16] * len(fin), ("ok", hl))
            if reason is None:
                reason = spec_cut_outside_hits(fin, spr, [(h[7], h[5], h[6]) for h in hl], le, re,
                                               ("ok", recs_of(out, rms_from=recs)))
            if hl:
                nontriv.add(lib.canon(inp))
        if reason:
            ctx.violation("pipeline", "baseline/integrate/find_hits/cut_outside_hits inconsistent: " + reason,
                          {"input": inp})
    ctx.count("pipeline", n_eval, len(nontriv), {"random": n_eval})


def run(ctx):
    ctx.coverage["rule"] = (
        "find_hits: every waveform over {0..3} of 1..spr samples (spr 4,5; thorough 6) and every 2-fragment waveform "
        "over {0,2,3} under 7 (3) threshold configurations (scalar / per-channel / noise-scaled), plus seeded random "
        "scenarios of 1..3 channels x 1..3 pulses x 1..3 fragments (dropped fragments, zero gaps, off-by-one times); "
        "non-trivial = at least one hit that does not span its whole record.  record_links: all lists of <=3 "
        "(thorough 4) records over 5 times x 2 channels x record_i 0..2 plus random scenarios; non-trivial = at least "
        "one link.  cut_outside_hits: every {1,3}-waveform of one 2-/3-fragment pulse x all extensions 0..spr, plus "
        "random scenarios with hits found by strax.find_hits or synthetic; non-trivial = at least one hit and two "
        "records.  helpers: random scenarios; non-trivial = a record shorter than the buffer (zero_oob), a "
        "fractional rounding (integrate), more than one record (baseline, cut_baseline).  Distinct by canonical JSON.")
    ctx.assumptions.append("floats: generated baselines/thresholds/rms are multiples of 1/16 with small numerators, so "
                           "float32/float64 arithmetic in strax is exact and compared for equality with the dyadic model")
    ctx.assumptions.append("baseline_rms (float sqrt) is an input of the model, never computed by it")
    import sys
    import time
    with quiet_stdout():
        for unit in (unit_find_hits, unit_record_links, unit_record_links_time0, unit_cut_outside_hits,
                     unit_helpers, unit_pipeline):
            t0 = time.time()
            unit(ctx)
            sys.stderr.write("C18 %s: %.1fs\n" % (unit.__name__, time.time() - t0))
    if CUT_BASELINE_MODE["mode"] == "py_func":
        ctx.notes.append("strax.cut_baseline cannot be compiled by the installed numba (%s); its correspondence ran "
                         "on the undecorated Python function over a recarray view" % CUT_BASELINE_MODE["error"])


def replay(ctx, obj):
    r = obj["replay"]
    unit = obj["unit"]
    inp = r.get("case") or r.get("input")
    if not isinstance(inp, dict):
        print("no concrete input in this replay file")
        return 0
    recs = [tuple(x[:DATA]) + (tuple(x[DATA]),) for x in inp["records"]]
    spr = inp["spr"]
    reason = None
    if unit == "find_hits":
        amp, hon = tuple(inp["min_amplitude"]), tuple(inp["min_height_over_noise"])
        res, _ = impl_find_hits(recs, spr, amp, hon)
        thrs = thresholds_of(recs, amp, hon)
        reason = spec_find_hits(recs, thrs, res) if all(t is not None for t in thrs) else None
    elif unit in ("record_links", "record_links_time0"):
        res = impl_record_links(recs, spr)
        reason = spec_record_links(recs, spr, res)
    elif unit == "cut_outside_hits":
        hs = [tuple(h) for h in inp["hits"]]
        res = impl_cut_outside_hits(recs, spr, mk_hits(hs), inp["left_extension"], inp["right_extension"])
        reason = spec_cut_outside_hits(recs, spr, hs, inp["left_extension"], inp["right_extension"], res)
    elif unit == "zero_oob":
        res = impl_inplace(strax.zero_out_of_bounds, recs, spr)
        reason = spec_zero_oob(recs, spr, res)
    elif unit == "integrate":
        res = impl_inplace(strax.integrate, recs, spr)
        reason = spec_integrate(recs, spr, res)
    elif unit == "cut_baseline":
        res = impl_inplace(cut_baseline_callable(), recs, spr, n_before=inp["n_before"], n_after=inp["n_after"])
        reason = spec_cut_baseline(recs, spr, inp["n_before"], inp["n_after"], res)
    elif unit == "baseline":
        res = impl_inplace(strax.baseline, recs, spr, baseline_samples=inp["baseline_samples"], flip=inp["flip"],
                           allow_sloppy_chunking=inp["allow_sloppy_chunking"], fallback_baseline=100, rms_keep=True)
        reason = spec_baseline(recs, spr, inp["baseline_samples"], inp["flip"], res)
    else:
        print("unit %s: re-run bin/check C18 with the same seed" % unit)
        return 0
    print("impl:", res)
    print("spec:", reason or "holds")
    return 1 if reason else 0
