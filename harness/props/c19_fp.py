"""C19 unit: find_peaks vs Model/Peaks.v::find_peaks and the cluster definition of Spec/PeaksSpec.v.

A case is (params, gains, nch, hits); params = (gap, lext, rext, min_area, min_ch, max_dur);
a hit is (time, length, dt, channel, area).
"""
import itertools

import numpy as np
import strax

from harness import lib
from harness.props.c19_common import Unit, big, crosscheck, peak_dt, zl

NAME = "find_peaks"
RULE = ("find_peaks: exhaustive over 1..3 (thorough 4) hits with start deltas {0,1,3,4}, lengths {1,3}, 2 channels, "
        "swept over gap {3,4}, extensions {(0,0),(1,1)}, min_area {0,2}, min_channels {1,2}, max_duration {4,8,1000} (every sixth parameter set for 3 hits in the quick tier); "
        "plus seeded random hit sets of 1..12 hits in 1..4 channels (peak dtype with 2..4 channels) with dt in {1,2,5} (5% mixed dt), areas -1..3, "
        "gains {1,2,4}, zero-length hits, hits at gap-1/gap/gap+1, small max_duration, and ~3% precondition-violating "
        "parameter sets; non-trivial = >= 2 clusters of which one has >= 2 hits; distinct by canonical JSON.")

_FP_RAW = strax.find_peaks.__wrapped__          # the numba generator under @growing_result


def mk_hits(hits):
    a = np.zeros(len(hits), dtype=strax.hit_dtype)
    if hits:
        cols = np.array(hits, dtype=np.int64).T
        a["time"], a["length"], a["dt"], a["channel"], a["area"] = cols[0], cols[1], cols[2], cols[3], cols[4]
    return a


def impl(params, gains, nch, hits, public=False, bufsize=7):
    gap, lext, rext, mina, minc, maxd = params
    h = mk_hits(hits)
    dtp = peak_dt(nch)
    kw = dict(gap_threshold=gap, left_extension=lext, right_extension=rext, min_area=mina, min_channels=minc,
              max_duration=maxd)
    try:
        if public:
            out = strax.find_peaks(h, np.array(gains, dtype=np.float64), result_dtype=dtp, **kw)
        else:
            buf = np.zeros(bufsize, dtype=dtp)
            saved = [buf[:n].copy() for n in _FP_RAW(h, np.array(gains, dtype=np.float64), _result_buffer=buf, **kw)]
            out = np.concatenate(saved) if saved else np.zeros(0, dtype=dtp)
    except ValueError:
        return "err 1"
    except AssertionError:
        return "err 2"
    res = []
    for p in out:
        vals = [float(p["area"])] + [float(x) for x in p["area_per_channel"]]
        if any(v != int(v) for v in vals):
            return "non-integer area %r" % vals
        res.append((int(p["time"]), int(p["length"]), int(p["dt"]), int(p["n_hits"]), int(vals[0]),
                    int(p["max_gap"])) + tuple(int(v) for v in vals[1:]))
    return res


def groups_of(params, hits):
    """The clustering by its definition: a hit joins the current group iff it starts less than gap after the
    latest end of the group's hits and including it keeps the extended span within max_duration."""
    gap, lext, rext, mina, minc, maxd = params
    groups, reasons = [], []
    for h in hits:
        if groups:
            g = groups[-1]
            e = max(x[0] + x[2] * x[1] for x in g)
            far = h[0] - e >= gap
            toolong = h[0] - (g[0][0] - lext) + h[2] * h[1] + lext + rext > maxd
            if not far and not toolong:
                g.append(h)
                continue
            reasons.append("far" if far else "duration")
        groups.append([h])
    return groups, reasons


def tquot(num, den):
    q = abs(num) // abs(den)
    return q if (num >= 0) == (den > 0) else -q


def spec(params, gains, nch, hits):
    """Expected output by the closed formulas of Spec/PeaksSpec.v (peak_of / keep / fp_out)."""
    gap, lext, rext, mina, minc, maxd = params
    if not hits:
        return []
    if not (hits[0][2] > 0 and minc >= 1 and gap > lext + rext and max(h[3] for h in hits) < len(gains)
            and lext + maxd + rext < 429496729400):
        return "err 2"
    groups, _ = groups_of(params, hits)
    out = []
    for g in groups:
        area = sum(h[4] * gains[h[3]] for h in g)
        apc = [sum(h[4] * gains[h[3]] for h in g if h[3] == c) for c in range(nch)]
        if area < mina or sum(1 for x in apc if x != 0) < minc:
            continue
        e = max(h[0] + h[2] * h[1] for h in g)
        t = g[0][0] - lext
        ln = tquot(e - t + rext, g[-1][2])
        if ln <= 0:
            return "err 1"
        mg, ee = 0, g[0][0] + g[0][2] * g[0][1]
        for h in g[1:]:
            mg = max(mg, h[0] - ee)
            ee = max(ee, h[0] + h[2] * h[1])
        out.append((t, ln, g[0][2], len(g), area, mg) + tuple(apc))
    return out


def overlaps(out):
    return any(a[0] + a[1] * a[2] > b[0] for a, b in zip(out, out[1:]))


def predicate(params, gains, nch, hits, out):
    """None if the implementation's peaks are the clusters and (when no duration cut decided a boundary)
    disjoint and ordered; else a reason."""
    exp = spec(params, gains, nch, hits)
    if out != exp:
        if isinstance(out, list) and isinstance(exp, list):
            names = ["time", "length", "dt", "n_hits", "area", "max_gap"] + ["area_per_channel[%d]" % c for c in range(nch)]
            for i, (a, b) in enumerate(zip(out, exp)):
                if a != b:
                    k = [j for j in range(len(a)) if a[j] != b[j]][0]
                    return "peak %d has %s = %d but its cluster of hits gives %d" % (i, names[k], a[k], b[k])
            return "%d peaks returned but the hits form %d clusters passing the cuts" % (len(out), len(exp))
        return "returned %r but the clusters give %r" % (out, exp)
    if isinstance(out, list):
        _, reasons = groups_of(params, hits)
        ok_in = all(hits[i][0] <= hits[i + 1][0] for i in range(len(hits) - 1)) and \
            all(h[1] >= 0 and h[2] == hits[0][2] > 0 for h in hits) and params[2] >= 0
        if "duration" not in reasons and ok_in and overlaps(out):
            return "peaks overlap or are out of order although every boundary is a gap boundary: %s" % (out,)
    return None


def line(params, gains, nch, hits):
    flat = []
    for h in hits:
        flat += list(h)
    return "find_peaks %s %d %d %s %d %s" % (" ".join(map(str, params)), nch, len(gains), " ".join(map(str, gains)),
                                             len(hits), " ".join(map(str, flat)))


def model_out(mo, nch):
    toks = mo.split()
    if toks[0] != "ok":
        return mo
    k = int(toks[1])
    v = list(map(int, toks[2:]))
    w = 6 + nch
    return [tuple(v[i * w:(i + 1) * w]) for i in range(k)]


def coq_out(mo, nch):
    m = model_out(mo, nch)
    if isinstance(m, str):
        return "Err (%s)" % m.split()[1]
    return "Ok [%s]" % "; ".join(
        "mkpeak (%d) (%d) (%d) (%d) (%d) %s (%d)" % (p[0], p[1], p[2], p[3], p[4], zl(p[6:]), p[5]) for p in m)


# T3: two hits 2 ns apart, each 20 ns long, max_duration 21: the duration cut separates them and the two peaks overlap
T3_WITNESS = {"params": [10, 0, 0, 0, 1, 21], "gains": [1, 1], "nch": 2,
              "hits": [[0, 20, 1, 0, 1], [2, 20, 1, 0, 1]]}


def gen_cases(ctx):
    cases = []
    deltas, lens = (0, 1, 3, 4), (1, 3)
    hit_opts = [(d, l, c) for d in deltas for l in lens for c in (0, 1)]
    sweeps = [(gap, e[0], e[1], mina, minc, maxd)
              for gap in (3, 4) for e in ((0, 0), (1, 1)) for mina in (0, 2) for minc in (1, 2) for maxd in (4, 8, 1000)]
    for n in range(1, 5 if big(ctx) else 4):
        for combo in itertools.product(hit_opts, repeat=n):
            if combo[0][0] != 0:
                continue
            hits, t = [], 2
            for i, (d, l, c) in enumerate(combo):
                t = t + (d if i else 0)
                hits.append((t, l, 1, c, 1))
            for prm in (sweeps if n <= 2 or big(ctx) else sweeps[::6]):
                cases.append((prm, [1, 1], 2, hits))
    r = ctx.rng
    for _ in range(200000 if ctx.thorough else 8000):
        nch = r.randint(2, 4)      # strax.peak_dtype needs at least 2 channels
        nused = r.randint(1, nch)  # the hits occupy 1..nch of them
        n = r.randint(1, 12)
        dt = r.choice([1, 1, 2, 5])
        gap = r.choice([2, 3, 5, 8, 20])
        lext = r.randint(0, 3) * r.choice([0, 1, dt])
        rext = r.randint(0, 3) * r.choice([0, 1, dt])
        if r.random() < 0.97:
            while gap <= lext + rext:
                gap += 3
        prm = (gap, lext, rext, r.choice([0, 0, 1, 3, 6]), r.choice([1, 1, 2, 3]) if r.random() < 0.98 else 0,
               r.choice([5, 10, 20, 40, 10_000_000]))
        gains = [r.choice([1, 1, 2, 4]) for _ in range(nch)]
        hits, t = [], r.randint(0, 50) * dt
        for i in range(n):
            t += r.choice([0, 0, 1, 2, 3, gap - 1, gap, gap + 1, 2 * gap]) * r.choice([1, dt])
            hdt = dt if r.random() < 0.95 else r.choice([1, 2, 5])
            hits.append((t, r.choice([0, 1, 1, 2, 3, 6]) if r.random() < 0.9 else 15, hdt,
                         r.randrange(nused), r.choice([-1, 0, 1, 1, 2, 3])))
        cases.append((prm, gains, nch, hits))
    return cases


def unit(ctx):
    u = Unit(ctx, NAME)
    cases = gen_cases(ctx)
    mout = lib.run_model_parallel("C19", [line(*c) for c in cases])
    for idx, (c, mo) in enumerate(zip(cases, mout)):
        prm, gains, nch, hits = c
        out = impl(prm, gains, nch, hits, public=(idx % 50 == 0), bufsize=(1 if idx % 3 == 0 else 7))
        mexp = model_out(mo, nch)
        u.n += 1
        groups, reasons = groups_of(prm, hits)
        if isinstance(out, list):
            u.tally("peaks=%d" % min(len(out), 4))
            if "duration" in reasons:
                u.tally("duration_cut_fired")
                if overlaps(out):
                    u.tally("overlap_after_duration_cut")
            if len(out) < len(groups):
                u.tally("some_cluster_cut_by_area_or_channels")
            if len(groups) >= 2 and any(len(g) >= 2 for g in groups):
                u.nontriv.add(lib.canon(c))
        else:
            u.tally(str(out)[:5])
        inp = {"params": list(prm), "gains": gains, "nch": nch, "hits": [list(h) for h in hits]}
        if out != mexp:
            u.report(inp, str(out), str(mexp), predicate(prm, gains, nch, hits, out))
            if u.bad > 5:
                break
        else:
            reason = predicate(prm, gains, nch, hits, out)
            if reason:
                u.report(inp, str(out), str(mexp),
                         "implementation AND model deviate from the cluster definition: " + reason)
    # T3: the duration cut produces overlapping peaks (theorem C19_find_peaks_disjoint_ordered_refuted)
    w = T3_WITNESS
    out = impl(tuple(w["params"]), w["gains"], w["nch"], [tuple(h) for h in w["hits"]])
    if isinstance(out, list) and overlaps(out):
        ctx.violation(u.name, "peaks overlap after the duration cut: %s" % (out,), {"input": w})
    u.done()
    k = len(cases) // 2
    ctx.sample({"unit": u.name, "params(gap,lext,rext,min_area,min_ch,max_dur)": cases[k][0], "gains": cases[k][1],
                "hits(t,len,dt,ch,area)": cases[k][3], "model": mout[k]})
    idxs = sorted(ctx.rng.sample(range(len(cases)), 100))
    eqs = []
    for i in idxs:
        prm, gains, nch, hits = cases[i]
        eqs.append("find_peaks (mkfp %s) %s %d%%nat [%s] = %s" % (
            " ".join("(%d)" % x for x in prm), zl(gains), nch,
            "; ".join("mkhit " + " ".join("(%d)" % x for x in h) for h in hits), coq_out(mout[i], nch)))
    crosscheck(ctx, u.name, eqs, "From SV Require Import Model.PeakHelpers Model.Peaks.")


def replay(inp):
    prm, gains, nch = tuple(inp["params"]), inp["gains"], inp["nch"]
    hits = [tuple(h) for h in inp["hits"]]
    out = impl(prm, gains, nch, hits)
    reason = predicate(prm, gains, nch, hits, out)
    if reason is None and isinstance(out, list) and overlaps(out):
        reason = "peaks overlap (after a duration cut): %s" % (out,)
    print("impl:", out, "spec:", reason or "holds")
    return 1 if reason else 0
