"""C19 unit: sum_waveform (with _build_hit_waveform, overlap_indices, store_downsampled_waveform) vs
Model/SumWaveform.v::sum_waveform, and the conservation predicate (area = sum over channels = sum of the hits'
contributions inside the peak = integral of the stored waveform when down-sampling truncates nothing).

Values are compared in half units (x2): baselines are integers or integers + 0.5.
"""
from fractions import Fraction

import numpy as np
import strax

from harness import lib
from harness.props.c19_common import Unit, big, peak_dt

NAME = "sum_waveform"
RULE = ("sum_waveform: seeded random scenes of 1..3 pulses (20%: two-fragment pulses) with 6-sample records, dt in {1,2}, "
        "samples 0..3, amplitude_bit_shift 0..1, baseline integer or +0.5, 2..3 channels, gains {1,2}; 0..2 hits per "
        "record (sometimes extended over the fragment boundary with negative left_integration / right_integration "
        "beyond the record), 1..3 disjoint peaks of 1..10 samples placed around the hits (partially covering them, "
        "or beyond all hits), 4-sample peak buffers so that down-sampling (also truncating) is frequent; "
        "non-trivial = a peak receiving >= 2 hits or down-sampled; distinct by canonical JSON.")
NS = 4
NSR = 6

# T5: a 5-sample waveform [1,1,1,1,7] stored into a 4-sample buffer becomes [2,2] (dt doubled): 4 of an area of 11
T5_WITNESS = {"ns": 4, "nch": 2, "gains": [1, 1], "dt": 1,
              "recs": [[0, 5, 0, 0, [1, 1, 1, 1, 7, 0], 0, 0, 5]],
              "hits": [[0, 5, 0, 0, 0, 5]], "peaks": [[0, 5, 0, [0, 0]]]}


def build(case):
    dt, nch = case["dt"], case["nch"]
    recs = np.zeros(len(case["recs"]), dtype=strax.record_dtype(NSR))
    for i, (t, ln, b2, sh, data, ch, frag, plen) in enumerate(case["recs"]):
        r = recs[i]
        r["time"], r["length"], r["dt"], r["channel"], r["record_i"], r["pulse_length"] = t, ln, dt, ch, frag, plen
        r["baseline"], r["amplitude_bit_shift"] = b2 / 2.0, sh
        r["data"][:] = data
    hits = np.zeros(len(case["hits"]), dtype=strax.hit_dtype)
    for i, (t, ln, ch, rec, li, ri) in enumerate(case["hits"]):
        h = hits[i]
        h["time"], h["length"], h["dt"], h["channel"], h["record_i"] = t, ln, dt, ch, rec
        h["left_integration"], h["right_integration"] = li, ri
        h["left"], h["right"] = max(li, 0), min(ri, NSR)
    peaks = np.zeros(len(case["peaks"]), dtype=peak_dt(nch, case["ns"]))
    for i, (t, ln, area, apc) in enumerate(case["peaks"]):
        p = peaks[i]
        p["time"], p["length"], p["dt"], p["area"] = t, ln, dt, area
        p["area_per_channel"][:] = apc
    return recs, hits, peaks


def half(x):
    v = Fraction(float(x)) * 2
    return v


def impl(case):
    recs, hits, peaks = build(case)
    links = strax.record_links(recs) if len(recs) else (np.zeros(0, np.int32), np.zeros(0, np.int32))
    try:
        strax.sum_waveform(peaks, hits, recs, links, np.array(case["gains"], dtype=np.float64))
    except ValueError:
        return "err 1", links
    except AssertionError:
        return "err 2", links
    out = []
    for p in peaks:
        ln = int(p["length"])
        out.append((int(p["time"]), ln, int(p["dt"]), half(p["area"]), tuple(half(x) for x in p["area_per_channel"]),
                    tuple(half(x) for x in p["data"][:max(ln, 0)])))
    return out, links


def line(case, links):
    toks = [case["ns"], case["nch"], NSR, max([h[1] for h in case["hits"]] + [0]), len(case["gains"])] + case["gains"]
    toks.append(len(case["recs"]))
    for (t, ln, b2, sh, data, ch, frag, plen) in case["recs"]:
        toks += [t, ln, case["dt"], b2, sh, len(data)] + list(data)
    toks += [int(x) for x in links[0]] + [int(x) for x in links[1]]
    toks.append(len(case["peaks"]))
    for (t, ln, area, apc) in case["peaks"]:
        toks += [t, ln, case["dt"], 2 * area] + [2 * a for a in apc]
    toks.append(len(case["hits"]))
    for (t, ln, ch, rec, li, ri) in case["hits"]:
        toks += [t, ln, case["dt"], ch, rec, li, ri]
    return "sum_waveform " + " ".join(map(str, toks))


def parse(mo):
    if mo.startswith("err"):
        return mo
    out = []
    for part in mo.split(" | ")[1:]:
        a, b, c = (part.split(" ; ") + ["", ""])[:3]
        t, ln, dt, area = map(int, a.split())
        apc = tuple(Fraction(int(x)) for x in b.split())
        q = list(map(int, c.split()))
        data = tuple(Fraction(q[2 * i], q[2 * i + 1]) for i in range(len(q) // 2))
        out.append((t, ln, dt, Fraction(area), apc, data))
    return out


def agree(out, mexp, case):
    """field-wise; peaks the loop never reached (model: no data) are compared without their waveform"""
    if isinstance(out, str) or isinstance(mexp, str):
        return out == mexp
    if len(out) != len(mexp):
        return False
    for o, m in zip(out, mexp):
        if o[:5] != m[:5]:
            return False
        if m[5] != () and o[5] != m[5]:
            return False
    return True


def sample_value(case, links, h, absidx):
    """value (half units) of the record sample at absolute sample index absidx as seen by hit h"""
    t, ln, ch, rec, li, ri = h
    dt = case["dt"]
    cands = [rec]
    if li < 0 and int(links[0][rec]) != -1:
        cands.append(int(links[0][rec]))
    if ri > NSR and int(links[1][rec]) != -1:
        cands.append(int(links[1][rec]))
    val = 0
    for c in cands:      # later assignments overwrite earlier ones, as in the hit waveform buffer
        rt, rl, b2, sh, data, _, _, _ = case["recs"][c]
        k = absidx - rt // dt
        if 0 <= k < rl:
            val = 2 * (2 ** sh) * data[k] + (b2 % 2)
    return val


def predicate(case, links, out):
    if not isinstance(out, list):
        return None
    dt = case["dt"]
    aligned = all(r[0] % dt == 0 for r in case["recs"]) and all(h[0] % dt == 0 for h in case["hits"]) and \
        all(p[0] % dt == 0 for p in case["peaks"])
    hits_sorted = all(a[0] <= b[0] for a, b in zip(case["hits"], case["hits"][1:]))
    if not case["hits"]:
        return None
    last_hit_end = max(h[0] + h[1] * dt for h in case["hits"])
    for (pt, pl, area0, apc0), o in zip(case["peaks"], out):
        t, ln, pdt, area, apc, data = o
        if not (pt < last_hit_end):
            break      # hits exhausted: the loop stops here
        if area != sum(apc):
            return "peak at %d: area %s != sum over channels %s" % (pt, area / 2, sum(apc) / 2)
        f = -(-pl // case["ns"])
        if f <= 1 or pl % f == 0:
            if sum(data) != area:
                return "peak at %d: waveform integrates to %s but area is %s (no truncation by down-sampling)" % (
                    pt, sum(data) / 2, area / 2)
        if ln * pdt > pl * dt:
            return "peak at %d grew from %d ns to %d ns" % (pt, pl * dt, ln * pdt)
        if aligned and hits_sorted:
            exp = 0
            for h in case["hits"]:
                for k in range(h[1]):
                    a = h[0] // dt + k
                    if pt // dt <= a < pt // dt + pl:
                        exp += sample_value(case, links, h, a) * case["gains"][h[2]]
            if area != exp:
                return "peak at %d: area %s but its hits contribute %s inside the peak" % (pt, area / 2, Fraction(exp, 2))
            # sample by sample (C19_sum_waveform_sample_is_hit_sum): buffer[k] = sum over the hits of gain * the
            # hit's sample at the absolute index p_t/dt + k; per channel: area_per_channel; the stored waveform =
            # the buffer summed in chunks of the down-sampling factor
            buf = [0] * pl
            per_ch = [0] * case["nch"]
            for h in case["hits"]:
                for k in range(h[1]):
                    a = h[0] // dt + k
                    if pt // dt <= a < pt // dt + pl:
                        c = sample_value(case, links, h, a) * case["gains"][h[2]]
                        buf[a - pt // dt] += c
                        per_ch[h[2]] += c
            if tuple(per_ch) != tuple(apc):
                return "peak at %d: area_per_channel %s but the hits contribute %s per channel" % (
                    pt, [float(x / 2) for x in apc], [x / 2 for x in per_ch])
            stored = [sum(buf[k * f:(k + 1) * f]) for k in range(pl // f)] if f > 1 else buf
            if list(data) != stored:
                return "peak at %d: stored waveform %s, sum of the hits' samples %s (down-sampling factor %d)" % (
                    pt, [float(x / 2) for x in data], [x / 2 for x in stored], max(f, 1))
    return None


def gen_case(r):
    dt = r.choice([1, 1, 2])
    nch = r.choice([2, 3])
    gains = [r.choice([1, 1, 2]) for _ in range(nch)]
    recs, hits = [], []
    t = r.randint(0, 4) * dt
    for _p in range(r.randint(1, 3)):
        ch = r.randrange(nch)
        b2 = r.choice([0, 2, 5, 20, 21])
        sh = r.choice([0, 0, 1])
        if r.random() < 0.2:
            m = r.randint(1, NSR)
            d1 = [r.randint(0, 3) for _ in range(NSR)]
            d2 = [r.randint(0, 3) if j < m else 0 for j in range(NSR)]
            ia = len(recs)
            recs.append((t, NSR, b2, sh, d1, ch, 0, NSR + m))
            recs.append((t + NSR * dt, m, b2, sh, d2, ch, 1, NSR + m))
            kind = r.random()
            if kind < 0.4:      # hit in fragment A extended into fragment B
                l = r.randint(0, NSR - 1)
                k = r.randint(1, m)
                hits.append((t + l * dt, NSR + k - l, ch, ia, l, NSR + k))
            elif kind < 0.8:    # hit in fragment B extended back into fragment A
                rr = r.randint(1, m)
                k = r.randint(1, 3)
                hits.append((t + (NSR - k) * dt, rr + k, ch, ia + 1, -k, rr))
            elif kind < 0.9:    # negative left_integration without the extended time: empty overlap with prev
                rr = r.randint(1, m)
                hits.append((t + NSR * dt, rr, ch, ia + 1, -1, rr))
            else:
                hits.append((t + r.randint(0, 2) * dt, 2, ch, ia, 0, 2))
            t += (NSR + m) * dt
        else:
            ln = r.randint(1, NSR)
            data = [r.randint(0, 3) if j < ln else 0 for j in range(NSR)]
            i = len(recs)
            recs.append((t, ln, b2, sh, data, ch, 0, ln))
            pos = 0
            for _h in range(r.randint(0, 2)):
                if pos >= ln:
                    break
                l = r.randint(pos, ln - 1)
                rr = r.randint(l + 1, ln)
                hits.append((t + l * dt, rr - l, ch, i, l, rr))
                pos = rr
            t += ln * dt
        t += r.choice([0, 1, 2, 5]) * dt - (r.choice([0, 0, 0, 1]) if dt == 2 else 0)
        t = max(t, 0)
    hits.sort(key=lambda h: h[0])
    peaks = []
    pt = max(0, (hits[0][0] if hits else 0) - r.randint(0, 3) * dt)
    for _k in range(r.randint(1, 3)):
        ln = r.choice([1, 2, 3, 4, 5, 6, 8, 10])
        peaks.append((pt, ln, 7, [3] + [4] * (nch - 1)))
        pt += ln * dt + r.choice([0, 1, 2, 6]) * dt
    return {"ns": NS, "nch": nch, "gains": gains, "dt": dt, "recs": [list(x) for x in recs],
            "hits": [list(x) for x in hits], "peaks": [list(x) for x in peaks]}


def norm(case):
    c = dict(case)
    c["recs"] = [tuple(x[:4]) + (list(x[4]),) + tuple(x[5:]) for x in case["recs"]]
    c["hits"] = [tuple(x) for x in case["hits"]]
    c["peaks"] = [tuple(x[:3]) + (list(x[3]),) for x in case["peaks"]]
    return c


def truncated(case, out):
    res = []
    for (pt, pl, _, _), o in zip(case["peaks"], out):
        f = -(-pl // case["ns"])
        res.append(f > 1 and pl % f != 0 and o[5] != () and sum(o[5]) != o[3])
    return any(res)


def unit(ctx):
    u = Unit(ctx, NAME)
    cases = [norm(gen_case(ctx.rng)) for _ in range(60000 if ctx.thorough else 2500)]
    cases.append(norm(T5_WITNESS))
    outs = [impl(c) for c in cases]
    mout = lib.run_model_parallel("C19", [line(c, o[1]) for c, o in zip(cases, outs)])
    for c, (out, links), mo in zip(cases, outs, mout):
        mexp = parse(mo)
        u.n += 1
        if isinstance(out, list):
            u.tally("ok")
            if truncated(c, out):
                u.tally("area_lost_by_truncating_downsampling")
            if any(o[2] != c["dt"] for o in out):
                u.tally("downsampled")
                u.nontriv.add(lib.canon(c))
            elif len(c["hits"]) >= 2:
                u.nontriv.add(lib.canon(c))
        else:
            u.tally(out)
        inp = {k: c[k] for k in ("ns", "nch", "gains", "dt", "recs", "hits", "peaks")}
        if not agree(out, mexp, c):
            u.report(inp, str(out)[:600], str(mexp)[:600], predicate(c, links, out))
            if u.bad > 5:
                break
        else:
            reason = predicate(c, links, out)
            if reason:
                u.report(inp, str(out)[:600], str(mexp)[:600], "implementation AND model: " + reason)
    # T5: truncating down-sampling loses area (theorem C19_sum_waveform_area_after_downsampling_refuted)
    w = norm(T5_WITNESS)
    out, _ = impl(w)
    if isinstance(out, list) and sum(out[0][5]) != out[0][3]:
        ctx.violation(u.name, "down-sampling truncates: stored waveform %s integrates to %s, area is %s" % (
            [float(x / 2) for x in out[0][5]], float(sum(out[0][5]) / 2), float(out[0][3] / 2)), {"input": T5_WITNESS})
    u.done()
    k = len(cases) // 2
    ctx.sample({"unit": u.name, "case": cases[k], "model": mout[k][:300]})


def replay(inp):
    c = norm(inp)
    out, links = impl(c)
    reason = predicate(c, links, out)
    if reason is None and isinstance(out, list):
        for (pt, pl, _, _), o in zip(c["peaks"], out):
            if o[5] != () and sum(o[5]) != o[3]:
                reason = "stored waveform integrates to %s, area is %s (truncating down-sampling)" % (
                    float(sum(o[5]) / 2), float(o[3] / 2))
    print("impl:", out, "spec:", reason or "holds")
    return 1 if reason else 0
